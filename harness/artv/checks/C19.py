"""C19 — estimator protocol; a model owns its state.

Oracle (the statement executed on the IMPLEMENTATION, every public class and nesting):
 (a) get_params exposes the constructor arguments (nested ones as module__name)
 (b) set_params(**get_params()) is a no-op (parameters and later behaviour)
 (c) constructed-vs-set_params twins trained on the same stream behave identically
 (d) unknown names raise ValueError, out-of-range values raise; the rejected value must not stay
 (e) attribute reads mirror the parameters, attribute writes change behaviour like the constructor
 (f) fit / partial_fit return the estimator itself
 (g) sklearn.base.clone gives an unfitted, independent copy with equal hyper-parameters
 (h) a fitted model is unaffected by later in-place mutation of the training arrays
 (i) deepcopy / pickle twins taken at random points of random histories continue identically
 (j) two instances trained in random interleavings equal each instance trained alone
 (k) a copy.copy checkpoint (every level of a nesting) is not written to when the original is fitted again, in
     particular on the same number of rows: learned state and predictions of the checkpoint stay what they were
 (l) a random subset of the estimator's OWN constructor parameters (CVIART.validity, TopoART.beta_lower/tau/phi,
     DualVigilanceART.rho_lower_bound, BARTMAP.eta, FusionART.gamma_values, any argument of an elementary class)
     changed on an existing object by set_params / attribute assignment, before the first fit or after a history,
     on a stream where the change is observable: reported by get_params, behaves like one constructed with them
 (m) hyper-parameter values that are numpy floating scalars (np.float64, as an np.linspace grid hands out) through
     set_params / module__name / attribute assignment / the constructor: reported as given, set_params(**get_params())
     a no-op, clone / deepcopy / pickle work and every copy behaves like the twin that received Python floats
 (n) a stream of ZERO-row (shape (0, d)) and ONE-row batches consumed by an ALREADY TRAINED estimator in the idiom
     `model = model.partial_fit(batch)` (also fit / predict): every call that returns hands back the estimator itself,
     the caller's tiny arrays can be overwritten afterwards, deepcopy / pickle twins taken before and after the tiny
     batches continue identically, set_params(**get_params()) stays a no-op, an ordinary batch afterwards is learned
     exactly as by a reference that received private copies
 (o) constructors reached through their optional paths with argument CONTAINERS the caller keeps and reuses:
     SMART(base_ART_class, rho_values, base_params, **kwargs) with extra keyword arguments for the layers, FusionART /
     FALCON / TD_FALCON gamma_values / channel_dims (lists or arrays, FALCON's default gamma_values), FusionART /
     DeepARTMAP module lists; the same dict / list / array objects then build a second SMART / DeepARTMAP / FusionART /
     FALCON / TD_FALCON (without the keyword or with another value).  The caller's containers equal the deep copies
     taken before (after every construction, after training); the second instance is accepted / rejected like, reports
     the hyper-parameters of, and trains identically to a control built from fresh equal containers, while the first
     instance keeps training in between and equals its own control
 (p) every host constructor (DualVigilanceART, TopoART, CVIART, SimpleARTMAP, ARTMAP, FusionART, DeepARTMAP, BARTMAP,
     FALCON, TD_FALCON; every slot) around an ALREADY FITTED module of every elementary class: all instance attributes
     of every module handed over are bit-identical after the construction (also when it raises) and after a read-only
     get_params of the host, and the module continues (partial_fit of one more row) like a deepcopy taken before
 (q) in-place writes into the arrays a public ACCESSOR handed out (`for w in model.W: w *= 0.5`, `model.W[j][:] = …`,
     results of get_cluster_centers() / get_channel_centers(k), labels_ / labels_a / … of hosts and of the modules inside
     them, every public array-valued attribute or property of every object of a nesting) applied identically to a fitted
     model, its pickle round trip and its deepcopy, followed by the same partial_fit / predict calls: every write is
     accepted alike and reaches the stored state of the original exactly where it reaches that of the copies (an accessor
     that builds fresh arrays in a copy — FusionART.W — builds fresh arrays in the original: the write reaches no model),
     and the three continue identically (outcomes, predictions, learned state, accessor values)
Tie: `params run` op sequences (get/set/attr/setattr, valid and malformed values) on the
eight elementary classes against the Lean model; the Lean class table against the table
re-extracted from the source (inspect.signature, default-instance get_params, AST of
validate_params); `params own` against FuzzyART on a mutated training array.
"""
from __future__ import annotations

import ast
import copy
import inspect
import pickle
import random
import textwrap
from typing import Any, Optional

import numpy as np

from .. import gen, specs
from ..common import q2s, mat_q, vec_q, run_driver
from ..impl import make, quiet, exc_enum, full_snapshot, eq_snap, params_tree

RULE = ("cases = (subject = public class or nesting, sub-check a..q, hyper-parameter spec(s), data stream, history of "
        "fit/partial_fit/predict calls, copy point / interleaving / mutation / route by which values reach the estimator); a case is non-trivial when at least one "
        "training call committed >= 2 categories (b, c, e, h, i, j, k, l, m, n, o, p, q); protocol-only cases (a, d, g) and tie lines with >= 2 commands count as non-trivial; "
        "distinct by hash of all of it")

BETA_BASES = ["FuzzyART", "HypersphereART", "EllipsoidART", "ART2A"]


class Data:
    """arrays handed to one training / prediction call"""

    def __init__(self, X, y=None, extra=None):
        self.X, self.y, self.extra = X, y, extra

    def n(self):
        X = self.X[0] if isinstance(self.X, list) else self.X
        return X.shape[0]

    def arrays(self):
        out = list(self.X) if isinstance(self.X, list) else [self.X]
        if isinstance(self.y, np.ndarray):
            out.append(self.y)
        if self.extra is not None:
            out += [a for a in self.extra if isinstance(a, np.ndarray)]
        return out

    def copy(self):
        return copy.deepcopy(self)

    def cut(self, a, b):
        X = [x[a:b].copy() for x in self.X] if isinstance(self.X, list) else self.X[a:b].copy()
        y = None if self.y is None else self.y[a:b].copy()
        ex = None if self.extra is None else [e[a:b].copy() for e in self.extra]
        return Data(X, y, ex)


class Subject:
    name = "?"
    cls = "?"
    has_pfit = True
    has_pred = True
    has_fit = True
    sklearn = True          # has get_params / set_params
    square = False          # data must be regenerated as a whole (no row slicing)
    nmax = 12

    def spec(self, r: random.Random) -> dict:
        raise NotImplementedError

    def spec_like(self, r: random.Random, spec: dict) -> dict:
        """another valid spec with the same structure (classes, widths), other hyper-parameters"""
        raise NotImplementedError

    def data(self, r: random.Random, spec: dict, n: int) -> Data:
        raise NotImplementedError

    def fit(self, est, D: Data):
        return est.fit(D.X) if D.y is None else est.fit(D.X, D.y)

    def pfit(self, est, D: Data):
        return est.partial_fit(D.X) if D.y is None else est.partial_fit(D.X, D.y)

    def pred(self, est, D: Data):
        return est.predict(D.X)


# ---------------------------------------------------------------- elementary


def elem_like(r, spec, d):
    """same class and raw width, fresh hyper-parameters (array-valued ones keep their shape)"""
    return specs.elem_spec(r, spec["cls"], d)


class Elem(Subject):
    def __init__(self, cls):
        self.cls = cls
        self.name = cls

    def _d(self, spec):
        return spec["_d"]

    def spec(self, r):
        d = r.randint(1, 3)
        s = specs.elem_spec(r, self.cls, d)
        s["_d"] = d
        return s

    def spec_like(self, r, spec):
        s = specs.elem_spec(r, self.cls, spec["_d"])
        s["_d"] = spec["_d"]
        return s

    def data(self, r, spec, n):
        return Data(specs.elem_data(r, self.cls, n, spec["_d"]))


def strip(spec):
    """remove harness-private keys (leading underscore) before `make`"""
    if isinstance(spec, dict):
        return {k: strip(v) for k, v in spec.items() if not k.startswith("_")}
    if isinstance(spec, list):
        return [strip(v) for v in spec]
    return spec


def sub_elem(r, cls, d=None, need_rho_pos=False):
    d = d or r.randint(1, 3)
    for _ in range(50):
        s = specs.elem_spec(r, cls, d)
        if not need_rho_pos or s["rho"] > 0:
            break
    s["_d"] = d
    return s


# ---------------------------------------------------------------- supervised


class SMap(Subject):
    cls = "SimpleARTMAP"

    def __init__(self, a="FuzzyART"):
        self.a = a
        self.name = f"SimpleARTMAP({a})"

    def spec(self, r):
        return {"cls": "SimpleARTMAP", "module_a": sub_elem(r, self.a)}

    def spec_like(self, r, spec):
        return {"cls": "SimpleARTMAP", "module_a": sub_elem(r, self.a, spec["module_a"]["_d"])}

    def data(self, r, spec, n):
        X = specs.elem_data(r, self.a, n, spec["module_a"]["_d"])
        return Data(X, gen.labels(r, n, 3))


class AMap(Subject):
    cls = "ARTMAP"

    def __init__(self, a="FuzzyART", b="HypersphereART"):
        self.a, self.b = a, b
        self.name = f"ARTMAP({a},{b})"

    def spec(self, r):
        return {"cls": "ARTMAP", "module_a": sub_elem(r, self.a), "module_b": sub_elem(r, self.b)}

    def spec_like(self, r, spec):
        return {"cls": "ARTMAP", "module_a": sub_elem(r, self.a, spec["module_a"]["_d"]),
                "module_b": sub_elem(r, self.b, spec["module_b"]["_d"])}

    def data(self, r, spec, n):
        X = specs.elem_data(r, self.a, n, spec["module_a"]["_d"])
        y = specs.elem_data(r, self.b, n, spec["module_b"]["_d"])
        return Data(X, y)


# ---------------------------------------------------------------- fusion


GAMMAS = {1: [[1.0]], 2: [[0.5, 0.5], [0.25, 0.75]], 3: [[0.5, 0.25, 0.25], [0.25, 0.25, 0.5]]}


class Fusion(Subject):
    cls = "FusionART"

    def __init__(self, chans=("FuzzyART", "FuzzyART")):
        self.chans = list(chans)
        self.name = "FusionART([" + ",".join(chans) + "])"

    def spec(self, r):
        mods = [sub_elem(r, c, r.randint(1, 2)) for c in self.chans]
        return self._wrap(r, mods)

    def _wrap(self, r, mods):
        dims = [specs.width(m["cls"], m["_d"]) for m in mods]
        return {"cls": "FusionART", "modules": mods, "gamma_values": list(r.choice(GAMMAS[len(mods)])),
                "channel_dims": dims}

    def spec_like(self, r, spec):
        return self._wrap(r, [sub_elem(r, m["cls"], m["_d"]) for m in spec["modules"]])

    def data(self, r, spec, n):
        return Data(np.hstack([specs.elem_data(r, m["cls"], n, m["_d"]) for m in spec["modules"]]))


class SMapFusion(Subject):
    """SimpleARTMAP hosting a FusionART: the host drives the nested estimator through step_fit only, so the nested
    FusionART never passes through its own fit/partial_fit bookkeeping"""
    cls = "SimpleARTMAP[FusionART]"

    def __init__(self, chans=("HypersphereART", "FuzzyART")):
        self.f = Fusion(chans)
        self.name = "SimpleARTMAP(" + self.f.name + ")"

    def spec(self, r):
        return {"cls": "SimpleARTMAP", "module_a": self.f.spec(r)}

    def spec_like(self, r, spec):
        return {"cls": "SimpleARTMAP", "module_a": self.f.spec_like(r, spec["module_a"])}

    def data(self, r, spec, n):
        return Data(self.f.data(r, spec["module_a"], n).X, gen.labels(r, n, 3))


# ---------------------------------------------------------------- hierarchical


class Deep(Subject):
    cls = "DeepARTMAP"

    def __init__(self, mods=("FuzzyART", "FuzzyART"), supervised=True):
        self.mods, self.supervised = list(mods), supervised
        self.name = "DeepARTMAP([" + ",".join(mods) + "]," + ("sup" if supervised else "unsup") + ")"

    def spec(self, r):
        return {"cls": "DeepARTMAP", "modules": [sub_elem(r, c) for c in self.mods]}

    def spec_like(self, r, spec):
        return {"cls": "DeepARTMAP", "modules": [sub_elem(r, m["cls"], m["_d"]) for m in spec["modules"]]}

    def data(self, r, spec, n):
        X = [specs.elem_data(r, m["cls"], n, m["_d"]) for m in spec["modules"]]
        return Data(X, gen.labels(r, n, 3) if self.supervised else None)

    def fit(self, est, D):
        return est.fit(D.X, D.y)

    def pfit(self, est, D):
        return est.partial_fit(D.X, D.y)

    def pred(self, est, D):
        return est.predict(D.X)


class Smart(Subject):
    cls = "SMART"

    def __init__(self, base="FuzzyART"):
        self.base = base
        self.name = f"SMART({base})"

    def spec(self, r, d=None):
        d = d or r.randint(1, 3)
        k = r.randint(2, 3)
        e = sub_elem(r, self.base, d)
        rhos = sorted(r.sample([0.0, 0.25, 0.5, 0.625, 0.75, 0.875], k))
        if self.base == "FuzzyART" and rhos[0] == 0.0 and e.get("alpha", 1) == 0.0:
            e["alpha"] = 2.0 ** -10
        bp = {k_: v for k_, v in e.items() if k_ not in ("cls", "rho", "_d")}
        return {"cls": "SMART", "base": self.base, "rho_values": rhos, "base_params": bp, "_d": d}

    def spec_like(self, r, spec):
        for _ in range(20):
            s = self.spec(r, spec["_d"])
            if len(s["rho_values"]) == len(spec["rho_values"]):
                return s
        return spec

    def data(self, r, spec, n):
        return Data(specs.elem_data(r, self.base, n, spec["_d"]))


# ---------------------------------------------------------------- topological


class Topo(Subject):
    cls = "TopoART"

    def __init__(self, base="FuzzyART"):
        self.base = base
        self.name = f"TopoART({base})"

    def spec(self, r, d=None):
        b = sub_elem(r, self.base, d)
        beta = b["beta"]
        tau = r.choice([2, 3, 5, 100])
        return {"cls": "TopoART", "base_module": b, "beta_lower": r.choice([beta, beta / 2, 0.0]),
                "tau": tau, "phi": r.randint(1, min(3, tau))}

    def spec_like(self, r, spec):
        return self.spec(r, spec["base_module"]["_d"])

    def data(self, r, spec, n):
        return Data(specs.elem_data(r, self.base, n, spec["base_module"]["_d"]))


class Dual(Subject):
    cls = "DualVigilanceART"

    def __init__(self, base="FuzzyART"):
        self.base = base
        self.name = f"DualVigilanceART({base})"

    def spec(self, r, d=None):
        b = sub_elem(r, self.base, d, need_rho_pos=True)
        return {"cls": "DualVigilanceART", "base_module": b,
                "rho_lower_bound": r.choice([0.0, b["rho"] / 2, b["rho"] / 4])}

    def spec_like(self, r, spec):
        return self.spec(r, spec["base_module"]["_d"])

    def data(self, r, spec, n):
        return Data(specs.elem_data(r, self.base, n, spec["base_module"]["_d"]))


# ---------------------------------------------------------------- biclustering


class Bart(Subject):
    cls = "BARTMAP"
    name = "BARTMAP(FuzzyART,FuzzyART)"
    has_pfit = False
    has_pred = False
    square = True
    nmax = 7

    def spec(self, r):
        def m():
            return {"cls": "FuzzyART", "rho": r.choice([0.0, 0.25, 0.5]), "alpha": r.choice([2.0 ** -10, 0.25]),
                    "beta": r.choice([1.0, 0.5])}
        return {"cls": "BARTMAP", "module_a": m(), "module_b": m(), "eta": r.choice([-1.0, 0.0, 0.25, 0.5])}

    def spec_like(self, r, spec):
        return self.spec(r)

    def data(self, r, spec, n):
        n = max(3, n)
        return Data(np.array([[r.randint(0, 8) / 8 for _ in range(n)] for _ in range(n)], dtype=float))

    def fit(self, est, D):
        return est.fit(D.X)


# ---------------------------------------------------------------- CVI


class Cvi(Subject):
    cls = "CVIART"
    has_pfit = False
    nmax = 9

    def __init__(self, base="FuzzyART"):
        self.base = base
        self.name = f"CVIART({base})"

    def spec(self, r, d=None):
        return {"cls": "CVIART", "base_module": sub_elem(r, self.base, d), "validity": r.choice([1, 2, 3])}

    def spec_like(self, r, spec):
        return self.spec(r, spec["base_module"]["_d"])

    def data(self, r, spec, n):
        return Data(specs.elem_data(r, self.base, n, spec["base_module"]["_d"]))


class ICvi(Subject):
    cls = "iCVIFuzzyART"
    name = "iCVIFuzzyART"

    def spec(self, r, d=None):
        d = d or r.randint(1, 3)
        p = gen.fuzzy_params(r)
        return {"cls": "iCVIFuzzyART", **p, "validity": 1, "offline": r.random() < 0.5, "_d": d}

    def spec_like(self, r, spec):
        # `offline` is exposed by get_params since /repo 9f458f8, so it varies like any other parameter
        return self.spec(r, spec["_d"])

    def data(self, r, spec, n):
        return Data(specs.elem_data(r, "FuzzyART", n, spec["_d"]))


# ---------------------------------------------------------------- reinforcement


class Falcon(Subject):
    sklearn = False

    def __init__(self, td=False, default_gamma=False):
        self.td, self.default_gamma = td, default_gamma
        self.cls = "TD_FALCON" if td else "FALCON"
        self.name = self.cls + ("(default gamma_values)" if default_gamma else "")
        self.has_fit = not td

    def spec(self, r, ds=None, da=None):
        ds, da = ds or r.randint(1, 2), da or 1
        s = {"cls": self.cls, "state_art": sub_elem(r, "FuzzyART", ds), "action_art": sub_elem(r, "FuzzyART", da),
             "reward_art": sub_elem(r, "FuzzyART", 1), "channel_dims": [2 * ds, 2 * da, 2]}
        if not self.default_gamma:
            s["gamma_values"] = list(r.choice(GAMMAS[3]))
        if self.td:
            s["td_alpha"] = r.choice([1.0, 0.5])
            s["td_lambda"] = r.choice([1.0, 0.5, 0.0])
        return s

    def spec_like(self, r, spec):
        return self.spec(r, spec["state_art"]["_d"], spec["action_art"]["_d"])

    def data(self, r, spec, n):
        S = specs.elem_data(r, "FuzzyART", n, spec["state_art"]["_d"])
        A = specs.elem_data(r, "FuzzyART", n, spec["action_art"]["_d"])
        R = specs.elem_data(r, "FuzzyART", n, 1)
        return Data(S, None, [A, R])

    def fit(self, est, D):
        return est.fit(D.X, D.extra[0], D.extra[1])

    def pfit(self, est, D):
        return est.partial_fit(D.X, D.extra[0], D.extra[1])

    def pred(self, est, D):
        # get_rewards needs prepare_data to have set the normalisation bounds; the reward-free
        # prediction of the underlying FusionART is the same decision without that dependency
        fa = est.fusion_art
        X = fa.join_channel_data([D.X, D.extra[0]], skip_channels=[2])
        return fa.predict(X, skip_channels=[2])


def all_subjects() -> list[Subject]:
    out: list[Subject] = [Elem(c) for c in specs.ELEM]
    out += [SMap("FuzzyART"), SMap("ART1"), SMap("GaussianART"),
            AMap("FuzzyART", "HypersphereART"), AMap("FuzzyART", "FuzzyART"),
            Fusion(("FuzzyART", "FuzzyART")), Fusion(("FuzzyART", "ART2A", "FuzzyART")),
            Fusion(("HypersphereART", "FuzzyART")), SMapFusion(("HypersphereART", "FuzzyART")),
            SMapFusion(("FuzzyART", "GaussianART")),
            Deep(("FuzzyART", "FuzzyART"), True), Deep(("FuzzyART", "HypersphereART", "FuzzyART"), False),
            Smart("FuzzyART"),
            Topo("FuzzyART"), Topo("HypersphereART"),
            Dual("FuzzyART"), Dual("HypersphereART"),
            Bart(), Cvi("FuzzyART"), ICvi(),
            Falcon(False), Falcon(True), Falcon(False, default_gamma=True)]
    return out


# ================================================================ running histories


def _drop_mirrors(t):
    """FusionART/BARTMAP.get_params() caches `module_i__name` mirrors (and the module objects) inside
    `self.params`; they are not hyper-parameters of their own, so two estimators that differ only in
    whether get_params() was ever called are equal for this check"""
    if isinstance(t, dict):
        return {k: _drop_mirrors(v) for k, v in t.items() if not (isinstance(k, str) and "__" in k)}
    if isinstance(t, (list, tuple)):
        return type(t)(_drop_mirrors(v) for v in t)
    return t


def snapshot(est):
    s = full_snapshot(est)
    return _drop_mirrors(s)


def ptree(est):
    return _drop_mirrors(params_tree(est))


def outcome(fn):
    try:
        with quiet():
            return ("ok", fn())
    except Exception as e:  # noqa
        return ("exc", exc_enum(e))


def ncat(snap) -> int:
    """largest number of categories of any module inside a snapshot"""
    best = 0
    if isinstance(snap, dict):
        if isinstance(snap.get("W"), list):
            best = len(snap["W"])
        for v in snap.values():
            best = max(best, ncat(v))
    elif isinstance(snap, (list, tuple)):
        for v in snap:
            best = max(best, ncat(v))
    return best


def gen_ops(S: Subject, r: random.Random, spec: dict, k: int, nmax: Optional[int] = None):
    """a random history: first a training call, then a mix of partial_fit / predict / re-fit"""
    nmax = nmax or S.nmax
    ops = []
    for j in range(k):
        n = r.randint(2, nmax)
        kinds = []
        if j == 0:
            if S.has_fit:
                kinds += ["fit", "fit"]
            if S.has_pfit:
                kinds += ["pfit"]
        else:
            if S.has_pfit:
                kinds += ["pfit", "pfit", "pfit"]
            if S.has_pred:
                kinds += ["pred", "pred"]
            if S.has_fit:
                kinds += ["fit"]
        ops.append((r.choice(kinds), S.data(r, spec, n)))
    return ops


def apply_op(S: Subject, est, op, D: Data):
    """one call; result = ('ok', returned-self?, snapshot) | ('ok', prediction) | ('exc', kind)"""
    if op == "pred":
        o = outcome(lambda: S.pred(est, D))
        if o[0] == "ok":
            p = o[1]
            return ("ok", [np.array(t).copy() for t in p] if isinstance(p, (list, tuple)) else np.array(p).copy())
        return o
    fn = S.fit if op == "fit" else S.pfit
    o = outcome(lambda: fn(est, D))
    if o[0] == "ok":
        return ("ok", o[1] is est, snapshot(est))
    return ("exc", o[1], snapshot(est))


def run_ops(S: Subject, est, ops):
    return [apply_op(S, est, op, D.copy()) for op, D in ops]


def first_diff(a, b):
    for i, (x, y) in enumerate(zip(a, b)):
        if not eq_snap(x, y):
            return i
    return None if len(a) == len(b) else min(len(a), len(b))


def _no_params(t):
    if isinstance(t, dict):
        return {k: _no_params(v) for k, v in t.items() if k != "params"}
    if isinstance(t, (list, tuple)):
        return type(t)(_no_params(v) for v in t)
    return t


def behav(outs):
    """outcomes without the hyper-parameter part of the snapshots: labels, weights, counters, maps,
    predictions, exceptions — what the estimator DOES"""
    return [_no_params(o) for o in outs]


def ops_brief(ops):
    return [(op, D.n()) for op, D in ops]


def ops_replay(ops):
    return [{"op": op, "X": D.X, "y": D.y, "extra": D.extra} for op, D in ops]


def nontrivial(outs) -> bool:
    return any(o[0] == "ok" and len(o) == 3 and ncat(o[2]) >= 2 for o in outs)


def leaf_params(est) -> dict:
    """get_params(deep=True) without estimator-valued entries"""
    return {k: v for k, v in est.get_params(deep=True).items() if not hasattr(v, "get_params")}


def ctor_args(C) -> list[str]:
    return [p for p in inspect.signature(C.__init__).parameters if p not in ("self", "kwargs")]


def set_params_owner(est) -> str:
    for k in type(est).__mro__:
        if "set_params" in k.__dict__:
            return k.__name__
    return type(est).__name__


def walk(est, path: str):
    """follow `a__b__c` through attributes; returns (object holding the last name, last name)"""
    parts = path.split("__")
    obj = est
    for p in parts[:-1]:
        obj = getattr(obj, p)
    return obj, parts[-1]


def peq(a, b) -> bool:
    """equality of two hyper-parameter values"""
    if isinstance(a, np.ndarray) or isinstance(b, np.ndarray):
        return isinstance(a, np.ndarray) == isinstance(b, np.ndarray) and np.array_equal(np.asarray(a), np.asarray(b))
    if isinstance(a, (list, tuple)) and isinstance(b, (list, tuple)):
        return len(a) == len(b) and all(peq(x, y) for x, y in zip(a, b))
    try:
        return type(a) == type(b) and bool(a == b)
    except Exception:
        return a is b


# ================================================================ oracle parts (implementation only)


class Case:
    """bookkeeping shared by the sub-checks of one (subject, index)"""

    def __init__(self, ctx, S: Subject, idx: int, table: dict):
        self.ctx, self.S, self.idx, self.table = ctx, S, idx, table

    def rng(self, part: str) -> random.Random:
        return gen.rng_for(self.ctx.seed, f"C19/{part}/{self.S.name}", self.idx)

    def violation(self, sig: str, what: str, replay: dict):
        replay = dict(replay, subject=self.S.name, index=self.idx, seed=self.ctx.seed)
        self.ctx.issue("violation", sig, f"{self.S.name}: {what}", replay)

    def build(self, spec, part: str):
        o = outcome(lambda: make(strip(spec)))
        if o[0] == "exc":
            self.violation(f"{self.S.cls}.__init__:{o[1]}", f"constructor raised {o[1]} on a valid spec ({part})",
                           {"spec": spec})
            return None
        return o[1]


def chk_a_get_params(c: Case):
    """(a) get_params(deep=True): plain names = constructor arguments, nested = module__name"""
    S, r = c.S, c.rng("a")
    spec = S.spec(r)
    est = c.build(spec, "a")
    if est is None:
        return
    c.ctx.cov.case(("a", S.name, spec), True)
    args = ctor_args(type(est))
    o = outcome(lambda: dict(est.get_params(deep=True)))
    if o[0] == "exc":
        c.violation(f"{S.cls}.get_params:{o[1]}", f"get_params raised {o[1]}", {"spec": spec})
        return
    gp = o[1]
    plain = [k for k in gp if "__" not in k]
    if set(plain) != set(args):
        c.violation(f"{S.cls}.get_params:not-the-constructor-arguments",
                    f"get_params(deep=True) names {sorted(plain)} != constructor arguments {sorted(args)}",
                    {"spec": spec})
        c.ctx.cov.hit("a:mismatch")
        return
    want = set()
    for k in plain:
        if hasattr(gp[k], "get_params"):
            with quiet():
                want |= {f"{k}__{s}" for s in gp[k].get_params(deep=True)}
    nested = {k for k in gp if "__" in k}
    if nested != want:
        c.violation(f"{S.cls}.get_params:nested-names", f"nested names {sorted(nested)} != {sorted(want)}", {"spec": spec})
        return
    # values are the ones handed to the constructor
    raw = strip(spec)
    for k in plain:
        v = raw.get(k)
        if isinstance(v, dict) or (isinstance(v, list) and v and isinstance(v[0], dict)):
            continue
        if k in raw and not peq(_norm(gp[k]), _norm(v)):
            c.violation(f"{S.cls}.get_params:value", f"get_params()[{k!r}] = {gp[k]!r}, constructed with {v!r}", {"spec": spec})
    c.ctx.cov.hit("a:ok")


def _norm(v):
    """numeric containers by value (a spec writes arrays as lists)"""
    if isinstance(v, (list, tuple, np.ndarray)):
        try:
            return np.array(v, dtype=float)
        except (TypeError, ValueError):
            return v
    return v


def chk_b_roundtrip(c: Case):
    """(b) set_params(**get_params()) is a no-op, at a random point of a history"""
    S, r = c.S, c.rng("b")
    spec = S.spec(r)
    A, B = c.build(spec, "b"), c.build(spec, "b")
    if A is None or B is None:
        return
    ops = gen_ops(S, r, spec, r.randint(2, 3))
    at = r.randint(0, len(ops) - 1)
    outsA = run_ops(S, A, ops)
    outsB = run_ops(S, B, ops[:at])
    with quiet():
        o = outcome(lambda: dict(B.get_params()))
    if o[0] == "exc":
        c.violation(f"{S.cls}.get_params:{o[1]}", f"get_params raised {o[1]}", {"spec": spec})
        return
    before = ptree(B)
    o2 = outcome(lambda: B.set_params(**o[1]))
    rep = {"spec": spec, "ops": ops_replay(ops), "at": at}
    if o2[0] == "exc":
        c.violation(f"{S.cls}.set_params:roundtrip-raises", f"set_params(**get_params()) raised {o2[1]} after {at} calls", rep)
        return
    if o2[1] is not B:
        c.violation(f"{S.cls}.set_params:returns-not-self", "set_params did not return the estimator", rep)
    if not eq_snap(before, ptree(B)):
        c.violation(f"{S.cls}.set_params:roundtrip-changes-params", "set_params(**get_params()) changed the hyper-parameters", rep)
    outsB += run_ops(S, B, ops[at:])
    d = first_diff(outsA, outsB)
    if d is not None:
        c.violation(f"{S.cls}.set_params:roundtrip-changes-behaviour",
                    f"after set_params(**get_params()) at call {at}, call {d} ({ops[d][0]}) differs from the untouched twin", rep)
    c.ctx.cov.case(("b", S.name, spec, ops_brief(ops), at), nontrivial(outsA))
    c.ctx.cov.hit("b:roundtrip")


def chk_c_twins(c: Case):
    """(c) constructed with spec2  ==  constructed with spec1, then set_params(values of spec2)"""
    S, r = c.S, c.rng("c")
    spec1 = S.spec(r)
    spec2 = S.spec_like(r, spec1)
    A, B = c.build(spec2, "c"), c.build(spec1, "c")
    if A is None or B is None:
        return
    with quiet():
        kw = leaf_params(A)
    rep = {"spec_constructed": spec2, "spec_before_set_params": spec1, "set_params": kw}
    o = outcome(lambda: B.set_params(**kw))
    if o[0] == "exc":
        c.violation(f"{S.cls}.set_params:valid-values-raise", f"set_params with values accepted by the constructor raised {o[1]}", rep)
        return
    ops = gen_ops(S, r, spec2, r.randint(2, 3))
    rep["ops"] = ops_replay(ops)
    outsA, outsB = run_ops(S, A, ops), run_ops(S, B, ops)
    d = first_diff(behav(outsA), behav(outsB))       # behaviour is what counts, not the stored dicts
    same_tree = eq_snap(ptree(A), ptree(B))
    if d is not None:
        c.violation(f"{S.cls}.set_params:differs-from-constructed",
                    f"estimator after set_params({_brief(kw)}) behaves differently from one constructed with these values "
                    f"(first difference at call {d}: {ops[d][0]}; categories {_nc(outsA, d)} vs {_nc(outsB, d)})", rep)
        c.ctx.cov.hit("c:differs")
    else:
        c.ctx.cov.hit("c:equal" if same_tree else "c:stored-params-differ-but-behaviour-equal-on-this-stream")
    c.ctx.cov.case(("c", S.name, spec1, spec2, ops_brief(ops)), nontrivial(outsA) and strip(spec1) != strip(spec2))


def chk_c_used_twins(c: Case):
    """(c') an estimator that has ALREADY been trained with spec1, then receives set_params(values of spec2) and is
    fitted again, behaves like one constructed with spec2 (fit discards the earlier model; whatever an estimator
    memoised during the earlier training must not survive the change of its parameters)"""
    S, r = c.S, c.rng("c-used")
    if not S.has_fit or S.cls == "BARTMAP":
        # BARTMAP: every op draws a matrix of another shape, and a re-fit on another shape is C06's / C17's subject
        return
    spec1 = S.spec(r)
    spec2 = S.spec_like(r, spec1)
    A, B = c.build(spec2, "c-used"), c.build(spec1, "c-used")
    if A is None or B is None:
        return
    with quiet():
        kw = leaf_params(A)
    pre = gen_ops(S, r, spec1, r.randint(1, 2))
    pre_out = run_ops(S, B, pre)
    if any(o[0] == "exc" for o in pre_out):
        c.ctx.cov.hit("c-used:earlier-history-raised")
        return
    rep = {"spec_constructed": spec2, "spec_before_set_params": spec1, "set_params": kw, "earlier_ops": ops_replay(pre)}
    by_attr = r.random() < 0.4
    if by_attr:
        # the same values written by plain attribute assignment on the estimator that owns them (`est.rho = v`,
        # `est.module_a.rho = v`): attribute access mirrors the parameters, so this is the same re-configuration
        def assign():
            with quiet():
                gp = B.get_params(deep=True)
            for k_, v_ in kw.items():
                owner, attr = (gp[k_.rsplit("__", 1)[0]], k_.rsplit("__", 1)[1]) if "__" in k_ else (B, k_)
                setattr(owner, attr, v_)
        o = outcome(assign)
        rep["by_attribute_assignment"] = True
        if o[0] == "exc":
            c.ctx.cov.hit("c-used:attribute-assignment-raised")
            return
        c.ctx.cov.hit("c-used:by-attribute-assignment")
    else:
        o = outcome(lambda: B.set_params(**kw))
    if o[0] == "exc":
        c.violation(f"{S.cls}.set_params:valid-values-raise", f"set_params with values accepted by the constructor raised {o[1]}", rep)
        return
    ops = gen_ops(S, r, spec2, r.randint(1, 3))
    ops[0] = ("fit", ops[0][1])
    rep["ops"] = ops_replay(ops)
    outsA, outsB = run_ops(S, A, ops), run_ops(S, B, ops)
    d = first_diff(behav(outsA), behav(outsB))
    if d is not None:
        c.violation(f"{S.cls}.{'attribute-assignment' if by_attr else 'set_params'}:used-estimator-differs-from-constructed",
                    f"a trained estimator after {'attribute assignment of' if by_attr else 'set_params'}({_brief(kw)}) and a new fit behaves differently from one constructed "
                    f"with these values (first difference at call {d}: {ops[d][0]}; categories {_nc(outsA, d)} vs {_nc(outsB, d)})", rep)
    c.ctx.cov.hit("c-used:differs" if d is not None else "c-used:equal")
    c.ctx.cov.case(("c-used", S.name, spec1, spec2, ops_brief(pre), ops_brief(ops)), nontrivial(outsA) and strip(spec1) != strip(spec2))


def _brief(kw):
    return ", ".join(f"{k}={v!r}" if not isinstance(v, np.ndarray) else f"{k}=<array{v.shape}>" for k, v in kw.items())


def _nc(outs, d):
    o = outs[d]
    return ncat(o[2]) if len(o) == 3 else "-"


def bad_value(table: dict, cls: str, name: str):
    """a float that violates the range `cls.validate_params` declares for `name` (table re-extracted from the source)"""
    rng = table.get(cls, {}).get("ranges", {}).get(name)
    if rng is None:
        return None
    lo, hi = rng
    if hi is not None:
        return float(hi[0]) + 6.0
    return float(lo[0]) - 1.0


def chk_d_reject(c: Case):
    """(d) unknown names -> ValueError; out-of-range values -> raise, and the value must not stay"""
    S, r = c.S, c.rng("d")
    spec = S.spec(r)
    est = c.build(spec, "d")
    if est is None:
        return
    if S.has_fit and r.random() < 0.5:
        run_ops(S, est, gen_ops(S, r, spec, 1))
    with quiet():
        gp = dict(est.get_params(deep=True))
    mods = [k for k, v in gp.items() if hasattr(v, "get_params")]
    # ---- unknown names, plain and nested
    for name in ["bogus_zz"] + [f"{m}__bogus_zz" for m in mods]:
        before = ptree(est)
        o = outcome(lambda: est.set_params(**{name: 1.0}))
        c.ctx.cov.hit("d:unknown")
        if o != ("exc", "value"):
            c.violation(f"{S.cls}.set_params:unknown-name-accepted",
                        f"set_params({name}=1.0) -> {o[0]} {o[1] if o[0] == 'exc' else ''} (expected ValueError)", {"spec": spec})
        elif not eq_snap(before, ptree(est)):
            c.violation(f"{S.cls}.set_params:unknown-name-changes-params", f"set_params({name}=1.0) raised but changed parameters", {"spec": spec})
    # ---- out-of-range values for every leaf that an elementary class range-checks
    leaves = [k for k, v in gp.items() if not hasattr(v, "get_params")]
    # observation only, NOT a violation of the statement (sklearn's own BaseEstimator.set_params assigns
    # the names that precede an unknown name, and the statement only asks that the unknown name be
    # rejected).  Since /repo 41ad083 BaseART.set_params rolls nothing in before the whole call is
    # accepted; the Lean model proves it (Art.C19.set_rejection_leaves_state) and the tie compares the
    # store after every failed call on the elementary classes, so a regression shows up there as a diff.
    other = c.build(S.spec_like(r, spec), "d")
    if other is not None and S.cls in specs.ELEM:
        with quiet():
            alt = leaf_params(other)
        k0 = next((k for k in leaves if k in alt and not peq(_norm(alt[k]), _norm(gp[k]))), None)
        if k0 is not None:
            o = outcome(lambda: est.set_params(**{k0: alt[k0], "bogus_zz": 1.0}))
            with quiet():
                now = est.get_params(deep=True).get(k0)
            c.ctx.cov.hit("d:observed:name-before-unknown-name-" + ("stays-assigned" if peq(_norm(now), _norm(alt[k0])) else "rolled-back"))
            outcome(lambda: est.set_params(**{k0: gp[k0]}))
    for path in leaves:
        with quiet():
            try:
                obj, last = walk(est, path)
            except AttributeError:
                obj, last = est, path  # flat copies (TopoART, CVIART, FusionART before get_params)
        owner_cls = type(obj).__name__
        bad = bad_value(c.table, owner_cls if owner_cls in specs.ELEM else _flat_base(est), last)
        if "__" in path and not hasattr(gp.get(path.split("__")[0]), "get_params"):
            continue
        if bad is None:
            continue
        _try_bad(c, est, spec, path, bad)
    # observation only: a wrapper's plain name in the same call as a nested value that the nested module
    # rejects — the nested routing runs after the plain names were assigned (model:
    # Art.C19.set_nested_attr_error_after_assign_counterexample shows the same order for AttributeError)
    if S.cls == "DualVigilanceART":
        old_lb = gp["rho_lower_bound"]
        new_lb = old_lb / 2 if old_lb > 0 else gp["base_module__rho"] / 2
        o = outcome(lambda: est.set_params(rho_lower_bound=new_lb, base_module__rho=7.0))
        with quiet():
            now = est.get_params()["rho_lower_bound"]
        if o[0] == "exc":
            c.ctx.cov.hit("d:observed:plain-name-with-rejected-nested-value-" + ("stays-assigned" if now == new_lb else "rolled-back"))
        outcome(lambda: est.set_params(rho_lower_bound=old_lb))
    # ---- the wrappers' own parameters
    own = {"TopoART": ("beta_lower", 7.0), "DualVigilanceART": ("rho_lower_bound", -1.0),
           "FusionART": ("gamma_values", [0.75, 0.75, 0.75][: len(spec.get("modules", [0, 0]))]),
           "BARTMAP": ("eta", 1), "CVIART": ("validity", 99)}
    if S.cls in own:
        _try_bad(c, est, spec, own[S.cls][0], own[S.cls][1])
    c.ctx.cov.case(("d", S.name, spec), True)


def _flat_base(est):
    b = getattr(est, "__dict__", {}).get("base_module")
    return type(b).__name__ if b is not None else type(est).__name__


def _try_bad(c: Case, est, spec, path, bad):
    S = c.S
    with quiet():
        old = est.get_params(deep=True).get(path)
    o = outcome(lambda: est.set_params(**{path: bad}))
    rep = {"spec": spec, "set_params": {path: bad}}
    if o[0] == "ok":
        c.ctx.cov.hit("d:bad-accepted")
        c.violation(f"{S.cls}.set_params:out-of-range-accepted",
                    f"set_params({path}={bad!r}) returned normally (the constructor's validate_params rejects this value)", rep)
        outcome(lambda: est.set_params(**{path: old}))
        return
    c.ctx.cov.hit(f"d:bad-rejected:{o[1]}")
    with quiet():
        now = est.get_params(deep=True).get(path)
    if peq(_norm(now), _norm(bad)) and not peq(_norm(old), _norm(bad)):
        # which set_params assigned it: the innermost estimator on the path
        with quiet():
            try:
                obj, _ = walk(est, path)
            except AttributeError:
                obj = est
        c.ctx.cov.hit("d:rejected-value-stays")
        c.violation(f"{set_params_owner(obj)}.set_params:rejected-value-stays",
                    f"set_params({path}={bad!r}) raised {o[1]} but get_params()[{path!r}] is now {now!r} (was {old!r})", rep)
        # restore so that the following probes start from a valid estimator
        with quiet():
            try:
                obj, last = walk(est, path)
                setattr(obj, last, old)
            except Exception:
                pass


def chk_e_attrs(c: Case):
    """(e) attribute reads mirror get_params; attribute writes act like set_params"""
    S, r = c.S, c.rng("e")
    spec1 = S.spec(r)
    spec2 = S.spec_like(r, spec1)
    A, B, T = c.build(spec1, "e"), c.build(spec1, "e"), c.build(spec2, "e")
    if A is None or B is None or T is None:
        return
    args = set(ctor_args(type(A)))
    with quiet():
        gp = dict(A.get_params(deep=True))
        target = leaf_params(T)
    # reads: every parameter that is a constructor argument is an attribute with the same value
    for k, v in gp.items():
        if "__" in k or k not in args:
            continue
        o = outcome(lambda: getattr(A, k))
        c.ctx.cov.hit("e:read")
        if o[0] == "exc" or not (o[1] is v or peq(_norm(o[1]), _norm(v))):
            c.violation(f"{S.cls}.getattr:does-not-mirror-params",
                        f"getattr(est, {k!r}) -> {o[1]!r}, get_params()[{k!r}] = {v!r}", {"spec": spec1})
    # writes: along paths made of constructor-argument names only
    paths = []
    for path, v in target.items():
        obj, ok = A, True
        parts = path.split("__")
        for i, p in enumerate(parts):
            if p not in ctor_args(type(obj)):
                ok = False
                break
            if i < len(parts) - 1:
                obj = getattr(obj, p)
        if ok:
            paths.append(path)
    if not paths:
        return
    rep = {"spec": spec1, "writes": {p: target[p] for p in paths}}
    oa = outcome(lambda: A.set_params(**{p: target[p] for p in paths}))

    def write_all():
        for p in paths:
            obj, last = walk(B, p)
            setattr(obj, last, target[p])
    ob = outcome(write_all)
    if ob[0] == "exc":
        c.violation(f"{S.cls}.setattr:{ob[1]}", f"attribute write raised {ob[1]}", rep)
        return
    with quiet():
        after = leaf_params(B)
    for p in paths:
        c.ctx.cov.hit("e:write")
        if not peq(_norm(after.get(p)), _norm(target[p])):
            c.violation(f"{S.cls}.setattr:not-mirrored-by-get_params",
                        f"after est.{p.replace('__', '.')} = {target[p]!r}, get_params()[{p!r}] = {after.get(p)!r}", rep)
    if oa[0] == "exc":
        return  # set_params rejected the combination (e.g. beta < beta_lower); nothing to compare behaviour with
    ops = gen_ops(S, r, spec1, 2)
    rep["ops"] = ops_replay(ops)
    outsA, outsB = run_ops(S, A, ops), run_ops(S, B, ops)
    d = first_diff(behav(outsA), behav(outsB))
    if d is not None:
        c.violation(f"{S.cls}.setattr:differs-from-set_params",
                    f"attribute writes {_brief(rep['writes'])} and set_params of the same values give different behaviour "
                    f"(call {d}: {ops[d][0]})", rep)
    c.ctx.cov.case(("e", S.name, spec1, spec2, ops_brief(ops)), nontrivial(outsA))


def chk_f_returns_self(c: Case, outs, ops, spec):
    """(f) applied to every history that is run anyway"""
    for (op, D), o in zip(ops, outs):
        if op != "pred" and o[0] == "ok":
            c.ctx.cov.hit(f"f:{op}")
            if o[1] is not True:
                c.violation(f"{c.S.cls}.{'fit' if op == 'fit' else 'partial_fit'}:returns-not-self",
                            f"{op} did not return the estimator", {"spec": spec, "ops": ops_replay(ops)})


def chk_g_clone(c: Case):
    """(g) sklearn.base.clone: works, unfitted, equal hyper-parameters, independent"""
    from sklearn.base import clone
    S, r = c.S, c.rng("g")
    spec = S.spec(r)
    est = c.build(spec, "g")
    if est is None:
        return
    fitted = S.has_fit and r.random() < 0.5
    ops0 = gen_ops(S, r, spec, 1)
    if fitted:
        run_ops(S, est, ops0)
    rep = {"spec": spec, "fitted_before_clone": fitted}
    c.ctx.cov.case(("g", S.name, spec, fitted), True)
    o = outcome(lambda: clone(est))
    if o[0] == "exc":
        c.ctx.cov.hit("g:raises")
        c.violation(f"{S.cls}.clone:raises", f"sklearn.base.clone(est) raised {o[1]}", rep)
        return
    cl = o[1]
    c.ctx.cov.hit("g:ok")
    if type(cl) is not type(est) or cl is est:
        c.violation(f"{S.cls}.clone:not-a-new-instance", "clone returned the same object or another type", rep)
        return
    fresh = c.build(spec, "g")
    if not eq_snap(ptree(cl), ptree(fresh)):
        c.violation(f"{S.cls}.clone:hyper-parameters-differ",
                    f"clone has {ptree(cl)}, constructed estimator has {ptree(fresh)}", rep)
    if ncat(snapshot(cl)) != 0 or getattr(cl, "is_fitted_", False):
        c.violation(f"{S.cls}.clone:fitted", "clone of an estimator carries learned state", rep)
    # independence: train the clone; the original must not move; the clone must equal a fresh estimator
    before = snapshot(est)
    ops = gen_ops(S, r, spec, 2)
    rep["ops"] = ops_replay(ops)
    outsC = run_ops(S, cl, ops)
    if not eq_snap(before, snapshot(est)):
        c.violation(f"{S.cls}.clone:shares-state", "training the clone changed the original", rep)
    outsF = run_ops(S, fresh, ops)
    d = first_diff(outsC, outsF)
    if d is not None and eq_snap(ptree(cl), ptree(fresh)):
        c.violation(f"{S.cls}.clone:behaves-differently", f"clone and a freshly constructed estimator differ at call {d}", rep)


def mutate(D: Data, r: random.Random):
    """overwrite every array of a call in place with other valid values"""
    for a in D.arrays():
        if a.dtype.kind in "iu":
            a[...] = (a + 1 + r.randint(0, 1)) % 3
        else:
            a[...] = np.roll(1.0 - a, 1, axis=0)


def chk_h_ownership(c: Case):
    """(h) the estimator is handed the caller's own arrays; right after every call they are overwritten
    in place.  The state must not move at that moment, and everything that follows (further training,
    predictions) must equal a twin that was given private copies and saw no mutation."""
    S, r = c.S, c.rng("h")
    spec = S.spec(r)
    est, twin = c.build(spec, "h"), c.build(spec, "h")
    if est is None or twin is None:
        return
    ops = gen_ops(S, r, spec, r.randint(2, 4))
    if S.has_pred and ops[-1][0] != "pred":
        ops.append(("pred", S.data(r, spec, r.randint(2, S.nmax))))
    rep = {"spec": spec, "ops": ops_replay(ops)}
    outs_twin = run_ops(S, twin, ops)
    nt = nontrivial(outs_twin)
    c.ctx.cov.case(("h", S.name, spec, ops_brief(ops)), nt)
    live = []
    for k, (op, D) in enumerate(ops):
        L = D.copy()                         # the caller's arrays for this call
        live.append(L)
        o = apply_op(S, est, op, L)          # NOT a copy: the estimator sees the caller's arrays
        if not eq_snap(o, outs_twin[k]):
            c.violation(f"{S.cls}.{ {'fit': 'fit', 'pfit': 'partial_fit', 'pred': 'predict'}[op] }:depends-on-earlier-training-array",
                        f"call {k} ({op}) differs from a twin whose earlier training arrays were not overwritten", rep)
            return
        before = snapshot(est)
        for M in live:                       # overwrite everything handed over so far
            mutate(M, r)
        c.ctx.cov.hit("h:mutated")
        after = snapshot(est)
        if not eq_snap(before, after):
            diff = sorted(k_ for k_ in set(before) | set(after)
                          if k_ not in before or k_ not in after or not eq_snap(before[k_], after[k_]))
            c.violation(f"{S.cls}.{'partial_fit' if op == 'pfit' else op if op != 'pred' else 'predict'}:state-aliases-caller-array",
                        f"overwriting the arrays passed to call {k} ({op}) changed the fitted model (fields {diff})", rep)
            return
    # hidden references that have no behavioural effect are only counted
    for name in ("data", "X"):
        v = getattr(est, "__dict__", {}).get(name)
        if isinstance(v, np.ndarray) and any(v is a_ or np.shares_memory(v, a_) for D in live for a_ in D.arrays()):
            c.ctx.cov.hit(f"h:keeps-reference-without-effect:{S.cls}.{name}")


def chk_i_copies(c: Case):
    """(i) deepcopy / pickle twins at a random point continue identically and independently"""
    S, r = c.S, c.rng("i")
    spec = S.spec(r)
    est = c.build(spec, "i")
    if est is None:
        return
    ops = gen_ops(S, r, spec, r.randint(2, 4))
    at = r.randint(0, len(ops) - 1)
    how = r.choice(["deepcopy", "pickle", "pickle", "deepcopy", "copy-then-pickle"])
    outs = run_ops(S, est, ops[:at])
    chk_f_returns_self(c, outs, ops[:at], spec)
    rep = {"spec": spec, "ops": ops_replay(ops), "copy_at": at, "how": how}

    def mk():
        if how == "deepcopy":
            return copy.deepcopy(est)
        if how == "pickle":
            return pickle.loads(pickle.dumps(est))
        return pickle.loads(pickle.dumps(copy.deepcopy(est)))
    o = outcome(mk)
    c.ctx.cov.hit(f"i:{how}:{'fitted' if at else 'unfitted'}")
    if o[0] == "exc":
        c.violation(f"{S.cls}.{how.split('-')[0]}:raises", f"{how} after {ops_brief(ops[:at])} raised {o[1]}", rep)
        return
    twin = o[1]
    if not eq_snap(snapshot(est), snapshot(twin)):
        c.violation(f"{S.cls}.{how}:state-differs", f"{how} copy has a different observable state", rep)
        return
    # independence first: train the twin alone on other data, the original must not move
    side = gen_ops(S, r, spec, 1)
    scratch = copy.deepcopy(twin) if how != "deepcopy" else pickle.loads(pickle.dumps(twin))
    before = snapshot(est)
    run_ops(S, scratch, side)
    if not eq_snap(before, snapshot(est)):
        c.violation(f"{S.cls}.{how}:shares-state", "training a copy changed the original", rep)
    rest = ops[at:]
    o1, o2 = run_ops(S, est, rest), run_ops(S, twin, rest)
    chk_f_returns_self(c, o1, rest, spec)
    d = first_diff(o1, o2)
    if d is not None:
        c.violation(f"{S.cls}.{how}:continues-differently",
                    f"{how} twin taken after call {at} differs from the original at call {at + d} ({rest[d][0]})", rep)
    c.ctx.cov.case(("i", S.name, spec, ops_brief(ops), at, how), nontrivial(outs + o1))


def chk_j_interleave(c: Case):
    """(j) two instances trained in a random interleaving == each trained alone"""
    S, r = c.S, c.rng("j")
    spec = S.spec(r)
    same = r.random() < 0.6
    specB = spec if same else S.spec_like(r, spec)
    shared_args = False
    A, B, A0, B0 = c.build(spec, "j"), c.build(specB, "j"), c.build(spec, "j"), c.build(specB, "j")
    if None in (A, B, A0, B0):
        return
    if same and S.cls in specs.ELEM and r.random() < 0.5:
        # the second instance is built from the first one's parameter VALUES (shared array objects)
        with quiet():
            B = type(A)(**dict(A.get_params()))
        shared_args = True
    opsA = gen_ops(S, r, spec, r.randint(1, 3))
    opsB = gen_ops(S, r, specB, r.randint(1, 3))
    order = ["A"] * len(opsA) + ["B"] * len(opsB)
    r.shuffle(order)
    ia = ib = 0
    outsA, outsB = [], []
    for who in order:
        if who == "A":
            op, D = opsA[ia]
            ia += 1
            outsA.append(apply_op(S, A, op, D.copy()))
        else:
            op, D = opsB[ib]
            ib += 1
            outsB.append(apply_op(S, B, op, D.copy()))
    soloA, soloB = run_ops(S, A0, opsA), run_ops(S, B0, opsB)
    rep = {"spec_A": spec, "spec_B": specB, "ops_A": ops_replay(opsA), "ops_B": ops_replay(opsB), "order": order,
           "B_built_from_A_get_params": shared_args}
    c.ctx.cov.hit("j:interleaved" + (":shared-args" if shared_args else ""))
    for tag, inter, solo, ops in (("A", outsA, soloA, opsA), ("B", outsB, soloB, opsB)):
        d = first_diff(inter, solo)
        if d is not None:
            c.violation(f"{S.cls}:instances-influence-each-other",
                        f"instance {tag} trained interleaved ({''.join(order)}) differs from the same instance trained alone "
                        f"at its call {d} ({ops[d][0]})", rep)
    c.ctx.cov.case(("j", S.name, spec, specB, ops_brief(opsA), ops_brief(opsB), order), nontrivial(soloA) or nontrivial(soloB))


# ================================================================ (k) state shared through a shallow copy


def _is_artlib_object(v) -> bool:
    return hasattr(v, "__dict__") and not isinstance(v, type) and type(v).__module__.split(".")[0] == "artlib"


def shallow_twin(est, memo=None):
    """`copy.copy(est)`, applied at every level of a nesting: NEW estimator objects whose attributes are the SAME
    arrays / lists / dicts as the original's.  For a class without sub-estimators this is exactly copy.copy(est)
    (a plain copy.copy of a wrapper shares the sub-estimator objects themselves, so it has no model of its own)."""
    memo = {} if memo is None else memo
    if id(est) in memo:
        return memo[id(est)]
    tw = copy.copy(est)
    memo[id(est)] = tw
    for k, v in list(vars(tw).items()):
        if _is_artlib_object(v):
            tw.__dict__[k] = shallow_twin(v, memo)
        elif isinstance(v, list) and v and all(_is_artlib_object(t) for t in v):
            tw.__dict__[k] = [shallow_twin(t, memo) for t in v]
    return tw


def snap_paths(a, b, p=""):
    """paths at which two snapshots differ"""
    if isinstance(a, dict) and isinstance(b, dict):
        out = []
        for k in sorted(set(a) | set(b), key=str):
            if k not in a or k not in b:
                out.append(f"{p}/{k}")
            elif not eq_snap(a[k], b[k]):
                out += snap_paths(a[k], b[k], f"{p}/{k}")
        return out
    if isinstance(a, (list, tuple)) and isinstance(b, (list, tuple)) and len(a) == len(b) and a and isinstance(a[0], dict):
        return [q for i, (x, y) in enumerate(zip(a, b)) if not eq_snap(x, y) for q in snap_paths(x, y, f"{p}[{i}]")]
    return [p or "/"]


def chk_k_shallow_checkpoint(c: Case):
    """(k) a model owns its state, also against a re-fit of ANOTHER object that shares containers with it: a checkpoint
    taken with copy.copy (every level of a nesting) receives no training call; the original is then fitted again — often
    on the SAME number of rows, as in cross-validation folds.  `fit` discards the earlier model and builds a new one, so
    it must not write into the arrays / lists that held the earlier model: the checkpoint's learned state (labels,
    weights, counters, maps) and its predictions stay what they were.  (The hyper-parameter dict is shared by design
    of a shallow copy and is left out; partial_fit, which extends the shared containers by design, is not used here.)"""
    S, r = c.S, c.rng("k")
    if not S.has_fit:
        return
    spec = S.spec(r)
    est = c.build(spec, "k")
    if est is None:
        return
    pre = gen_ops(S, r, spec, r.randint(1, 2))
    outs = run_ops(S, est, pre)
    if any(o[0] == "exc" for o in outs):
        c.ctx.cov.hit("k:earlier-history-raised")
        return
    # rows the model currently holds labels for: those of the last fit and of the partial_fits after it
    held = 0
    for op, D in pre:
        held = D.n() if op == "fit" else held + D.n() if op == "pfit" else held
    same_n = r.random() < 0.7
    n = held if same_n else r.randint(2, S.nmax)
    D2 = S.data(r, spec, n)
    P = S.data(r, spec, r.randint(2, S.nmax)) if S.has_pred else None
    o = outcome(lambda: shallow_twin(est))
    rep = {"spec": spec, "earlier_ops": ops_replay(pre), "refit": ops_replay([("fit", D2)]), "same_number_of_rows": D2.n() == held,
           "checkpoint": "copy.copy at every level of the nesting"}
    if o[0] == "exc":
        c.violation(f"{S.cls}.copy:raises", f"copy.copy after {ops_brief(pre)} raised {o[1]}", rep)
        return
    ck = o[1]
    before = _no_params(snapshot(ck))
    if not eq_snap(before, _no_params(snapshot(est))):
        c.violation(f"{S.cls}.copy:state-differs", "a shallow copy has a different observable state", rep)
        return
    pb = apply_op(S, ck, "pred", P.copy()) if P is not None else None
    o2 = apply_op(S, est, "fit", D2.copy())
    after = _no_params(snapshot(ck))
    c.ctx.cov.hit("k:shallow-copy-then-refit:" + ("same-rows" if D2.n() == held else "other-rows") + (":refit-raised" if o2[0] == "exc" else ""))
    if not eq_snap(before, after):
        c.ctx.cov.hit("k:checkpoint-moved")
        c.violation(f"{S.cls}.fit:writes-into-state-shared-with-a-shallow-copy",
                    f"a copy.copy checkpoint taken after {ops_brief(pre)} received no call, but fitting the original again on "
                    f"{D2.n()} rows changed the checkpoint's learned state at {snap_paths(before, after)[:4]}", rep)
    elif pb is not None and not eq_snap(pb, apply_op(S, ck, "pred", P.copy())):
        c.violation(f"{S.cls}.fit:changes-predictions-of-a-shallow-copy",
                    "fitting the original again changed the predictions of a copy.copy checkpoint", rep)
    c.ctx.cov.case(("k", S.name, spec, ops_brief(pre), D2.n()), nontrivial(outs))


# ================================================================ (l) the wrapper's own parameters, changed after construction


def own_param_names(est, spec) -> list[str]:
    """constructor arguments of the estimator's own class that get_params exposes and that are plain values (no
    sub-estimator): CVIART.validity, TopoART.beta_lower/tau/phi, DualVigilanceART.rho_lower_bound, BARTMAP.eta,
    FusionART.gamma_values, every argument of an elementary class"""
    raw = strip(spec)
    with quiet():
        gp = est.get_params(deep=True)
    return [k for k in ctor_args(type(est))
            if k in gp and k in raw and not hasattr(gp[k], "get_params") and not isinstance(raw[k], dict)
            and not (isinstance(raw[k], list) and raw[k] and isinstance(raw[k][0], dict))]


def chk_l_own_params(c: Case):
    """(l) a random subset of the estimator's OWN parameters is changed on an existing object (set_params or attribute
    assignment; before the first fit or after an earlier history), everything else stays as constructed: it reports the
    new values and trains / predicts exactly like an estimator CONSTRUCTED with them.  Sub-check (c) changes every
    parameter at once, so on the flat wrappers a difference is attributed to the base module's parameters; here the
    sub-estimators are identical on both sides and only the wrapper's own arguments differ."""
    S, r = c.S, c.rng("l")
    spec1 = S.spec(r)
    B = c.build(spec1, "l")
    if B is None:
        return
    own = own_param_names(B, spec1)
    if not own:
        c.ctx.cov.hit("l:class-exposes-no-own-parameter")
        return
    ks = []
    for _ in range(8):
        spec2 = S.spec_like(r, spec1)
        ks = [k for k in own if k in spec2 and not peq(_norm(spec2[k]), _norm(spec1[k]))]
        if ks:
            break
    if not ks:
        c.ctx.cov.hit("l:no-other-value-drawn")
        return
    ks = r.sample(ks, r.randint(1, len(ks)))
    specA = copy.deepcopy(spec1)
    for k in ks:
        specA[k] = copy.deepcopy(spec2[k])
    oA = outcome(lambda: make(strip(specA)))
    if oA[0] == "exc":
        c.ctx.cov.hit("l:combination-rejected-by-the-constructor")
        return
    A = oA[1]
    with quiet():
        lp = leaf_params(A)
    kw = {k: copy.deepcopy(lp[k]) for k in ks}
    used = S.has_fit and S.cls != "BARTMAP" and r.random() < 0.4
    rep = {"spec_constructed": specA, "spec_before_change": spec1, "changed": kw}
    if used:
        pre = gen_ops(S, r, spec1, 1)
        rep["earlier_ops"] = ops_replay(pre)
        if any(o[0] == "exc" for o in run_ops(S, B, pre)):
            c.ctx.cov.hit("l:earlier-history-raised")
            return
    by_attr = r.random() < 0.5
    how = "attribute-assignment" if by_attr else "set_params"
    rep["how"] = how

    def change():
        if by_attr:
            for k_, v_ in kw.items():
                setattr(B, k_, v_)
        else:
            B.set_params(**kw)
    o = outcome(change)
    if o[0] == "exc":
        c.violation(f"{S.cls}.{how}:own-parameter-valid-value-raises",
                    f"{how}({_brief(kw)}) raised {o[1]}; the constructor accepts these values next to the same sub-estimators", rep)
        return
    with quiet():
        now = leaf_params(B)
    for k in ks:
        if not peq(_norm(now.get(k)), _norm(kw[k])):
            c.violation(f"{S.cls}.{how}:own-parameter-not-reported",
                        f"after {how}({k}={kw[k]!r}) get_params()[{k!r}] = {now.get(k)!r}", rep)
    # a stream on which the change is observable at all: the estimator constructed with the new values and one
    # constructed with the old ones part ways (a few draws; otherwise the last stream is used and counted as such)
    matters = False
    for _ in range(4):
        ops = gen_ops(S, r, specA, r.randint(1, 3))
        if used:
            ops[0] = ("fit", ops[0][1])
        outsA = run_ops(S, make(strip(specA)), ops)
        matters = first_diff(behav(outsA), behav(run_ops(S, make(strip(spec1)), ops))) is not None
        if matters:
            break
    c.ctx.cov.hit("l:new-values-" + ("change-the-behaviour-on-the-stream" if matters else "make-no-difference-on-the-stream"))
    rep["ops"] = ops_replay(ops)
    outsB = run_ops(S, B, ops)
    d = first_diff(behav(outsA), behav(outsB))
    c.ctx.cov.hit(f"l:{how}:{'used' if used else 'fresh'}:{'differs' if d is not None else 'equal'}")
    for k in ks:
        c.ctx.cov.hit(f"l:changed:{S.cls if S.cls not in specs.ELEM else 'elementary'}.{k}")
    if d is not None:
        c.violation(f"{S.cls}.{how}:own-parameter-differs-from-constructed",
                    f"{'a trained' if used else 'an unfitted'} estimator after {how}({_brief(kw)}) behaves differently from one "
                    f"constructed with these values and the same sub-estimators (first difference at call {d}: {ops[d][0]}; "
                    f"categories {_nc(outsA, d)} vs {_nc(outsB, d)})", rep)
    c.ctx.cov.case(("l", S.name, spec1, tuple(ks), specA, how, used, ops_brief(ops)), nontrivial(outsA))


# ================================================================ (m) numpy floating scalars as hyper-parameter values


def npf(v):
    """a Python float as the numpy scalar an np.linspace / np.arange grid hands out (np.float64 IS a float for
    isinstance, so every validate_params accepts it wherever it accepts the Python float)"""
    return np.float64(v) if type(v) is float else v


def np_spec(spec):
    """the same spec with every scalar float hyper-parameter (nested ones too) as np.float64"""
    if isinstance(spec, dict) and "cls" in spec:
        return {k: (np_spec(v) if isinstance(v, (dict, list)) else npf(v)) for k, v in spec.items()}
    if isinstance(spec, list) and spec and isinstance(spec[0], dict):
        return [np_spec(v) for v in spec]
    return spec


def _configure(B, kw, route):
    """hand the values `kw` (get_params names) to an existing estimator"""
    if route == "set_params":
        B.set_params(**kw)
        return
    with quiet():
        gp = B.get_params(deep=True)
    for k_, v_ in kw.items():
        owner, attr = (gp[k_.rsplit("__", 1)[0]], k_.rsplit("__", 1)[1]) if "__" in k_ else (B, k_)
        setattr(owner, attr, v_)


def chk_m_numpy_scalars(c: Case):
    """(m) the statement for hyper-parameter values that are numpy floating scalars (what a parameter grid built with
    np.linspace hands to set_params / module__name / an attribute / the constructor).  Twin P receives the Python
    floats, twin N the same numbers as np.float64, by the same route.  Wherever the protocol works for P it must work
    for N with the same result: the value handed in is the value reported, set_params(**get_params()) is a no-op,
    sklearn.clone / deepcopy / pickle give copies with equal hyper-parameters (the clone unfitted), and all of them
    train and predict exactly like P.  (Where P itself fails — e.g. clone of the classes whose get_params does not
    expose the constructor arguments — the failure belongs to sub-checks a, c, g and is not repeated here.)"""
    from sklearn.base import clone
    S, r = c.S, c.rng("m")
    spec1 = S.spec(r)
    spec2 = S.spec_like(r, spec1)
    route = r.choice(["set_params", "set_params", "attribute-assignment", "constructor"])
    rep = {"spec": spec2, "spec_before": spec1 if route != "constructor" else None, "route": route,
           "values": "every float hyper-parameter as numpy.float64"}
    if route == "constructor":
        oP, oN = outcome(lambda: make(strip(spec2))), outcome(lambda: make(np_spec(strip(spec2))))
        given = None
    else:
        T = c.build(spec2, "m")
        P, N = c.build(spec1, "m"), c.build(spec1, "m")
        if T is None or P is None or N is None:
            return
        with quiet():
            kw = leaf_params(T)
        given = {k: npf(v) for k, v in kw.items()}
        if route == "set_params" and r.random() < 0.5:
            # one name at a time, as a grid search over single parameters does
            names = [k for k, v in given.items() if isinstance(v, np.floating)]
            if names:
                k0 = r.choice(names)
                kw, given = {k0: kw[k0]}, {k0: given[k0]}
        rep["names"] = sorted(given)
        oP, oN = outcome(lambda: (_configure(P, copy.deepcopy(kw), route), P)[1]), outcome(lambda: (_configure(N, given, route), N)[1])
    if oP[0] == "exc":
        c.ctx.cov.hit(f"m:{route}:python-float-twin-raised")
        return
    if oN[0] == "exc":
        c.violation(f"{S.cls}.{route}:numpy-float-rejected",
                    f"{route} raised {oN[1]} for np.float64 values and accepts the same numbers as Python floats", rep)
        return
    P, N = oP[1], oN[1]
    c.ctx.cov.hit(f"m:{route}")
    with quiet():
        lpP, lpN = leaf_params(P), leaf_params(N)
    if route == "constructor":
        given = {k: npf(v) for k, v in lpP.items() if "__" not in k}
    for k, v in given.items():
        if k in lpN and isinstance(v, np.floating) and not peq(lpN[k], v):
            c.violation(f"{S.cls}.get_params:numpy-float-not-reported-as-given",
                        f"{route} handed {k}={v!r} ({type(v).__name__}); get_params()[{k!r}] = {lpN[k]!r} ({type(lpN[k]).__name__})", rep)
            break
    if not eq_snap(ptree(P), ptree(N)):
        c.violation(f"{S.cls}.{route}:numpy-float-changes-hyper-parameters",
                    f"hyper-parameters by value differ: {snap_paths(ptree(P), ptree(N))[:4]}", rep)
        return
    # ---- round trips, each against the Python-float twin
    twins = [("np.float64 twin", N)]
    base = ptree(N)
    o1, o2 = outcome(lambda: P.set_params(**dict(P.get_params()))), outcome(lambda: N.set_params(**dict(N.get_params())))
    if o1[0] == "ok" and (o2[0] == "exc" or not eq_snap(base, ptree(N))):
        c.violation(f"{S.cls}.set_params:roundtrip-with-numpy-float",
                    f"set_params(**get_params()) {'raised ' + str(o2[1]) if o2[0] == 'exc' else 'changed the hyper-parameters'}", rep)
        return
    for name, fn in (("clone", clone), ("deepcopy", copy.deepcopy), ("pickle", lambda e: pickle.loads(pickle.dumps(e)))):
        o1, o2 = outcome(lambda: fn(P)), outcome(lambda: fn(N))
        if o1[0] == "exc":
            c.ctx.cov.hit(f"m:{name}:python-float-twin-raised")
            continue
        c.ctx.cov.hit(f"m:{name}")
        if o2[0] == "exc":
            c.violation(f"{S.cls}.{name}:raises-with-numpy-float-parameter",
                        f"{name} raised {o2[1]} after {route} of np.float64 values "
                        f"({_brief({k: v for k, v in given.items() if isinstance(v, np.floating)})}); with the same numbers as "
                        "Python floats it returns a copy", rep)
            continue
        cp = o2[1]
        if cp is N or type(cp) is not type(N) or not eq_snap(ptree(cp), base):
            c.violation(f"{S.cls}.{name}:hyper-parameters-differ-with-numpy-float",
                        f"{name} of the np.float64 twin: {snap_paths(ptree(cp), base)[:4]}", rep)
            continue
        if name == "clone" and (ncat(snapshot(cp)) != 0 or getattr(cp, "is_fitted_", False)):
            c.violation(f"{S.cls}.clone:fitted", "clone of an estimator carries learned state", rep)
        twins.append((name + " of the np.float64 twin", cp))
    if not (S.has_fit or S.has_pfit):
        return
    ops = gen_ops(S, r, spec2, 2)
    rep["ops"] = ops_replay(ops)
    want = behav(run_ops(S, P, ops))
    for name, tw in twins:
        d = first_diff(want, behav(run_ops(S, tw, ops)))
        if d is not None:
            c.violation(f"{S.cls}.{route}:numpy-float-behaves-differently",
                        f"the {name} differs from the Python-float twin at call {d} ({ops[d][0]})", rep)
            break
    c.ctx.cov.case(("m", S.name, spec1, spec2, route, tuple(sorted(given)), ops_brief(ops)), nontrivial(want))


# ================================================================ (n) zero-row / one-row batches on a trained estimator


ENTRY = {"fit": "fit", "pfit": "partial_fit", "pred": "predict"}


def tiny_batch(S: Subject, r: random.Random, spec: dict, n: int) -> Data:
    """a batch of n in {0, 1} rows of the right width(s): what a stream hands over when a window happens to be empty
    (shape (0, d), labels of shape (0,)) or holds a single sample"""
    return S.data(r, spec, 2).cut(0, n)


def chk_n_tiny_batches(c: Case):
    """(n) the statement on a stream whose mini-batches have ZERO rows (shape (0, d)) or ONE row, consumed by an
    estimator that has ALREADY been trained, in the idiom `model = model.partial_fit(batch)` (also fit / predict):
      (f) every training call that returns normally returns the estimator it was called on, so the stream can go on;
      (h) the batches are the caller's own arrays and are overwritten in place right after each call;
      (i) a deepcopy / pickle twin taken before the tiny batches, and one taken after them, continue identically;
      (b) set_params(**get_params()) after the tiny batches is a no-op;
    `ref` is an estimator constructed from the same spec that receives private copies of every batch and no copy /
    mutation / set_params: all of the above must behave exactly like it, call by call and on a closing ordinary batch.
    A tiny call that RAISES (sklearn's input validation rejects zero samples for the supervised classes) is only
    required to raise alike on every twin."""
    S, r = c.S, c.rng("n")
    if not (S.has_pfit or S.has_pred):
        c.ctx.cov.hit("n:class-has-no-partial_fit-and-no-predict")      # BARTMAP: no stream to speak of
        return
    spec = S.spec(r)
    est, ref = c.build(spec, "n"), c.build(spec, "n")
    if est is None or ref is None:
        return
    pre = gen_ops(S, r, spec, r.randint(1, 2))
    pre_out = run_ops(S, est, pre)
    if any(o[0] == "exc" for o in pre_out) or not eq_snap(pre_out, run_ops(S, ref, pre)):
        c.ctx.cov.hit("n:earlier-history-raised")
        return
    # ---- the stream: mostly partial_fit, some predict / fit, rows in {0, 1}; then one ordinary batch
    kinds = (["pfit"] * 4 if S.has_pfit else []) + (["pred"] if S.has_pred else []) + (["fit"] if S.has_fit else [])
    tiny = []
    for _ in range(r.randint(3, 5)):
        tiny.append((r.choice(kinds), tiny_batch(S, r, spec, r.choice([0, 0, 1]))))
    if S.has_pfit and not any(op == "pfit" and D.n() == 0 for op, D in tiny):
        tiny[r.randrange(len(tiny))] = ("pfit", tiny_batch(S, r, spec, 0))
    closing = [(("pfit" if S.has_pfit else "fit"), S.data(r, spec, r.randint(2, S.nmax)))]
    if S.has_pred:
        closing.append(("pred", S.data(r, spec, r.randint(2, S.nmax))))
    how = r.choice(["deepcopy", "pickle"])
    mk = (lambda e: copy.deepcopy(e)) if how == "deepcopy" else (lambda e: pickle.loads(pickle.dumps(e)))
    rep = {"spec": spec, "earlier_ops": ops_replay(pre), "tiny_ops": ops_replay(tiny), "closing_ops": ops_replay(closing),
           "tiny_shapes": [[op] + [list(a.shape) for a in D.arrays()] for op, D in tiny],   # an empty list loses (0, d)
           "copy": how, "idiom": "model = model.partial_fit(batch); every batch has 0 or 1 rows and the estimator is already trained"}
    o = outcome(lambda: mk(est))
    if o[0] == "exc":
        c.violation(f"{S.cls}.{how}:raises", f"{how} after {ops_brief(pre)} raised {o[1]}", rep)
        return
    twin = o[1]
    outs_ref = run_ops(S, ref, tiny)
    outs_twin = run_ops(S, twin, tiny)
    # ---- the streaming run: `model` is whatever the previous call handed back
    model, live, outs_est, broke = est, [], [], False
    for k, (op, D) in enumerate(tiny):
        L = D.copy()
        live.append(L)
        if model is not est:
            break
        o = outcome(lambda: (S.fit if op == "fit" else S.pfit if op == "pfit" else S.pred)(model, L))
        tag = f"n:{op}:{D.n()}-row" + ("s" if D.n() != 1 else "")
        if o[0] == "exc":
            c.ctx.cov.hit(f"{tag}:raised:{o[1]}")
            outs_est.append(("exc", o[1]) if op == "pred" else ("exc", o[1], snapshot(est)))   # as apply_op
        elif op == "pred":
            c.ctx.cov.hit(f"{tag}:ok")
            p = o[1]
            outs_est.append(("ok", [np.array(t).copy() for t in p] if isinstance(p, (list, tuple)) else np.array(p).copy()))
        else:
            c.ctx.cov.hit(f"{tag}:ok")
            outs_est.append(("ok", o[1] is est, snapshot(est)))
            if o[1] is not est:
                c.ctx.cov.hit("n:stream-broken")
                c.violation(f"{S.cls}.{ENTRY[op]}:returns-not-self",
                            f"{ENTRY[op]} on a batch of {D.n()} row(s) (call {k} of the stream, estimator already trained by "
                            f"{ops_brief(pre)}) returned {type(o[1]).__name__} instead of the estimator: "
                            "`model = model.partial_fit(batch)` loses the model", rep)
                broke = True
                model = o[1]
        before = snapshot(est)
        for M in live:
            mutate(M, r)
        if not eq_snap(before, snapshot(est)):
            c.violation(f"{S.cls}.{ENTRY[op]}:state-aliases-caller-array",
                        f"overwriting the {D.n()}-row arrays passed to call {k} ({op}) changed the trained model "
                        f"(fields {snap_paths(before, snapshot(est))[:4]})", rep)
            return
    if broke:
        return
    d = first_diff(outs_twin, outs_ref)
    if d is not None:
        c.violation(f"{S.cls}.{how}:continues-differently",
                    f"{how} twin of a trained estimator differs from the original at call {d} of a stream of 0/1-row batches "
                    f"({tiny[d][0]}, {tiny[d][1].n()} row(s))", rep)
        return
    d = first_diff(outs_est, outs_ref)
    if d is not None:
        c.violation(f"{S.cls}.{ENTRY[tiny[d][0]]}:depends-on-earlier-training-array",
                    f"call {d} of a stream of 0/1-row batches ({tiny[d][0]}, {tiny[d][1].n()} row(s)) differs from a twin whose "
                    "earlier batches were not overwritten by the caller", rep)
        return
    # ---- afterwards: parameters round-trip, a copy taken now, and all of them on an ordinary batch
    if S.sklearn:
        before = ptree(est)
        o = outcome(lambda: est.set_params(**dict(est.get_params())))
        c.ctx.cov.hit("n:roundtrip-after-the-stream")
        if o[0] == "exc" or o[1] is not est or not eq_snap(before, ptree(est)):
            c.violation(f"{S.cls}.set_params:roundtrip-after-tiny-batches",
                        "set_params(**get_params()) after a stream of 0/1-row batches "
                        + (f"raised {o[1]}" if o[0] == "exc" else "did not return the estimator" if o[1] is not est
                           else "changed the hyper-parameters"), rep)
            return
    o = outcome(lambda: mk(est))
    if o[0] == "exc":
        c.violation(f"{S.cls}.{how}:raises", f"{how} after a stream of 0/1-row batches raised {o[1]}", rep)
        return
    late = o[1]
    want = run_ops(S, ref, closing)
    chk_f_returns_self(c, want, closing, spec)
    for name, e in (("the streaming estimator", est), (f"the {how} twin taken before the tiny batches", twin),
                    (f"the {how} twin taken after the tiny batches", late)):
        d = first_diff(run_ops(S, e, closing), want)
        if d is not None:
            c.violation(f"{S.cls}.{ENTRY[closing[d][0]]}:differs-after-tiny-batches",
                        f"after a stream of 0/1-row batches {name} differs from the reference on an ordinary batch "
                        f"(call {d}: {closing[d][0]}, {closing[d][1].n()} rows)", rep)
            break
    c.ctx.cov.hit(f"n:stream-completed:{how}")
    c.ctx.cov.case(("n", S.name, spec, ops_brief(pre), ops_brief(tiny), ops_brief(closing), how), nontrivial(pre_out + want))


# ================================================================ class table re-extracted from the source


def _lit(node):
    if isinstance(node, ast.Constant) and isinstance(node.value, (int, float)) and not isinstance(node.value, bool):
        v = node.value
        return int(v) if float(v) == int(v) else v
    return None


def _pkey(node):
    """params["k"] -> k"""
    if (isinstance(node, ast.Subscript) and isinstance(node.value, ast.Name) and node.value.id == "params"
            and isinstance(node.slice, ast.Constant) and isinstance(node.slice.value, str)):
        return node.slice.value
    return None


def canon_assert(node: ast.Assert):
    """canonical text of one assert line of a validate_params (same syntax as the Lean table),
    plus (key, lo, hi) for range checks"""
    t = node.test
    if isinstance(t, ast.Compare) and len(t.ops) == 1 and isinstance(t.ops[0], ast.In) \
            and isinstance(t.left, ast.Constant) and isinstance(t.comparators[0], ast.Name):
        return f"has:{t.left.value}", None
    if isinstance(t, ast.Call) and isinstance(t.func, ast.Name) and t.func.id == "isinstance" and len(t.args) == 2:
        k = _pkey(t.args[0])
        ty = ast.unparse(t.args[1])
        if k is not None and ty == "float":
            return f"float:{k}", None
        if k is not None and ty == "np.ndarray":
            return f"nd:{k}", None
    if isinstance(t, ast.Compare):
        terms = [t.left] + list(t.comparators)
        ops = t.ops
        keys = [i for i, x in enumerate(terms) if _pkey(x) is not None]
        if len(keys) == 1 and all(isinstance(o, (ast.GtE, ast.Gt)) for o in ops):
            i = keys[0]
            k = _pkey(terms[i])
            lo = hi = None
            ok = True
            if i == 1 and len(terms) in (2, 3):        # hi >=|> k [>=|> lo]
                h = _lit(terms[0])
                ok = ok and h is not None
                hi = (h, isinstance(ops[0], ast.Gt))
                if len(terms) == 3:
                    l_ = _lit(terms[2])
                    ok = ok and l_ is not None
                    lo = (l_, isinstance(ops[1], ast.Gt))
            elif i == 0 and len(terms) == 2:           # k >=|> lo
                l_ = _lit(terms[1])
                ok = ok and l_ is not None
                lo = (l_, isinstance(ops[0], ast.Gt))
            else:
                ok = False
            if ok:
                slo = "" if lo is None else f"{lo[0]}{'<' if lo[1] else '<='}"
                shi = "" if hi is None else f"{'<' if hi[1] else '<='}{hi[0]}"
                return f"rng:{k}:{slo}:{shi}", (k, lo, hi)
    return "other:" + ast.unparse(t), None


def val_wire(v) -> str:
    """a Python value in the driver's value syntax (exact)"""
    if v is None:
        return "n"
    if isinstance(v, bool):
        return "i" + str(int(v))
    if isinstance(v, (int, np.integer)):
        return "i" + str(int(v))
    if isinstance(v, (float, np.floating)):
        return "f" + q2s(float(v))
    if isinstance(v, np.ndarray):
        return "a" + ":".join(q2s(float(t)) for t in v.reshape(-1))
    if isinstance(v, (list, tuple)):
        return "l" + ":".join(q2s(float(t)) for t in v)
    raise TypeError(f"no wire form for {v!r}")


def store_wire(d: dict) -> str:
    return ",".join(f"{k}={val_wire(v)}" for k, v in d.items()) if d else "-"


UNMODELLED_ARRAY_CHECKS = {"other:np.all(params['sigma_init'] > 0.0)"}


def extract_table() -> dict:
    """per elementary class: constructor arguments, defaults, validate_params line by line — from the
    source as it is now (inspect + ast), and the keys of a default instance's get_params()"""
    import artlib
    out = {}
    for cls in specs.ELEM:
        C = getattr(artlib, cls)
        sig = inspect.signature(C.__init__)
        args = [p for p in sig.parameters if p != "self"]
        defaults = {p: sig.parameters[p].default for p in args if sig.parameters[p].default is not inspect.Parameter.empty}
        src = textwrap.dedent(inspect.getsource(C.validate_params))
        fn = ast.parse(src).body[0]
        checks, ranges = [], {}
        for node in ast.walk(fn):
            if isinstance(node, ast.Assert):
                txt, rng = canon_assert(node)
                checks.append((node.lineno, txt))
                if rng:
                    ranges[rng[0]] = (rng[1], rng[2])
        # asserts about array *entries* cannot be expressed by the Lean parameter model (an array is
        # an opaque value there); they are listed in the evidence as unmodelled, and the generator only
        # produces arrays that satisfy them
        checks = [t for _, t in sorted(checks) if t not in UNMODELLED_ARRAY_CHECKS]
        text = f"{cls}({','.join(args)}){{{','.join(f'{k}={val_wire(v)}' for k, v in defaults.items())}}}[{';'.join(checks)}]"
        out[cls] = {"args": args, "defaults": defaults, "checks": checks, "ranges": ranges, "text": text}
    return out


def tie_table(ctx, table: dict):
    outs = run_driver(["params table"])
    lean = {e.split("(")[0]: e for e in outs[0].split(" | ")}
    ctx.cov.traces += 1
    for cls in specs.ELEM:
        ctx.cov.hit("tie:table-entry")
        if cls not in lean:
            ctx.issue("diff", f"params-table:{cls}:missing", f"the Lean class table has no entry for {cls}", {"lean": outs[0]})
            continue
        if lean[cls] != table[cls]["text"]:
            ctx.issue("diff", f"params-table:{cls}",
                      f"class table differs — source: {table[cls]['text']}  Lean: {lean[cls]}",
                      {"source": table[cls]["text"], "lean": lean[cls]})
    if set(lean) - set(specs.ELEM):
        ctx.issue("diff", "params-table:extra", f"Lean table has classes unknown to the harness: {sorted(set(lean) - set(specs.ELEM))}")
    # default instance: get_params() keys = constructor arguments, in order
    for cls in specs.ELEM:
        r = gen.rng_for(ctx.seed, "C19/table/" + cls, 0)
        est = make(specs.elem_spec(r, cls, 2))
        with quiet():
            ks = list(est.get_params().keys())
        if ks != table[cls]["args"]:
            ctx.issue("diff", f"params-table:{cls}:get_params-keys", f"get_params() keys {ks} != signature {table[cls]['args']}")


# ================================================================ tie: protocol sequences on the elementary classes


def rand_value(r: random.Random, cls: str, key: str, table: dict, valid_only=False):
    """a value for parameter `key`: mostly valid floats, sometimes out of range / wrong type"""
    arr_keys = {"sigma_init": 1, "cov_init": 2}
    if key in arr_keys:
        d = 2
        if valid_only or r.random() < 0.7:
            if key == "sigma_init":
                return np.array([r.choice([0.25, 0.5, 1.0]) for _ in range(d)])
            return np.eye(d) * r.choice([0.0625, 0.25, 1.0])
        return r.choice([0.5, 1, None, [0.5, 0.5]])
    rng = table[cls]["ranges"].get(key)
    lo = float(rng[0][0]) if rng and rng[0] else 0.0
    hi = float(rng[1][0]) if rng and rng[1] else lo + 4.0
    good = r.choice([lo + (hi - lo) * t for t in (0.25, 0.5, 0.75, 1.0)])
    if valid_only:
        return good
    t = r.random()
    if t < 0.55:
        return good
    if t < 0.70:
        return r.choice([lo, hi, lo - 1.0, hi + 1.0, -0.5, 0.0])       # boundaries and outside
    if t < 0.80:
        return r.choice([0, 1, 2])                                       # int, not float
    if t < 0.86:
        return [good]                                                    # list -> TypeError
    if t < 0.92:
        return np.array([good])                                          # 1-element array
    if t < 0.96:
        return np.array([good, good])                                    # ValueError (ambiguous truth value)
    return None


def impl_store(est) -> str:
    return store_wire(dict(est.params))


def tie_protocol(ctx, table: dict, N: int):
    import artlib
    lines, expects, metas = [], [], []
    for i in range(N):
        r = gen.rng_for(ctx.seed, "C19/tie", i)
        cls = specs.ELEM[i % len(specs.ELEM)]
        C = getattr(artlib, cls)
        args = table[cls]["args"]
        # ---- constructor keywords
        kw = {a: rand_value(r, cls, a, table, valid_only=(r.random() < 0.8)) for a in args}
        t = r.random()
        if t < 0.06:
            kw.pop(r.choice(args))                       # missing argument (maybe one with a default)
        elif t < 0.10:
            kw["bogus"] = 0.5                            # unexpected keyword
        items = list(kw.items())
        r.shuffle(items)                                 # keyword order must not matter
        kw = dict(items)
        exp = []
        est = None
        try:
            with quiet():
                est = C(**{k: (v.copy() if isinstance(v, np.ndarray) else v) for k, v in kw.items()})
            exp.append("ok:" + impl_store(est))
        except Exception as e:  # noqa
            exp.append("error:" + exc_enum(e))
        cmds = []
        for _ in range(r.randint(2, 7)):
            kind = r.choice(["set", "set", "set", "get", "attr", "attr", "setattr"])
            if kind == "get":
                cmds.append("get")
                if est is not None:
                    with quiet():
                        exp.append(store_wire(dict(est.get_params())))
            elif kind == "attr":
                k = r.choice(args + ["bogus", "sample_counter_", "weight_sample_counter_", "d_min_", "foo"])
                cmds.append(f"attr {k}")
                if est is not None:
                    try:
                        exp.append(val_wire(getattr(est, k)))
                    except AttributeError:
                        exp.append("error:attr")
            elif kind == "setattr":
                k = r.choice(args + ["foo", "sample_counter_"])
                v = rand_value(r, cls, k, table) if k in args else r.choice([3, 0.5, None])
                cmds.append(f"setattr {k}={val_wire(v)}")
                if est is not None:
                    setattr(est, k, v)
                    exp.append("ok:" + impl_store(est))
            else:
                ks = r.sample(args, r.randint(1, min(3, len(args))))
                kv = {k: rand_value(r, cls, k, table) for k in ks}
                t = r.random()
                if t < 0.12:
                    pos = r.randint(0, len(kv))
                    items = list(kv.items())
                    items.insert(pos, ("bogus", 1.0))
                    kv = dict(items)
                elif t < 0.18:
                    kv[r.choice(args) + "__x"] = 1.0
                elif t < 0.22:
                    kv = dict(est.get_params()) if est is not None else kv
                cmds.append("set " + store_wire(kv))
                if est is not None:
                    try:
                        with quiet():
                            ret = est.set_params(**kv)
                        exp.append("ok:" + impl_store(est))
                    except Exception as e:  # noqa
                        exp.append("error:" + exc_enum(e) + ":" + impl_store(est))
            if est is None:
                exp.append("-")
        line = f"params run {cls} {store_wire(kw)}" + "".join(" ; " + c_ for c_ in cmds)
        lines.append(line)
        expects.append(" ; ".join(exp))
        metas.append((i, cls))
        ctx.cov.case(("tie", line), est is not None and len(cmds) >= 2)
        if i < 2:
            ctx.cov.sample({"line": line, "implementation": expects[-1]})
    outs = run_driver(lines)
    for line, exp, out, (i, cls) in zip(lines, expects, outs, metas):
        ctx.cov.traces += 1
        for tok in out.split(" ; "):
            ctx.cov.hit("tie:" + (tok.split(":")[0] + ":" + tok.split(":")[1] if tok.startswith("error:") else
                                  "ok" if tok.startswith("ok:") else "value"))
        if out != exp:
            eo, oo = exp.split(" ; "), out.split(" ; ")
            k = next((j for j, (a, b) in enumerate(zip(eo, oo)) if a != b), min(len(eo), len(oo)))
            ctx.issue("diff", f"params-run:{cls}",
                      f"case {i}: command {k} — implementation {eo[k] if k < len(eo) else '?'!r}, model {oo[k] if k < len(oo) else '?'!r}",
                      {"line": line, "implementation": exp, "model": out})


def tie_own(ctx, N: int):
    """`params own`: FuzzyART with vigilance 1 commits one category per distinct row; then X[i,:] = row"""
    from artlib import FuzzyART
    lines, metas = [], []
    for i in range(N):
        r = gen.rng_for(ctx.seed, "C19/own", i)
        d = r.randint(1, 3)
        rows = []
        while len(rows) < r.randint(2, 5):
            row = [r.randint(0, 8) / 8 for _ in range(d)]
            if row not in rows:
                rows.append(row)
        X = gen.cc(np.array(rows))
        m = FuzzyART(1.0, 0.0, 1.0)
        with quiet():
            m.fit(X)
        W0 = [np.array(w).copy() for w in m.W]
        k = r.randrange(len(rows))
        new = gen.cc(np.array([[r.randint(0, 8) / 8 for _ in range(d)]]))[0]
        line = f"params own 1 {mat_q(X)} {k} {vec_q(new)}"
        X[k, :] = new
        W1 = [np.array(w).copy() for w in m.W]
        lines.append(line)
        metas.append((W0, W1))
    outs = run_driver(lines)
    for line, out, (W0, W1) in zip(lines, outs, metas):
        ctx.cov.traces += 1
        exp = f"before={mat_q(W0)} after={mat_q(W1)}"
        if out != exp:
            ctx.issue("diff", "params-own", f"weights after overwriting a training row — implementation {exp}, model {out}",
                      {"line": line})


# ================================================================ shared mutable defaults / class-level state


def _mutables():
    """every mutable default argument and every mutable class attribute of the public classes, by value"""
    import artlib
    out = {}
    names = list(specs.ELEM) + ["SimpleARTMAP", "ARTMAP", "FusionART", "DeepARTMAP", "SMART", "TopoART",
                                "DualVigilanceART", "BARTMAP", "CVIART", "iCVIFuzzyART", "FALCON", "TD_FALCON",
                                "BaseART", "BaseARTMAP"]
    for n in names:
        C = getattr(artlib, n)
        for k in C.__mro__:
            if not k.__module__.startswith("artlib"):
                continue
            for attr, v in vars(k).items():
                f = v.__func__ if isinstance(v, (staticmethod, classmethod)) else v
                if inspect.isfunction(f):
                    for i, dflt in enumerate((f.__defaults__ or ()) + tuple((f.__kwdefaults__ or {}).values())):
                        if isinstance(dflt, (list, dict, set, np.ndarray)):
                            out[f"{k.__name__}.{attr}:default-argument-{i}"] = (dflt, copy.deepcopy(dflt))
                elif isinstance(v, (list, dict, set, np.ndarray)) and not attr.startswith("__"):
                    out[f"{k.__name__}.{attr}:class-attribute"] = (v, copy.deepcopy(v))
    return out


def exercise_defaults(ctx):
    """call every FusionART / FALCON entry point that has a mutable default argument WITH that default, on two models
    of different channel layouts one after the other (and pass caller-owned lists): a default or a caller's list
    that is written to would carry one model's layout into the other"""
    from artlib import FusionART, FuzzyART, FALCON, TD_FALCON
    r = gen.rng_for(ctx.seed, "C19/defaults", 0)
    mk = lambda rho=0.5: FuzzyART(rho, 2.0 ** -10, 1.0)   # noqa
    models = []
    for k in (2, 3, 2):
        f = FusionART([mk() for _ in range(k)], [1.0 / k] * k, [2] * k)
        raw = [np.array([[r.randint(0, 8) / 8] for _ in range(9)]) for _ in range(k)]
        with quiet():
            X = f.prepare_data(raw)
            f.fit(X)
        models.append((f, X, raw))
    for f, X, raw in models:
        mine = [-1]
        with quiet():
            want = f.predict_regression(X, target_channels=[f.n - 1])
            got_default = f.predict_regression(X)
            got_mine = f.predict_regression(X, target_channels=mine)
            f.predict(X)
            f.step_pred(X[0])
            parts = f.split_channel_data(X)
            f.join_channel_data(parts)
            f.restore_data(X)
        rep = {"channels": f.n}
        if mine != [-1]:
            ctx.issue("violation", "FusionART.predict_regression:caller-list-mutated",
                      f"the caller's target_channels list [-1] became {mine}", rep)
        if not (np.array_equal(np.asarray(want), np.asarray(got_default)) and np.array_equal(np.asarray(want), np.asarray(got_mine))):
            ctx.issue("violation", "FusionART.predict_regression:default-target-depends-on-other-instances",
                      f"on a {f.n}-channel model predict_regression(X) differs from predict_regression(X, target_channels=[{f.n - 1}]) "
                      "after another model of a different layout was used", rep)
        ctx.cov.hit("defaults-exercised")
    for cls in (FALCON, TD_FALCON):
        with quiet():
            a = cls(mk(), mk(), mk(), channel_dims=[2, 2, 2])
            b = cls(mk(), mk(), mk(), channel_dims=[2, 2, 2])
        if a.fusion_art.gamma_values is b.fusion_art.gamma_values and isinstance(a.fusion_art.gamma_values, list):
            ctx.cov.hit("falcon:default-gamma-list-shared(by-identity)")


def chk_shared_defaults(ctx, before: dict):
    for key, (live, saved) in before.items():
        ctx.cov.hit("j:shared-default-checked")
        if not eq_snap(_as_cmp(live), _as_cmp(saved)):
            ctx.issue("violation", f"{key}-mutated", f"{key}: a value shared by all instances changed during the run: "
                      f"{saved!r} -> {live!r}", {"key": key})


def _as_cmp(v):
    return sorted(v, key=repr) if isinstance(v, set) else v


# ================================================================ entry point


SUBCHECKS = [("a", chk_a_get_params), ("b", chk_b_roundtrip), ("c", chk_c_twins), ("c-used", chk_c_used_twins), ("d", chk_d_reject),
             ("e", chk_e_attrs), ("g", chk_g_clone), ("h", chk_h_ownership), ("i", chk_i_copies), ("j", chk_j_interleave)]
# situations added for seeded changes C05k / C15k / C19k / C19l / C19n (shallow-copy checkpoints, a wrapper's own parameters changed
# after construction, numpy floating scalars as values, zero-row / one-row batches on a trained estimator, in-place writes into
# accessor results — (q), appended below its definition); they run on the first EXTRA_ROUNDS indices of every subject
EXTRA_ROUNDS_QUICK = 6
EXTRA_SUBCHECKS = [("k", chk_k_shallow_checkpoint), ("l", chk_l_own_params), ("m", chk_m_numpy_scalars), ("n", chk_n_tiny_batches)]
NEEDS_SKLEARN = {"a", "b", "c", "c-used", "d", "e", "g", "l", "m"}


def chk_replace_and_nested(ctx):
    """set_params(sub=<new estimator>, sub__name=value) in ONE call (what a GridSearchCV grid over both does):
    the nested value must land on the NEW sub-estimator, the replaced one stays as it was, and the result
    behaves like an estimator constructed with these values — for the wrappers whose nested route works."""
    from artlib import SimpleARTMAP, ARTMAP, DualVigilanceART, FuzzyART
    import copy
    for i in range(ctx.scale(24, 200)):
        r = gen.rng_for(ctx.seed, "C19/replace+nested", i)
        kind = ["SimpleARTMAP", "ARTMAP.module_a", "ARTMAP.module_b", "DualVigilanceART", "BARTMAP.module_a", "BARTMAP.module_b"][i % 6]
        rho_old, rho_new0, rho_new = r.choice([0.125, 0.25]), r.choice([0.375, 0.5]), r.choice([0.75, 0.875])
        mk = lambda rho: FuzzyART(rho, 2.0 ** -10, 1.0)   # noqa
        old, new = mk(rho_old), mk(rho_new0)
        if kind == "SimpleARTMAP":
            B, A, key = SimpleARTMAP(old), SimpleARTMAP(mk(rho_new)), "module_a"
        elif kind == "ARTMAP.module_a":
            B, A, key = ARTMAP(old, mk(0.5)), ARTMAP(mk(rho_new), mk(0.5)), "module_a"
        elif kind == "ARTMAP.module_b":
            B, A, key = ARTMAP(mk(0.5), old), ARTMAP(mk(0.5), mk(rho_new)), "module_b"
        elif kind == "BARTMAP.module_a":
            from artlib.biclustering.BARTMAP import BARTMAP
            B, A, key = BARTMAP(old, mk(0.5), 0.0), BARTMAP(mk(rho_new), mk(0.5), 0.0), "module_a"
        elif kind == "BARTMAP.module_b":
            from artlib.biclustering.BARTMAP import BARTMAP
            B, A, key = BARTMAP(mk(0.5), old, 0.0), BARTMAP(mk(0.5), mk(rho_new), 0.0), "module_b"
        else:
            B, A, key = DualVigilanceART(old, 0.0625), DualVigilanceART(mk(rho_new), 0.0625), "base_module"
        kw = {key: new, key + "__rho": rho_new}
        if r.random() < 0.5:
            kw = dict(reversed(list(kw.items())))
        read_first = r.random() < 0.6
        if read_first:
            # a read-only look at the parameters before re-configuring (what any grid search / repr / clone does first)
            with quiet():
                B.get_params(deep=True)
                B.get_params(deep=False)
            ctx.cov.hit("replace+nested:get_params-read-before-set_params")
        rep = {"kind": kind, "set_params": {k: (v if isinstance(v, float) else "FuzzyART(rho=%s)" % rho_new0) for k, v in kw.items()},
               "rho_old": rho_old, "get_params_called_first": read_first}
        sig = f"{kind.split('.')[0]}.set_params:replace-sub-estimator-and-nested-value"
        try:
            with quiet():
                B.set_params(**kw)
        except Exception as e:
            ctx.issue("violation", sig, f"raised {e!r}", rep)
            continue
        sub = getattr(B, key)
        if sub is not new or sub.params["rho"] != rho_new or old.params["rho"] != rho_old:
            ctx.issue("violation", sig, f"after the call: sub-estimator is the new one: {sub is new}; its rho = {sub.params['rho']} "
                      f"(expected {rho_new}); the replaced estimator's rho = {old.params['rho']} (was {rho_old})", rep)
            continue
        X = gen.cc(gen.grid_rows(r, 12, 2))
        y = gen.labels(r, 12, 3)
        try:
            with quiet():
                if kind.startswith("BARTMAP"):
                    M = np.array([[((a_ % 3) * 0.3 + (b_ % 2) * 0.35 + 0.05 * ((a_ * 7 + b_ * 3) % 5) / 5) for b_ in range(8)] for a_ in range(8)])
                    A.fit(M); B.fit(M)
                    same = (np.asarray(A.row_labels_).tolist() == np.asarray(B.row_labels_).tolist()
                            and np.asarray(A.column_labels_).tolist() == np.asarray(B.column_labels_).tolist())
                elif kind == "DualVigilanceART":
                    A.fit(X); B.fit(X)
                    same = A.labels_.tolist() == B.labels_.tolist()
                elif kind.startswith("ARTMAP"):
                    yy = gen.cc(gen.grid_rows(r, 12, 1, style="coarse"))
                    A.fit(X, yy); B.fit(X, yy)
                    same = A.labels_a.tolist() == B.labels_a.tolist() and A.labels_b.tolist() == B.labels_b.tolist()
                else:
                    A.fit(X, y); B.fit(X, y)
                    same = A.labels_a.tolist() == B.labels_a.tolist() and A.map == B.map
            if not same:
                ctx.issue("violation", sig, "configured through set_params it trains differently from one constructed with these values", rep)
        except Exception as e:
            ctx.issue("violation", sig, f"training raised {e!r}", rep)
        ctx.cov.case(("replace+nested", kind, rho_old, rho_new0, rho_new, list(kw)), True)
        ctx.cov.hit("replace+nested:" + kind)



# ================================================================ (o) constructor argument containers shared between instances


def picture(v, memo=None, ids=True):
    """a by-value, type-carrying picture of an argument object: dicts / lists / tuples / arrays recursively, an artlib
    object as its class, (identity) and ALL of its instance attributes — what `pic_diff` compares before / after"""
    memo = {} if memo is None else memo
    if isinstance(v, dict):
        return {k: picture(x, memo, ids) for k, x in v.items()}
    if isinstance(v, list):
        return [picture(x, memo, ids) for x in v]
    if isinstance(v, tuple):
        return tuple(picture(x, memo, ids) for x in v)
    if isinstance(v, np.ndarray):
        return v.copy()
    if _is_artlib_object(v):
        if id(v) in memo:
            return "<seen above>"
        memo[id(v)] = True
        out = {"<class>": type(v).__name__}
        if ids:
            out["<object>"] = id(v)
        out.update((k, picture(x, memo, ids)) for k, x in vars(v).items())
        return out
    return v


def pic_diff(a, b, p=""):
    """paths at which two pictures differ (types included: a list that became an array, a float that became an int)"""
    if type(a) is not type(b):
        return [p or "/"]
    if isinstance(a, dict):
        out = []
        for k in sorted(set(a) | set(b), key=str):
            out += [f"{p}/{k}"] if (k not in a or k not in b) else pic_diff(a[k], b[k], f"{p}/{k}")
        return out
    if isinstance(a, (list, tuple)):
        if len(a) != len(b):
            return [p or "/"]
        return [q for i, (x, y) in enumerate(zip(a, b)) for q in pic_diff(x, y, f"{p}[{i}]")]
    if isinstance(a, np.ndarray):
        same = a.dtype == b.dtype and a.shape == b.shape and (
            np.array_equal(a, b, equal_nan=True) if a.dtype.kind in "fc" else np.array_equal(a, b))
        return [] if same else [p or "/"]
    try:
        same = bool(a == b) or bool(a != a and b != b)
    except Exception:  # noqa
        same = a is b
    return [] if same else [p or "/"]


def _top(path: str) -> str:
    """first component of a pic_diff path: the container / attribute that moved"""
    return path.lstrip("/").split("/")[0].split("[")[0] or "/"


SHARED_BASES = ["FuzzyART", "FuzzyART", "GaussianART", "GaussianART", "HypersphereART", "ART2A", "EllipsoidART", "QuadraticNeuronART"]


def _elem_kwargs(e: dict) -> dict:
    """constructor keywords of an elementary spec, without the vigilance (array-valued ones as arrays)"""
    return {k: (np.array(v, dtype=float) if k in ("sigma_init", "cov_init") else v)
            for k, v in e.items() if k not in ("cls", "rho", "_d")}


def _ctor_defaults(C) -> dict:
    return {n: p.default for n, p in inspect.signature(C.__init__).parameters.items()
            if p.default is not inspect.Parameter.empty}


def _as_container(r: random.Random, values: list, as_int=False):
    """the same numbers as a list or (what the signatures also allow) an ndarray"""
    if r.random() < 0.3:
        return np.array(values, dtype=int if as_int else float)
    return list(values)


class SharedCase:
    """one situation of sub-check (o): `C` = the caller's containers (name -> dict / list / ndarray / list of modules),
    `first(C)` builds the first instance through the optional path, `second(C)` the second one from the SAME containers,
    `S1` / `S2` + `spec1` / `spec2` generate their data and drive them"""

    def __init__(self):
        self.C, self.info = {}, {}
        self.first = self.second = None
        self.S1 = self.S2 = None
        self.spec1 = self.spec2 = None
        self.cls1 = self.cls2 = "?"
        self.expect_first = self.expect_second = None      # SMART: per layer, what the constructor was told


def _consumer(kind: str, base: str, k: int, d: int):
    """(subject that drives an estimator of `kind` made of k modules of class `base`, data spec)"""
    m = {"cls": base, "_d": d}
    if kind == "SMART":
        return Smart(base), {"cls": "SMART", "base": base, "_d": d}
    if kind == "DeepARTMAP":
        return Deep([base] * k, supervised=False), {"cls": "DeepARTMAP", "modules": [dict(m) for _ in range(k)]}
    if kind == "FusionART":
        return Fusion([base] * k), {"cls": "FusionART", "modules": [dict(m) for _ in range(k)]}
    S = Falcon(td=(kind == "TD_FALCON"))
    return S, {"cls": kind, "state_art": dict(m), "action_art": dict(m), "reward_art": {"cls": base, "_d": 1}}


def shared_case_smart(r: random.Random) -> SharedCase:
    """SMART(base_ART_class, rho_values, base_params, **kwargs): some of the layers' hyper-parameters travel as extra
    keyword arguments; the same base_params dict and rho_values container then configure a second SMART / DeepARTMAP /
    FusionART / FALCON, without the keyword (the class's default applies) or with another value for it"""
    import artlib
    sc = SharedCase()
    base = r.choice(SHARED_BASES)
    cls = getattr(artlib, base)
    d, k = r.randint(1, 3), r.randint(2, 3)
    pool = [0.0, 0.25, 0.5, 0.625, 0.75, 0.875] if base == "FuzzyART" else [0.25, 0.5, 0.625, 0.75, 0.875]
    rhos = sorted(r.sample(pool, k))
    e1, e2 = sub_elem(r, base, d), sub_elem(r, base, d)
    for e in (e1, e2):
        if base == "FuzzyART" and rhos[0] == 0.0 and e.get("alpha", 1) == 0.0:
            e["alpha"] = 2.0 ** -10
    full, alt = _elem_kwargs(e1), _elem_kwargs(e2)
    scalars = [n for n in full if not isinstance(full[n], np.ndarray)]
    kw_names = r.sample(scalars, r.randint(1, len(scalars)))
    kw1 = {n: full[n] for n in kw_names}
    defaults = _ctor_defaults(cls)
    if all(n in defaults for n in kw_names) and r.random() < 0.6:
        kw2, how2 = {}, "without the keyword(s): the class's default applies"
    else:
        kw2, how2 = {n: alt[n] for n in kw_names}, "with other values for the keyword(s)"
    kinds = ["SMART", "SMART", "SMART", "DeepARTMAP", "FusionART"] + (["FALCON", "TD_FALCON"] if base == "FuzzyART" and k == 3 else [])
    kind2 = r.choice(kinds)
    sc.C = {"base_params": {n: v for n, v in full.items() if n not in kw_names}, "rho_values": _as_container(r, rhos)}
    w = specs.width(base, d)
    if kind2 == "FusionART":
        sc.C["gamma_values"] = _as_container(r, r.choice(GAMMAS[k]))
        sc.C["channel_dims"] = _as_container(r, [w] * k, as_int=True)
    elif kind2 in ("FALCON", "TD_FALCON"):
        sc.C["gamma_values"] = _as_container(r, r.choice(GAMMAS[3]))
        sc.C["channel_dims"] = _as_container(r, [w, w, 2], as_int=True)

    def layers(C, kw):
        return [cls(rho=rho, **C["base_params"], **kw) for rho in C["rho_values"]]

    def second(C, _mods=None):
        from artlib import SMART, DeepARTMAP, FusionART, FALCON, TD_FALCON
        if kind2 == "SMART":
            return SMART(cls, C["rho_values"], C["base_params"], **kw2)
        if kind2 == "DeepARTMAP":
            return DeepARTMAP(layers(C, kw2))
        if kind2 == "FusionART":
            return FusionART(layers(C, kw2), C["gamma_values"], C["channel_dims"])
        return (FALCON if kind2 == "FALCON" else TD_FALCON)(*layers(C, kw2), gamma_values=C["gamma_values"], channel_dims=C["channel_dims"])

    def first(C):
        from artlib import SMART
        return SMART(cls, C["rho_values"], C["base_params"], **kw1)
    sc.first, sc.second, sc.cls1, sc.cls2 = first, second, "SMART", kind2
    sc.S1, sc.spec1 = _consumer("SMART", base, k, d)
    sc.S2, sc.spec2 = _consumer(kind2, base, k, d)

    def told(kw):
        return [dict({n: v for n, v in defaults.items() if n in full}, **sc.C["base_params"], rho=rho, **kw) for rho in rhos]
    sc.expect_first = told(kw1)
    sc.expect_second = told(kw2) if kind2 == "SMART" else None
    sc.info = {"family": "SMART(base_ART_class, rho_values, base_params, **kwargs)", "base_ART_class": base, "rho_values": rhos,
               "first": {"class": "SMART", "kwargs": kw1}, "second": {"class": kind2, "kwargs": kw2, "how": how2}}
    return sc


def shared_case_channels(r: random.Random) -> SharedCase:
    """FusionART / FALCON / TD_FALCON (gamma_values, channel_dims, the FusionART / DeepARTMAP modules list): the first
    instance is built from the caller's containers (FALCON: also through the default gamma_values of the signature),
    the second — same or another of these classes — from the same gamma_values / channel_dims objects and from deep
    copies of the caller's module objects taken right after the first construction (before any training)"""
    import artlib
    sc = SharedCase()
    kind1 = r.choice(["FusionART", "FusionART", "FALCON", "TD_FALCON", "DeepARTMAP"])
    if kind1 == "DeepARTMAP":
        kind2 = "DeepARTMAP"
    else:
        kind2 = r.choice(["FusionART", "FALCON", "TD_FALCON"])
    falcon = "FALCON" in kind1 or "FALCON" in kind2
    if falcon:
        chans, ds = ["FuzzyART"] * 3, [r.randint(1, 2), 1, 1]
    else:
        k = r.randint(2, 3)
        chans = [r.choice(["FuzzyART", "FuzzyART", "HypersphereART", "ART2A", "GaussianART"]) for _ in range(k)]
        ds = [r.randint(1, 2) for _ in range(k)]
    k = len(chans)
    mspecs = [sub_elem(r, c, d_) for c, d_ in zip(chans, ds)]
    dims = [specs.width(c, d_) for c, d_ in zip(chans, ds)]
    default_gamma = falcon and kind1 != "FusionART" and kind2 != "FusionART" and r.random() < 0.4
    sc.C = {"modules": [make(strip(m)) for m in mspecs]}
    if kind1 != "DeepARTMAP":
        sc.C["channel_dims"] = _as_container(r, dims, as_int=True)
        if default_gamma:
            # the container every FALCON shares: the default of the signature
            sc.C["gamma_values (default argument of FALCON.__init__)"] = _ctor_defaults(artlib.FALCON)["gamma_values"]
            sc.C["gamma_values (default argument of TD_FALCON.__init__)"] = _ctor_defaults(artlib.TD_FALCON)["gamma_values"]
        else:
            sc.C["gamma_values"] = _as_container(r, r.choice(GAMMAS[k]))

    def build(kind, C, mods, as_list):
        from artlib import DeepARTMAP, FusionART, FALCON, TD_FALCON
        if kind == "DeepARTMAP":
            return DeepARTMAP(mods if as_list else list(mods))
        if kind == "FusionART":
            return FusionART(mods if as_list else list(mods), C["gamma_values"], C["channel_dims"])
        kw = {"channel_dims": C["channel_dims"]}
        if "gamma_values" in C:
            kw["gamma_values"] = C["gamma_values"]
        if kind == "TD_FALCON" and r_td is not None:
            kw.update(r_td)
        return (FALCON if kind == "FALCON" else TD_FALCON)(*mods, **kw)
    r_td = {"td_alpha": r.choice([1.0, 0.5]), "td_lambda": r.choice([1.0, 0.5, 0.0])} if r.random() < 0.5 else None
    sc.first = lambda C: build(kind1, C, C["modules"], True)                                    # noqa
    sc.second = lambda C, mods: build(kind2, C, mods, False)                                   # noqa
    sc.cls1, sc.cls2 = kind1, kind2

    def subj(kind):
        if kind == "DeepARTMAP":
            return Deep(chans, supervised=False), {"cls": kind, "modules": mspecs}
        if kind == "FusionART":
            return Fusion(chans), {"cls": kind, "modules": mspecs}
        return Falcon(td=(kind == "TD_FALCON")), {"cls": kind, "state_art": mspecs[0], "action_art": mspecs[1], "reward_art": mspecs[2]}
    (sc.S1, sc.spec1), (sc.S2, sc.spec2) = subj(kind1), subj(kind2)
    sc.info = {"family": "gamma_values / channel_dims / modules list", "modules": mspecs, "first": {"class": kind1}, "second": {"class": kind2},
               "default_gamma_values": default_gamma, "td": r_td}
    return sc


def _told_mismatch(est, expect) -> Optional[str]:
    """SMART: layer i must report exactly the hyper-parameters its constructor call named (base_params + kwargs + rho_i,
    the class's defaults for what was not named)"""
    with quiet():
        gp = est.get_params(deep=True)
    for i, want in enumerate(expect):
        got = {n[len(f"module_{i}__"):]: v for n, v in gp.items() if n.startswith(f"module_{i}__")}
        if set(got) != set(want):
            return f"layer {i} reports the names {sorted(got)}, constructed with {sorted(want)}"
        for n, v in want.items():
            if not peq(_norm(got[n]), _norm(v)) and not (isinstance(v, (float, np.floating)) and isinstance(got[n], (float, np.floating)) and float(v) == float(got[n])):
                return f"get_params()['module_{i}__{n}'] = {got[n]!r}, constructed with {n}={v!r}"
    return None


def _leafs(est):
    """hyper-parameters by value: get_params leaves where the class has them, the parameter tree otherwise"""
    return ptree(est)


def chk_o_shared_containers(ctx):
    """(o) constructors reached through their optional paths with argument CONTAINERS the caller keeps and reuses.
    The caller's dicts / lists / arrays (and module objects) are by value what they were — after each construction,
    after training, at the end; the second instance, built from the same containers, is constructed / rejected like a
    control built from fresh equal containers, reports the same hyper-parameters (SMART: exactly what its constructor
    call named) and trains identically to the control while the first instance goes on training in between; and the
    first instance equals ITS control (fresh containers, trained alone), i.e. neither instance influences the other."""
    N = ctx.scale(40, 400)
    for i in range(N):
        r = gen.rng_for(ctx.seed, "C19/shared-containers", i)
        sc = shared_case_smart(r) if i % 2 == 0 else shared_case_channels(r)
        C = sc.C
        P = copy.deepcopy(C)                                   # what the caller handed over, by value
        rep = dict(sc.info, containers=P, index=i, seed=ctx.seed)
        base_pic = [picture(C)]

        def unchanged(after: str, cls: str, entry: str) -> bool:
            d = pic_diff(base_pic[0], picture(C))
            # module objects inside a caller's list are trained by design; only identity / length of the list counts then
            if trained[0]:
                d = [q for q in d if not q.startswith("/modules[") or q.endswith("/<object>")]
            if d:
                ctx.cov.hit("o:caller-container-changed")
                now = {n: C[n] for n in {_top(q) for q in d} if n in C and n != "modules"}
                ctx.issue("violation", f"{cls}.{entry}:caller-container-changed:{_top(d[0])}",
                          f"{sc.info['family']}: {after}, the caller's argument container(s) changed at {d[:4]}"
                          + (f" — now {now!r}, handed over as { {n: P[n] for n in now}!r}" if now else ""),
                          dict(rep, after=after, now=copy.deepcopy(now)))
                base_pic[0] = picture(C)          # later stages report what moves from here on
                return False
            return True
        trained = [False]
        ctx.cov.hit(f"o:first:{sc.cls1}")
        ctx.cov.hit(f"o:second:{sc.cls2}")
        for n, v in C.items():
            ctx.cov.hit(f"o:container:{n.split(' ')[0]}:{type(v).__name__}")
        # ---- the first instance, and its control from fresh equal containers
        o1, o1c = outcome(lambda: sc.first(C)), outcome(lambda: sc.first(copy.deepcopy(P)))
        unchanged(f"constructing the first instance ({sc.cls1})", sc.cls1, "__init__")
        mods_now, mods_fresh = [copy.deepcopy(m) for m in C.get("modules", [])], copy.deepcopy(P.get("modules", []))
        if o1[0] == "exc" or o1c[0] == "exc":
            ctx.cov.hit("o:first-construction-rejected")
            if o1[0] != o1c[0] or o1[1] != o1c[1]:
                ctx.issue("violation", f"{sc.cls1}.__init__:caller-containers-unlike-fresh-equal-containers",
                          f"{sc.info['family']}: first construction -> {o1[:2] if o1[0] == 'exc' else 'ok'}, from fresh equal containers -> "
                          f"{o1c[:2] if o1c[0] == 'exc' else 'ok'}", rep)
            continue
        first, first_c = o1[1], o1c[1]
        if sc.expect_first is not None:
            bad = _told_mismatch(first, sc.expect_first)
            if bad:
                ctx.issue("violation", f"{sc.cls1}.get_params:not-what-it-was-constructed-with", f"first instance: {bad}", rep)
        params_first = _leafs(first)
        opsA1 = gen_ops(sc.S1, r, sc.spec1, r.randint(1, 2)) if r.random() < 0.5 else []
        opsA2 = gen_ops(sc.S1, r, sc.spec1, r.randint(1, 2))
        outsA = run_ops(sc.S1, first, opsA1)
        if opsA1:
            trained[0] = True
            ctx.cov.hit("o:first-trained-before-the-second-is-built")
            unchanged(f"training the first instance ({ops_brief(opsA1)})", sc.cls1, ENTRY[opsA1[-1][0]])
        # ---- the second instance from the SAME containers, the control from fresh equal ones
        o2, o2c = outcome(lambda: sc.second(C, mods_now)), outcome(lambda: sc.second(copy.deepcopy(P), mods_fresh))
        unchanged(f"constructing the second instance ({sc.cls2})", sc.cls2, "__init__")
        rep2 = dict(rep, ops_first_before=ops_replay(opsA1))
        if o2[0] == "exc" or o2c[0] == "exc":
            if o2[0] != o2c[0] or o2[1] != o2c[1]:
                ctx.cov.hit("o:second-construction-unlike-control")
                ctx.issue("violation", f"{sc.cls2}.__init__:built-from-shared-containers:unlike-control",
                          f"{sc.info['family']}: the second instance ({sc.cls2}, {sc.info['second'].get('how', 'same containers')}) built from the containers "
                          f"the first {sc.cls1} was built from -> {('raised ' + str(o2[1])) if o2[0] == 'exc' else 'ok'}; a control from fresh equal "
                          f"containers -> {('raised ' + str(o2c[1])) if o2c[0] == 'exc' else 'ok'}", rep2)
            else:
                ctx.cov.hit("o:second-construction-rejected-like-control")
            continue
        second, control = o2[1], o2c[1]
        bad = _told_mismatch(second, sc.expect_second) if sc.expect_second is not None else None
        if bad is None and not eq_snap(_leafs(second), _leafs(control)):
            bad = f"hyper-parameters differ from the control's at {snap_paths(_leafs(second), _leafs(control))[:4]}"
        if bad:
            ctx.cov.hit("o:second-reports-other-parameters")
            ctx.issue("violation", f"{sc.cls2}.get_params:built-from-shared-containers:not-what-it-was-constructed-with",
                      f"{sc.info['family']}: second instance ({sc.cls2}, {sc.info['second'].get('how', 'same containers')}): {bad}", rep2)
        # ---- both go on: the first instance continues in between the second one's calls
        ops2 = gen_ops(sc.S2, r, sc.spec2, r.randint(1, 3))
        order = ["A"] * len(opsA2) + ["B"] * len(ops2)
        r.shuffle(order)
        ia = ib = 0
        outs2 = []
        for who in order:
            if who == "A":
                outsA.append(apply_op(sc.S1, first, opsA2[ia][0], opsA2[ia][1].copy()))
                ia += 1
            else:
                outs2.append(apply_op(sc.S2, second, ops2[ib][0], ops2[ib][1].copy()))
                ib += 1
        trained[0] = True
        outsC = run_ops(sc.S2, control, ops2)
        rep3 = dict(rep2, ops_first_after=ops_replay(opsA2), ops_second=ops_replay(ops2), order=order)
        d = first_diff(outs2, outsC)
        if d is not None:
            ctx.cov.hit("o:second-differs-from-control")
            ctx.issue("violation", f"{sc.cls2}:built-from-shared-containers:trains-differently-from-control",
                      f"{sc.info['family']}: the second instance ({sc.cls2}, {sc.info['second'].get('how', 'same containers')}) differs at its call {d} "
                      f"({ops2[d][0]}; categories {_nc(outs2, d)} vs {_nc(outsC, d)}) from a control built from fresh equal containers", rep3)
            continue
        outsAc = run_ops(sc.S1, first_c, opsA1 + opsA2)
        d = first_diff(outsA, outsAc)
        if d is not None:
            ctx.issue("violation", f"{sc.cls1}:instances-sharing-constructor-containers-influence-each-other",
                      f"{sc.info['family']}: the first instance, trained while a {sc.cls2} built from the same containers was built and trained "
                      f"({''.join(order)}), differs at its call {d} from the same instance built from fresh containers and trained alone", rep3)
            continue
        if not unchanged("training both instances", sc.cls2, ENTRY[ops2[-1][0]]):
            continue
        if not eq_snap(params_first, _leafs(first)):
            ctx.issue("violation", f"{sc.cls1}.get_params:changed-by-another-instance",
                      f"{sc.info['family']}: the first instance's hyper-parameters moved at {snap_paths(params_first, _leafs(first))[:4]} while the second "
                      "instance was built and trained", rep3)
            continue
        ctx.cov.hit("o:independent")
        ctx.cov.case(("o", sc.info, ops_brief(opsA1), ops_brief(opsA2), ops_brief(ops2), order), nontrivial(outs2) or nontrivial(outsA))


# ================================================================ (p) a host constructed around an already fitted module


HOST_SLOTS = [("DualVigilanceART", 0), ("TopoART", 0), ("CVIART", 0), ("SimpleARTMAP", 0), ("ARTMAP", 0), ("ARTMAP", 1),
              ("FusionART", None), ("DeepARTMAP", None), ("BARTMAP", 0), ("BARTMAP", 1), ("FALCON", None), ("TD_FALCON", None)]


def chk_p_host_around_fitted_module(ctx):
    """(p) a fitted model owns its state, also against being WRAPPED: a module of every elementary class is trained,
    then handed (in every slot) to the constructor of every host class — next to other modules, fresh or trained.  A
    construction that raises is fine.  Every module handed over must afterwards be bit-identical in ALL its instance
    attributes (weights, labels, counters, parameters, dim_, bounds), also after a read-only get_params of the host,
    and must go on training (partial_fit of one more row) exactly like a deepcopy taken before the construction."""
    import artlib
    N = ctx.scale(len(HOST_SLOTS) * len(specs.ELEM), 10 * len(HOST_SLOTS) * len(specs.ELEM))
    for i in range(N):
        r = gen.rng_for(ctx.seed, "C19/host-around-fitted-module", i)
        host, slot = HOST_SLOTS[i % len(HOST_SLOTS)]
        cls = specs.ELEM[(i // len(HOST_SLOTS)) % len(specs.ELEM)]
        nslots = {"ARTMAP": 2, "BARTMAP": 2, "FALCON": 3, "TD_FALCON": 3, "FusionART": r.randint(2, 3), "DeepARTMAP": r.randint(2, 3)}.get(host, 1)
        slot = r.randrange(nslots) if slot is None else slot
        mods, meta = [], []
        for j in range(nslots):
            c_ = cls if j == slot else r.choice(["FuzzyART", "FuzzyART", "HypersphereART", "ART2A", "GaussianART", "BayesianART"])
            S = Elem(c_)
            spec = S.spec(r)
            m = make(strip(spec))
            fitted = j == slot or r.random() < 0.4
            ops = gen_ops(S, r, spec, r.randint(1, 2)) if fitted else []
            outs = run_ops(S, m, ops)
            mods.append(m)
            meta.append({"slot": j, "cls": c_, "spec": spec, "ops": ops, "S": S, "fitted": fitted,
                         "raised": any(o[0] == "exc" for o in outs), "ncat": len(getattr(m, "W", []))})
        subject = mods[slot]
        p = subject.params
        if host == "DualVigilanceART":
            args = [r.choice([p["rho"] / 2, p["rho"] / 4, 0.0])]
        elif host == "TopoART":
            tau = r.choice([2, 3, 5, 100])
            args = [r.choice([p.get("beta", 1.0), p.get("beta", 1.0) / 2, 0.0]), tau, r.randint(1, min(3, tau))]
        elif host == "CVIART":
            args = [r.choice([1, 2, 3])]
        elif host == "BARTMAP":
            args = [r.choice([-1.0, 0.0, 0.25, 0.5])]
        else:
            args = []
        widths = [specs.width(t["cls"], t["spec"]["_d"]) for t in meta]
        gammas = list(r.choice(GAMMAS[nslots])) if nslots in GAMMAS else None
        before = [picture(m) for m in mods]
        twins = [copy.deepcopy(m) for m in mods]

        def construct():
            H = getattr(artlib, host)
            if host in ("FusionART",):
                return H(mods, gammas, widths)
            if host == "DeepARTMAP":
                return H(mods)
            if host in ("FALCON", "TD_FALCON"):
                return H(*mods, gamma_values=gammas, channel_dims=widths)
            return H(*mods, *args)
        o = outcome(construct)
        ctx.cov.hit(f"p:{host}[{slot}]({cls}):" + ("constructed" if o[0] == "ok" else "construction-raised"))
        rep = {"host": host, "host_args": args, "gamma_values": gammas, "channel_dims": widths, "slot_of_the_subject": slot, "index": i, "seed": ctx.seed,
               "modules": [{"cls": t["cls"], "spec": t["spec"], "trained_by": ops_replay(t["ops"]), "categories": t["ncat"]} for t in meta]}
        looked = False
        ok = True
        for stage in ("construction", "get_params"):
            if stage == "get_params":
                if o[0] != "ok" or not hasattr(o[1], "get_params"):
                    break
                outcome(lambda: o[1].get_params(deep=True))
                looked = True
                ctx.cov.hit("p:get_params-of-the-host-read")
            for m, t, pic in zip(mods, meta, before):
                d = pic_diff(pic, picture(m))
                if d:
                    ok = False
                    ctx.cov.hit("p:module-changed")
                    state = "fitted" if t["fitted"] else "unfitted"
                    ctx.issue("violation", f"{host}({t['cls']}):{stage}-changed-{state}-module:{_top(d[0])}",
                              f"{'constructing' if stage == 'construction' else 'get_params of'} {host}"
                              f"{' (the constructor raised ' + str(o[1]) + ')' if o[0] == 'exc' else ''} around a {state} {t['cls']} "
                              f"({t['ncat']} categories, slot {t['slot']}) changed the module's own state at {d[:4]}",
                              dict(rep, changed_module_slot=t["slot"]))
            if not ok:
                break
        if not ok:
            continue
        # ---- the module goes on like the deepcopy taken before it was wrapped
        t = meta[slot]
        D = t["S"].data(r, t["spec"], 2).cut(0, 1)
        a, b = apply_op(t["S"], subject, "pfit", D.copy()), apply_op(t["S"], twins[slot], "pfit", D.copy())
        if not eq_snap(a, b) or pic_diff(picture(subject, ids=False), picture(twins[slot], ids=False)):
            ctx.issue("violation", f"{host}({cls}):construction-changed-fitted-module:continues-differently",
                      f"after {host} was constructed around it{' and its get_params read' if looked else ''}, partial_fit of one more row on the {cls} "
                      f"-> {a[:2] if a[0] == 'exc' else 'ok'}; on a deepcopy taken before the construction -> {b[:2] if b[0] == 'exc' else 'ok'}"
                      f"; state differs at {pic_diff(picture(subject, ids=False), picture(twins[slot], ids=False))[:4]}", dict(rep, one_more_row=D.X))
            continue
        ctx.cov.hit("p:module-unchanged")
        ctx.cov.case(("p", host, slot, [(t_["cls"], t_["spec"], ops_brief(t_["ops"])) for t_ in meta], args),
                     t["ncat"] >= 2 or len(getattr(subject, "W", [])) >= 2)


# ================================================================ (q) in-place writes into what an accessor returned


ACCESSOR_METHODS = ("get_cluster_centers",)          # zero-argument public accessors; get_channel_centers(k) is added per channel


def _nested_objects(est):
    """every artlib object of a nesting with the steps that lead to it from the top: [(path, steps, object)], each object
    once (SMART's layers host the same modules as `modules`), in a deterministic order"""
    out, seen = [], set()

    def go(obj, path, steps):
        if id(obj) in seen:
            return
        seen.add(id(obj))
        out.append((path, steps, obj))
        for k, v in vars(obj).items():
            if _is_artlib_object(v):
                go(v, f"{path}.{k}", steps + [(k, None)])
            elif isinstance(v, list) and v and all(_is_artlib_object(t) for t in v):
                for i, t in enumerate(v):
                    go(t, f"{path}.{k}[{i}]", steps + [(k, i)])
    go(est, "model", [])
    return out


def _follow(est, steps):
    obj = est
    for k, i in steps:
        obj = getattr(obj, k)
        if i is not None:
            obj = obj[i]
    return obj


def _array_leaves(v) -> Optional[list]:
    """the arrays an accessor handed out (an array, a non-empty list / tuple of arrays, a dict of arrays), else None"""
    if isinstance(v, np.ndarray):
        return [v]
    if isinstance(v, (list, tuple)) and v and all(isinstance(t, np.ndarray) for t in v):
        return list(v)
    if isinstance(v, dict) and v and all(isinstance(t, np.ndarray) for t in v.values()):
        return list(v.values())
    return None


def _read_accessor(obj, acc):
    kind, name, args = acc
    v = getattr(obj, name)
    return v(*args) if kind == "call" else v


def accessors_of(est) -> list:
    """(path, steps, owner class, (kind, name, args)) of every PUBLIC accessor of every object of the nesting that
    currently returns arrays: public instance attributes, properties of the class, get_cluster_centers(),
    get_channel_centers(k)"""
    out = []
    for path, steps, obj in _nested_objects(est):
        names = [k for k in vars(obj) if not k.startswith("_") and k != "params"]
        names += [k for k in dir(type(obj)) if not k.startswith("_") and isinstance(getattr(type(obj), k, None), property)
                  and k not in names]
        cands = [("attr", k, ()) for k in names]
        cands += [("call", k, ()) for k in ACCESSOR_METHODS if callable(getattr(obj, k, None))]
        if callable(getattr(obj, "get_channel_centers", None)) and isinstance(getattr(obj, "modules", None), list):
            cands += [("call", "get_channel_centers", (k,)) for k in range(len(obj.modules))]
        for acc in cands:
            o = outcome(lambda: _read_accessor(obj, acc))
            if o[0] == "ok" and _array_leaves(o[1]) is not None and any(a.size for a in _array_leaves(o[1])):
                out.append((path, steps, type(obj).__name__, acc))
    return out


def _acc_name(acc) -> str:
    kind, name, args = acc
    return name + ("(" + ",".join(map(str, args)) + ")" if kind == "call" else "")


def _write_into(leaves: list, idiom: str, j: int):
    """the caller post-processes, in place, the arrays an accessor handed out.  The values written are values the model
    could hold: halved weights (`w *= 0.5`), the contents of another array of the same result (`res[j][:] = res[k]`: a
    category given another category's weights, a rotation of all of them), integer arrays rolled / reversed — never
    values that make a weight vector meaningless (a caller who does that is on his own)"""
    leaves = [a for a in leaves if a.size]
    if not leaves:
        return

    def other_values(k):
        a = leaves[k]
        for step in range(1, len(leaves)):
            b = leaves[(k + step) % len(leaves)]
            if b.shape == a.shape and b.dtype == a.dtype and not np.array_equal(a, b):
                return b.copy()
        return a * 0.5 if a.dtype.kind == "f" else a[::-1].copy()
    if idiom == "every:scale":
        for a in leaves:                                  # for w in model.W: w *= 0.5
            if a.dtype.kind == "f":
                a *= 0.5
            else:
                a[...] = np.roll(a, 1, axis=0)
    elif idiom == "one:assign":                           # model.W[j][:] = <weights of another category>
        k = j % len(leaves)
        leaves[k][...] = other_values(k)
    else:                                                 # every:assign
        vals = [other_values(k) for k in range(len(leaves))]
        for a, v in zip(leaves, vals):
            a[...] = v


class _call_limit:
    """a later call that does not return within `seconds` becomes impl.Hang (reported by `outcome` as 'hang'); the
    framework's own watchdog timer is put back afterwards"""

    def __init__(self, seconds: float):
        self.seconds = seconds

    def __enter__(self):
        import signal
        from ..impl import Hang
        sec = self.seconds

        def handler(_sig, _frm):
            raise Hang(f"no return within {sec}s")
        try:
            self.old = signal.signal(signal.SIGALRM, handler)
        except ValueError:                                # not the main thread
            self.old = None
            return self
        self.timer = signal.setitimer(signal.ITIMER_REAL, sec)
        return self

    def __exit__(self, *exc):
        import signal
        if self.old is not None:
            signal.setitimer(signal.ITIMER_REAL, 0)
            signal.signal(signal.SIGALRM, self.old)
            if self.timer[1] > 0:
                signal.setitimer(signal.ITIMER_REAL, self.timer[1], self.timer[1])
        return False


def _hung(outs) -> list:
    return [k for k, o in enumerate(outs) if o[0] == "exc" and o[1] == "hang"]


def chk_q_accessor_writes(c: Case):
    """(q) a copy behaves like the model, also for a caller who WRITES IN PLACE into the arrays a public accessor handed
    out (`for w in model.W: w *= 0.5`, `model.W[j][:] = v`, the results of get_cluster_centers() / get_channel_centers(k),
    labels_ of a host, of a module inside it).  A history trains the model; a pickle round trip and a deepcopy are taken;
    then the SAME accessor reads + in-place writes, followed by the SAME partial_fit / predict calls, are made on the
    original and on both copies.  Required, for every write: it is accepted / rejected alike, and it reaches the model's
    stored state (any instance attribute of any object of the nesting) in the original exactly when — and exactly where —
    it does in the copies; in particular an accessor that hands out freshly built arrays in a copy (FusionART.W, a
    concatenation of the channel modules' weights) hands out fresh arrays in the original, so the write reaches no model
    at all.  Afterwards the three continue identically: outcomes, predictions, learned state, and the accessors' values."""
    S, r = c.S, c.rng("q")
    spec = S.spec(r)
    est = c.build(spec, "q")
    if est is None:
        return
    pre = gen_ops(S, r, spec, r.randint(1, 3))
    pre_out = run_ops(S, est, pre)
    if any(o[0] == "exc" for o in pre_out):
        c.ctx.cov.hit("q:earlier-history-raised")
        return
    accs = accessors_of(est)
    if not accs:
        c.ctx.cov.hit("q:no-array-accessor")
        return
    plan = []
    for path, steps, owner, acc in r.sample(accs, min(len(accs), r.randint(1, 4))):
        plan.append({"path": path, "steps": steps, "owner": owner, "acc": acc,
                     "idiom": r.choice(["every:scale", "every:scale", "one:assign", "every:assign"]), "j": r.randrange(8)})
    rest = []
    if S.has_pred and r.random() < 0.5:
        rest.append(("pred", S.data(r, spec, r.randint(2, S.nmax))))
    rest.append(("pfit" if S.has_pfit else "fit", S.data(r, spec, r.randint(2, S.nmax))))
    if S.has_pred:
        rest.append(("pred", S.data(r, spec, r.randint(2, S.nmax))))
    rep = {"spec": spec, "earlier_ops": ops_replay(pre), "copies": ["pickle round trip", "copy.deepcopy"],
           "writes": [{"object": p["path"], "accessor": _acc_name(p["acc"]), "class": p["owner"],
                       "idiom": {"every:scale": "for a in <result>: a *= 0.5 (integer arrays: rolled by one)",
                                 "one:assign": f"<result>[{p['j']} % len][...] = <result>[next differing entry of the same shape] (none: halved / reversed)",
                                 "every:assign": "every entry of <result> overwritten with the next differing entry's old contents (none: halved / reversed)"}[p["idiom"]]}
                      for p in plan],
           "later_ops": ops_replay(rest),
           "idiom": "the same accessor reads, in-place writes into their results and later calls on the fitted model, on its "
                    "pickle round trip and on its deepcopy"}
    models = {"original": est}
    for how, mk in (("pickle", lambda: pickle.loads(pickle.dumps(est))), ("deepcopy", lambda: copy.deepcopy(est))):
        o = outcome(mk)
        if o[0] == "exc":
            c.violation(f"{S.cls}.{how}:raises", f"{how} after {ops_brief(pre)} raised {o[1]}", rep)
            return
        models[how] = o[1]
    # ---- the writes, one accessor at a time, on each of the three
    seen = {}
    for who, m in models.items():
        rows = []
        for p in plan:
            before = picture(m, ids=False)

            def write():
                leaves = _array_leaves(_read_accessor(_follow(m, p["steps"]), p["acc"]))
                if leaves is None:
                    return "no-arrays"
                _write_into(leaves, p["idiom"], p["j"])
                return "written"
            o = outcome(write)
            rows.append((o, pic_diff(before, picture(m, ids=False))))
        seen[who] = rows
    ok = True
    for k, p in enumerate(plan):
        o0, moved0 = seen["original"][k]
        name = f"{p['owner']}.{_acc_name(p['acc'])}"
        c.ctx.cov.hit(f"q:{name}:{p['idiom']}:" + ("raised" if o0[0] == "exc" else "reaches-the-model" if moved0 else "fresh-arrays-or-no-op"))
        for who in ("pickle", "deepcopy"):
            o1, moved1 = seen[who][k]
            if o0 != o1:
                ok = False
                c.violation(f"{name}:in-place-write-into-result:accepted-differently-by-{who}-copy",
                            f"write {k} into the result of {p['path']}.{_acc_name(p['acc'])}: original -> {o0}, {who} copy -> {o1}",
                            dict(rep, failing_write=k, copy=who))
            elif moved0 != moved1:
                ok = False
                only = "original" if moved0 and not moved1 else "copy" if moved1 and not moved0 else "both-but-elsewhere"
                c.violation(f"{name}:in-place-write-into-result:reaches-stored-state-of-{only}",
                            f"after {ops_brief(pre)}, writing in place into the arrays returned by {p['path']}.{_acc_name(p['acc'])} "
                            f"({p['idiom']}) changed the stored state of the original at {moved0[:4] or 'nothing'} but of its {who} copy at "
                            f"{moved1[:4] or 'nothing'}: the accessor hands out the model's own buffers in one and fresh arrays in the "
                            "other, a copy does not behave like the model", dict(rep, failing_write=k, copy=who))
        if not ok:
            break
    if not ok:
        c.ctx.cov.hit("q:write-told-original-and-copy-apart")
        return
    # ---- the same later calls, then the same accessor reads
    outs = {}
    for who, m in models.items():
        with _call_limit(4.0):
            outs[who] = run_ops(S, m, rest)
    if _hung(outs["original"]) and all(_hung(outs[who]) == _hung(outs["original"]) for who in outs):
        # halved / permuted weights can be weights no training produces; a search that does not terminate on them is
        # not this property's business as long as the copies do exactly the same
        c.ctx.cov.hit("q:later-call-does-not-return-on-all-three-alike")
        return
    chk_f_returns_self(c, outs["original"], rest, spec)
    for who in ("pickle", "deepcopy"):
        d = first_diff(outs["original"], outs[who])
        if d is not None:
            c.violation(f"{S.cls}.{how_name(who)}:continues-differently-after-write-into-accessor-result",
                        f"after identical in-place writes into {[q['path'] + '.' + _acc_name(q['acc']) for q in plan]} the {who} copy differs "
                        f"from the original at later call {d} ({rest[d][0]})", dict(rep, copy=who))
            ok = False
    if ok:
        for p in plan:
            vals = {who: outcome(lambda: picture(_read_accessor(_follow(m, p["steps"]), p["acc"]))) for who, m in models.items()}
            for who in ("pickle", "deepcopy"):
                a, b = vals["original"], vals[who]
                if a[0] != b[0] or (a[0] == "exc" and a[1] != b[1]) or (a[0] == "ok" and pic_diff(a[1], b[1])):
                    ok = False
                    c.violation(f"{p['owner']}.{_acc_name(p['acc'])}:value-differs-in-{who}-copy-after-write-into-accessor-result",
                                f"after identical writes and later calls {p['path']}.{_acc_name(p['acc'])} of the {who} copy differs from "
                                "the original's", dict(rep, copy=who))
    if ok:
        c.ctx.cov.hit("q:original-and-copies-agree")
    c.ctx.cov.case(("q", S.name, spec, ops_brief(pre), [(p["path"], _acc_name(p["acc"]), p["idiom"], p["j"]) for p in plan], ops_brief(rest)),
                   nontrivial(pre_out + outs["original"]))


def how_name(who: str) -> str:
    return {"pickle": "pickle", "deepcopy": "deepcopy"}[who]


EXTRA_SUBCHECKS.append(("q", chk_q_accessor_writes))


def prepare(ctx):
    """Translator tie (see gen_tie.py): validate_params of the eight elementary classes and BaseART's __init__ /
    __getattr__ / __setattr__ / get_params / set_params are re-translated to Lean on every run (harness/artv/qtrans.py)
    and proved equal to the parameter-protocol model the C19 theorems are about"""
    from .gen_tie import gen_prepare, extra_theorems
    from .. import qtrans, q2trans, q3trans
    gen_prepare(ctx, extra_theorems("qtrans") + extra_theorems("q2trans") + extra_theorems("q3trans"),
                qtrans.COVERS + "; " + q2trans.COVERS + "; " + q3trans.COVERS)

def run(ctx):
    ctx.trusted += ["Python object graphs (deepcopy, pickle, sklearn.clone, `fit(...) is est`, instance independence, "
                    "aliasing of caller arrays) are NOT modelled in Lean: clauses f–j and the compound classes are "
                    "checked on the implementation only (oracle part of this check)",
                    "numpy/sklearn primitives: np.copy, copy.deepcopy, pickle, sklearn.base.clone"]
    ctx.assumptions += ["hyper-parameter values are those accepted by each class's validate_params; data passes validate_data",
                        "float rounding is not modelled; twin comparisons are bit-exact on the implementation side"]
    shared = _mutables()
    table = extract_table()
    tie_table(ctx, table)
    tie_protocol(ctx, table, ctx.scale(400, 6000))
    tie_own(ctx, ctx.scale(40, 400))
    rounds = ctx.scale(14, 150)
    extra_rounds = ctx.scale(EXTRA_ROUNDS_QUICK, 40)
    subjects = all_subjects()
    for S in subjects:
        for idx in range(rounds):
            for tag, fn in SUBCHECKS + (EXTRA_SUBCHECKS if idx < extra_rounds else []):
                if tag in NEEDS_SKLEARN and not S.sklearn:
                    continue
                c = Case(ctx, S, idx, table)
                try:
                    fn(c)
                except Exception as e:  # the machinery must not hide a crash as a pass
                    raise RuntimeError(f"C19 sub-check {tag} crashed on {S.name} index {idx}: {e!r}") from e
    chk_replace_and_nested(ctx)
    chk_o_shared_containers(ctx)
    chk_p_host_around_fitted_module(ctx)
    exercise_defaults(ctx)
    chk_shared_defaults(ctx, shared)
    ctx.cov.sample({"subjects": [S.name for S in subjects], "rounds_per_subject": rounds,
                    "shared_mutable_defaults_watched": sorted(shared)})
