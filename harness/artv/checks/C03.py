"""C03 — kernel functions compute the published rules.  Tie: every public kernel
function of Fuzzy/ART1/ART2-A (exact, over Q) and HypersphereART (IEEE doubles)
against the Lean definitions, on weights reached by training and on arbitrary
well-formed weights, boundary hyper-parameters included.  Oracle (independent
of the model): the published equations of the remaining modules written with
numpy, purity (arguments and model state bitwise unchanged), the binary match
test per mode, and the geometry accessors."""
from __future__ import annotations

import contextlib
import functools
import operator
import os
import warnings
from fractions import Fraction

import numpy as np

from .. import gen, specs
from ..common import q2s, vec_q, run_driver, parse_vec_q, f2hex, vec_f, parse_vec_f, hex2f
from ..impl import make, quiet, exc_enum, MODES, full_snapshot, eq_snap

RULE = ("cases = (class, kernel function, hyper-parameters incl. boundary values, sample, weight) with weights "
        "either reached by training or arbitrary well-formed; non-trivial when sample != weight-centre and the "
        "weight is not freshly created; distinct by hash of (class, function, params, x, w)")


GEN_THEOREMS = ["fuzzy_choice", "fuzzy_match", "fuzzy_update", "fuzzy_new", "art1_choice", "art1_match", "art1_update",
                "art1_new", "art2_choice", "art2_match", "art2_update", "art2_new", "sph_distance", "sph_choice",
                "sph_match", "sph_update", "sph_new", "ell_distance", "ell_choice", "ell_match", "ell_update", "ell_new",
                "gauss_lik", "gauss_choice", "gauss_match", "gauss_update", "gauss_new",
                "bayes_match_bin", "base_match_bin", "operator_strict"]


def prepare(ctx):
    """Translator tie (see gen_tie.py): the kernels of FuzzyART / ART1 / ART2A / HypersphereART"""
    from .gen_tie import gen_prepare, extra_theorems
    from .. import k2trans
    gen_prepare(ctx, GEN_THEOREMS + extra_theorems("k2trans"), "category_choice / match_criterion / update / new_weight of FuzzyART, ART1, ART2A, HypersphereART, EllipsoidART, GaussianART; "
                "match_criterion_bin of BaseART / BayesianART and the comparison operator per mode; " + k2trans.COVERS)


def close(a, q, tol=1e-12):
    f = float(q)
    a = float(a)
    return a == f or abs(a - f) <= tol * (1 + abs(f))


def vclose(a, qs, tol=1e-12):
    a = list(np.asarray(a, dtype=float).ravel())
    return len(a) == len(qs) and all(close(x, q, tol) for x, q in zip(a, qs))


def reach_weights(r, cls, spec, d, n=12):
    """(estimator with dim_ set and some trained weights, data)"""
    m = make(spec)
    X = specs.elem_data(r, cls, n, d)
    with quiet():
        m.fit(X, match_tracking=r.choice(MODES))
    return m, X


def arbitrary_weight(r, cls, d, m):
    g = 16
    if cls == "FuzzyART":
        lo = [r.randint(0, g) / g for _ in range(d)]
        hi = [min(1.0, l + r.randint(0, g) / g) for l in lo]
        return np.array(lo + [1 - h for h in hi])
    if cls == "ART1":
        t = np.array([float(r.randint(0, 1)) for _ in range(d)])
        if not t.any():
            t[r.randrange(d)] = 1.0
        L = m.params["L"]
        return np.concatenate([L / (L - 1 + t.sum()) * t, t])
    if cls == "ART2A":
        return np.array([r.randint(0, g) / g for _ in range(d)])
    if cls == "HypersphereART":
        return np.array([r.randint(0, g) / g for _ in range(d)] + [r.randint(0, g // 2) / g])
    raise KeyError(cls)


def run(ctx):
    cov = ctx.cov
    N = ctx.scale(240, 6000)
    lines, metas = [], []

    def ask(line, meta):
        lines.append(line)
        metas.append(meta)

    for i in range(N):
        r = gen.rng_for(ctx.seed, "C03", i)
        cls = ["FuzzyART", "ART1", "ART2A", "HypersphereART"][i % 4]
        d = r.randint(1, 5)
        spec = specs.elem_spec(r, cls, d)
        try:
            m, X = reach_weights(r, cls, spec, d)
        except Exception as e:
            cov.hit(f"train-raised:{cls}:{exc_enum(e)}")
            continue
        p = m.params
        for j in range(6):
            reached = j < 3 and len(m.W) > 0
            w = np.array(m.W[r.randrange(len(m.W))], dtype=float) if reached else arbitrary_weight(r, cls, d, m)
            style = r.choice(["data", "fresh", "centre", "near-centre"] if cls == "HypersphereART" else ["data", "fresh", "centre"])
            if style == "data":
                x = X[r.randrange(len(X))].copy()
            elif style == "fresh":
                x = specs.elem_data(r, cls, 1, d)[0]
            elif style == "near-centre":
                # closer than 1e-7 to the centre, but not on it (near-duplicate readings)
                x = np.clip(w[:-1] + np.array([r.choice([-1, 1]) * 2.0 ** -r.choice([24, 26, 30]) for _ in range(d)]), 0.0, 1.0)
                cov.hit("sample-within-1e-7-of-centre")
            else:
                # sample on the category centre / boundary
                if cls == "FuzzyART":
                    x = np.concatenate([w[:d], 1 - w[:d]])
                elif cls == "HypersphereART":
                    x = w[:-1].copy()
                elif cls == "ART1":
                    x = w[d:].copy()
                else:
                    x = w.copy()
            x0, w0 = x.copy(), w.copy()
            snap0 = full_snapshot(m)
            rep = {"class": cls, "spec": spec, "x": x, "w": w, "reached": reached}
            try:
                with quiet():
                    T, cache = m.category_choice(x, w, params=p)
                    M, cache2 = m.match_criterion(x, w, params=p, cache=cache)
                    wu = m.update(x, w, p, cache=cache2)
                    wn = m.new_weight(x, p)
            except ZeroDivisionError:
                cov.hit(f"zerodiv:{cls}")
                T = M = wu = wn = None
            except Exception as e:
                ctx.issue("violation", f"{cls}.kernel:{exc_enum(e)}", f"kernel call raised {e!r}", rep)
                continue
            # purity
            if not (np.array_equal(x, x0) and np.array_equal(w, w0)):
                ctx.issue("violation", f"{cls}.kernel:mutates-arguments", "x or w changed by a kernel call", rep)
            if not eq_snap(full_snapshot(m), snap0):
                ctx.issue("violation", f"{cls}.kernel:mutates-model", "model state changed by a kernel call", rep)
            cov.case((cls, spec, x.tolist(), w.tolist()), reached and style != "centre")
            if i < 2 and j == 0:
                cov.sample({"class": cls, "spec": spec, "x": x.tolist(), "w": w.tolist(), "T": None if T is None else float(T)})
            if T is None:
                # the model must agree that this point is undefined
                if cls == "FuzzyART":
                    ask(f"kern R fuzzy.choice {q2s(p['alpha'])} {vec_q(x)} {vec_q(w)}", ("zerodiv", None, rep, cls))
                continue
            # binary test per mode
            for mode in MODES:
                op = m._match_tracking_operator(mode)
                with quiet():
                    mb, _ = m.match_criterion_bin(x, w, params=p, cache=dict(cache2) if cache2 else cache2, op=op)
                want = (M >= p["rho"]) if mode in ("MT+", "MT-", "MT1") else (M > p["rho"])
                if bool(mb) != bool(want):
                    ctx.issue("violation", f"{cls}.match_criterion_bin:{mode}", f"M={M} rho={p['rho']} got {mb}", rep)
                if M == p["rho"]:
                    cov.hit("match-equals-threshold")
            if cls == "FuzzyART":
                ask(f"kern R fuzzy.choice {q2s(p['alpha'])} {vec_q(x)} {vec_q(w)}", ("num", T, rep, cls))
                ask(f"kern R fuzzy.match {d} {vec_q(x)} {vec_q(w)}", ("num", M, rep, cls))
                ask(f"kern R fuzzy.update {q2s(p['beta'])} {vec_q(x)} {vec_q(w)}", ("vec", wu, rep, cls))
                for nn in range(0, d + 1):
                    # every admissible request 0 <= n <= d, the empty box (n = 0) included
                    from artlib.elementary.FuzzyART import get_bounding_box
                    with quiet():
                        ref, wid = get_bounding_box(w, nn)
                    ask(f"kern R fuzzy.bbox {nn} {vec_q(w)}", ("bbox", (ref, wid), dict(rep, n=nn), cls))
                    cov.hit("bbox-n=0" if nn == 0 else ("bbox-n<d" if nn < d else "bbox-n=d"))
            elif cls == "ART1":
                # oracle: a freshly created category obeys the same bottom-up rule L/(L-1+|t|) t, t = x
                L_ = p["L"]
                want_bu = L_ / (L_ - 1 + x.sum()) * x
                if not np.allclose(np.asarray(wn, dtype=float)[:d], want_bu, rtol=1e-12, atol=0) or \
                        not np.array_equal(np.asarray(wn, dtype=float)[d:], x):
                    ctx.issue("violation", "ART1.new_weight:bottom-up-scale",
                              f"new_weight({x.tolist()}) bottom-up {np.asarray(wn)[:d].tolist()} expected L/(L-1+|x|) x = {want_bu.tolist()}", rep)
                ask(f"kern R art1.choice {d} {vec_q(x)} {vec_q(w)}", ("num", T, rep, cls))
                ask(f"kern R art1.match {d} {vec_q(x)} {vec_q(w)}", ("num", M, rep, cls))
                ask(f"kern R art1.update {q2s(p['L'])} {d} {vec_q(x)} {vec_q(w)}", ("vec", wu, rep, cls))
                ask(f"kern R art1.new {q2s(p['L'])} {d} {vec_q(x)}", ("vec", wn, rep, cls))
            elif cls == "ART2A":
                ask(f"kern R art2.choice {vec_q(x)} {vec_q(w)}", ("num", T, rep, cls))
                ask(f"kern R art2.match {q2s(p['alpha'])} {vec_q(x)} {vec_q(w)}", ("num", M, rep, cls))
                ask(f"kern R art2.update {q2s(p['beta'])} {vec_q(x)} {vec_q(w)}", ("vec", wu, rep, cls))
                if M == -1.0:
                    cov.hit("art2-suppressed")
            else:
                ask(f"kern F sph.choice {f2hex(p['alpha'])} {f2hex(p['r_hat'])} {vec_f(x)} {vec_f(w)}", ("fnum", T, rep, cls))
                ask(f"kern F sph.match {f2hex(p['r_hat'])} {vec_f(x)} {vec_f(w)}", ("fnum", M, rep, cls))
                ask(f"kern F sph.update {f2hex(p['beta'])} {vec_f(x)} {vec_f(w)}", ("fvec", wu, rep, cls))
                dist = float(np.sqrt(np.sum((x - w[:-1]) ** 2)))
                cov.hit("sphere-inside" if dist < w[-1] else ("sphere-on" if dist == w[-1] else "sphere-outside"))
        # accessors on the trained model
        if cls == "FuzzyART" and len(m.W):
            with quiet():
                cen = m.get_cluster_centers() if m.d_min_ is not None else None
            W0 = [np.array(w_, dtype=float).copy() for w_ in m.W]
            ratio = r.choice([0.0, 0.125, 0.25, 0.5])
            with quiet():
                m.shrink_clusters(ratio)
            for w_old, w_new in zip(W0, m.W):
                ask(f"kern R fuzzy.shrink {q2s(ratio)} {vec_q(w_old)}", ("vec", np.array(w_new), {"class": cls, "w": w_old, "ratio": ratio}, cls))
                # oracle: same centre, contained in the old box
                u, v = w_old[:d], 1 - w_old[d:]
                u2, v2 = w_new[:d], 1 - w_new[d:]
                if not (np.allclose((u + v) / 2, (u2 + v2) / 2, atol=1e-12) and np.all(u2 >= u - 1e-12) and np.all(v2 <= v + 1e-12)
                        and np.all(u2 <= v2 + 1e-12)):
                    ctx.issue("violation", "FuzzyART.shrink_clusters:geometry", f"old {w_old} new {w_new} ratio {ratio}",
                              {"w": w_old, "ratio": ratio})
            cov.hit("shrink")
    outs = run_driver(lines)
    for line, out, (kind, val, rep, cls) in zip(lines, outs, metas):
        rep = dict(rep, line=line, model=out)
        ok = True
        if out == "bad-op":
            ok = False
        elif kind == "zerodiv":
            ok = out == "zerodiv"
        elif out == "zerodiv":
            ok = False
        elif kind == "num":
            ok = close(val, Fraction(out))
        elif kind == "vec":
            ok = vclose(val, parse_vec_q(out))
        elif kind == "bbox":
            a, b = out.split(";")
            ok = vclose(val[0], parse_vec_q(a)) and vclose(val[1], parse_vec_q(b))
        elif kind == "fnum":
            f = hex2f(out)
            ok = float(val) == f or abs(float(val) - f) <= 1e-12 * (1 + abs(f)) or (f != f and float(val) != float(val))
            if f != f:
                ctx.cov.hit("nan-on-both-sides(unreachable weight)")
            if float(val) == f:
                ctx.cov.hit("float-bit-identical")
        elif kind == "fvec":
            f = parse_vec_f(out)
            v = list(np.asarray(val, dtype=float))
            ok = len(f) == len(v) and all(a == b or abs(a - b) <= 1e-12 * (1 + abs(b)) for a, b in zip(v, f))
        if not ok:
            fn = line.split(" ")[2]
            if out in ("bad-op", "zerodiv") or kind == "zerodiv":
                ctx.issue("diff", f"kern:{fn}", f"implementation {val!r} model {out}", rep)
            else:
                # the model's kernels ARE the published equations (ArtModel/Kernels.lean; for the translated classes
                # GenSpec proves the source equal to them): evaluated on this very input they give another value
                ctx.issue("violation", f"{cls}.{fn}:differs-from-published-equation",
                          f"on x = {np.asarray(rep.get('x')).tolist() if rep.get('x') is not None else '-'}, w = "
                          f"{np.asarray(rep.get('w')).tolist() if rep.get('w') is not None else '-'} the implementation returns {val!r}; "
                          f"the published rule evaluated exactly gives {out}", rep)
        else:
            cov.hit("kern-agree")
        cov.traces += 1
    accessor_edges(ctx)
    other_modules(ctx)
    integer_typed_params(ctx)
    numeric_policies(ctx)
    inexact_complement_coding(ctx)
    caller_supplied_operator(ctx)


# ---------------------------------------------------------------- geometry accessors at the edge of their argument range


def box_of_weight(w, n):
    """the property's own definition: the first n coordinates of the box [u, v] stored as w = (u, 1 - v)"""
    w = np.asarray(w, dtype=float)
    d = len(w) // 2
    return [float(w[k]) for k in range(n)], [float((1 - w[d + k]) - w[k]) for k in range(n)]


def accessor_edges(ctx):
    """Oracle (implementation alone): get_bounding_box(w, n) / FuzzyART.get_bounding_boxes(n) for EVERY admissible
    request -- n omitted (= d), n = 0 (the box without coordinates), 0 < n < d, n = d, given as a Python int or a
    numpy integer, positionally or by keyword -- return exactly n coordinates that agree with the stored weight, on
    trained, arbitrary and degenerate (point / whole-cube) weights; the accessors
    change neither the weight nor the model.  shrink_clusters at the ends of its ratio range (0: unchanged, 1/2: the
    box collapses onto its centre) keeps the centre and stays inside the old box."""
    from artlib.elementary.FuzzyART import get_bounding_box
    cov = ctx.cov
    for i in range(ctx.scale(40, 800)):
        r = gen.rng_for(ctx.seed, "C03-acc", i)
        d = r.randint(1, 5)
        spec = specs.elem_spec(r, "FuzzyART", d)
        try:
            m, X = reach_weights(r, "FuzzyART", spec, d)
        except Exception as e:
            cov.hit(f"train-raised:FuzzyART:{exc_enum(e)}")
            continue
        pool = [("reached", np.array(w_, dtype=float)) for w_ in m.W]
        pool.append(("arbitrary", arbitrary_weight(r, "FuzzyART", d, m)))
        u = np.array([r.randint(0, 16) / 16 for _ in range(d)])
        pool.append(("point-box", np.concatenate([u, 1 - u])))
        pool.append(("whole-cube", np.zeros(2 * d)))
        requests = [("default", None), ("0", 0), ("0", np.int64(0)), ("d", d), ("d", np.int64(d))]
        if d > 1:
            requests.append(("interior", r.randint(1, d - 1)))
        for kind, w in pool:
            for ncls, n in requests:
                n_eff = d if n is None else int(n)
                want = box_of_weight(w, n_eff)
                forms = [("keyword", lambda: get_bounding_box(w, n=n))]
                if n is None:
                    forms.append(("omitted", lambda: get_bounding_box(w)))
                else:
                    forms.append(("positional", lambda: get_bounding_box(w, n)))
                for form, call in forms:
                    w0 = w.copy()
                    rep = {"class": "FuzzyART", "entry": "get_bounding_box", "w": w0, "n": None if n is None else int(n),
                           "n_type": type(n).__name__, "form": form, "weight": kind, "expected": want}
                    try:
                        with quiet():
                            got = call()
                    except Exception as e:
                        ctx.issue("violation", f"FuzzyART.get_bounding_box:n={ncls}:{exc_enum(e)}",
                                  f"get_bounding_box(w, n={n!r}) ({form}) raised {e!r} on the admissible request 0 <= n <= d = {d}", rep)
                        continue
                    check_box(ctx, "get_bounding_box", ncls, n, n_eff, d, w0, got, want, rep)
                    if not np.array_equal(w, w0):
                        ctx.issue("violation", "FuzzyART.get_bounding_box:mutates-arguments", "w changed by the accessor", rep)
                    cov.case(("FuzzyART.get_bounding_box", w0.tolist(), None if n is None else int(n), form), kind == "reached")
                cov.hit(f"bbox-edge:n={ncls}:{kind}")
                if isinstance(n, np.integer):
                    cov.hit(f"bbox-edge:n={ncls}:numpy-integer")
        # estimator-level accessor on the model as trained
        W0 = [np.array(w_, dtype=float).copy() for w_ in m.W]
        for ncls, n in requests:
            n_eff = d if n is None else int(n)
            snap0 = full_snapshot(m)
            rep = {"class": "FuzzyART", "entry": "get_bounding_boxes", "spec": spec, "X": X, "W": W0,
                   "n": None if n is None else int(n), "n_type": type(n).__name__}
            try:
                with quiet():
                    boxes = m.get_bounding_boxes() if n is None else m.get_bounding_boxes(n=n)
            except Exception as e:
                ctx.issue("violation", f"FuzzyART.get_bounding_boxes:n={ncls}:{exc_enum(e)}",
                          f"get_bounding_boxes(n={n!r}) raised {e!r} on a model with {len(W0)} categories of dimension {d}", rep)
                continue
            if not isinstance(boxes, list) or len(boxes) != len(W0):
                ctx.issue("violation", f"FuzzyART.get_bounding_boxes:n={ncls}:one-box-per-category",
                          f"{len(W0)} categories, returned {boxes!r}", rep)
                continue
            for j, (w_, got) in enumerate(zip(W0, boxes)):
                want = box_of_weight(w_, n_eff)
                check_box(ctx, "get_bounding_boxes", ncls, n, n_eff, d, w_, got, want, dict(rep, category=j, w=w_, expected=want))
            if not eq_snap(full_snapshot(m), snap0):
                ctx.issue("violation", "FuzzyART.get_bounding_boxes:mutates-model", "model state changed by the accessor", rep)
            cov.hit(f"bboxes-edge:n={ncls}:{len(W0) > 1 and 'several-categories' or 'one-category'}")
        # shrink_clusters at the ends of the ratio range
        if W0:
            ratio = [0.0, 0.5][i % 2]
            with quiet():
                m.shrink_clusters(ratio)
            for w_old, w_new in zip(W0, m.W):
                w_new = np.asarray(w_new, dtype=float)
                lo, hi = w_old[:d], 1 - w_old[d:]
                lo2, hi2 = w_new[:d], 1 - w_new[d:]
                ok = (np.allclose((lo + hi) / 2, (lo2 + hi2) / 2, rtol=0, atol=1e-12) and np.all(lo2 >= lo - 1e-12)
                      and np.all(hi2 <= hi + 1e-12) and np.all(lo2 <= hi2 + 1e-12))
                if ratio == 0.0:
                    ok = ok and np.allclose(w_new, w_old, rtol=0, atol=1e-12)
                else:
                    ok = ok and np.allclose(lo2, hi2, rtol=0, atol=1e-12)
                if not ok:
                    ctx.issue("violation", f"FuzzyART.shrink_clusters:ratio={ratio}:geometry",
                              f"old {w_old.tolist()} new {w_new.tolist()}", {"w": w_old, "ratio": ratio, "new": w_new})
            cov.hit(f"shrink-edge:ratio={ratio}")


def check_box(ctx, entry, ncls, n, n_eff, d, w, got, want, rep):
    """the returned box has exactly n_eff coordinates and they are those of the stored weight"""
    try:
        ref, wid = got
        ref = [float(a) for a in ref]
        wid = [float(a) for a in wid]
    except Exception:
        ctx.issue("violation", f"FuzzyART.{entry}:n={ncls}:shape", f"returned {got!r}, not a (reference point, widths) pair", rep)
        return
    rep = dict(rep, returned=(ref, wid))
    if len(ref) != n_eff or len(wid) != n_eff:
        ctx.issue("violation", f"FuzzyART.{entry}:n={ncls}:wrong-number-of-dimensions",
                  f"{entry}(n={n!r}) on the weight {np.asarray(w).tolist()} (d = {d}) returned a box of {len(ref)} reference / "
                  f"{len(wid)} width coordinates; {n_eff} were requested: expected {want!r}, got {(ref, wid)!r}", rep)
    elif not (all(close(a, b) for a, b in zip(ref, want[0])) and all(close(a, b) for a, b in zip(wid, want[1]))):
        ctx.issue("violation", f"FuzzyART.{entry}:n={ncls}:disagrees-with-weight",
                  f"{entry}(n={n!r}) on the weight {np.asarray(w).tolist()} returned {(ref, wid)!r}; the stored box is {want!r}", rep)


# ---------------------------------------------------------------- published equations of the other modules


def other_modules(ctx):
    cov = ctx.cov
    N = ctx.scale(120, 3000)
    for i in range(N):
        r = gen.rng_for(ctx.seed, "C03-o", i)
        cls = ["EllipsoidART", "GaussianART", "BayesianART", "QuadraticNeuronART", "HypersphereART", "FuzzyART", "ART1", "ART2A"][i % 8]
        d = r.randint(1, 3)
        spec = specs.elem_spec(r, cls, d)
        if cls == "BayesianART" and r.random() < 0.3:
            # a covariance whose determinant is below machine epsilon (tight clusters in moderate dimension)
            d = r.randint(3, 6)
            spec = specs.elem_spec(r, cls, d)
            spec["cov_init"] = (np.eye(d) * 2.0 ** -18).tolist()
            spec["rho"] = 2.0
            cov.hit("bayes:det-below-eps")
        m = make(spec)
        X = specs.elem_data(r, cls, 10, d, floats=r.random() < 0.5 and cls != "ART1")
        try:
            with quiet():
                m.fit(X)
        except Exception as e:
            cov.hit(f"train-raised:{cls}:{exc_enum(e)}")
            continue
        p = m.params
        for j in range(4):
            w = np.array(m.W[r.randrange(len(m.W))], dtype=float)
            x = X[r.randrange(len(X))].copy() if r.random() < 0.7 else specs.elem_data(r, cls, 1, d)[0]
            if cls == "ART2A" and r.random() < 0.4:
                # exact tie between the activation and the uncommitted-node activation alpha*sum(x):
                # alpha = 0 with a template orthogonal to the sample
                w = np.zeros_like(w)
                w[r.randrange(len(w))] = 1.0
                x = np.array([0.0 if t == 1.0 else 0.5 for t in w])
                if not x.any():
                    x = None
                else:
                    p = dict(p, alpha=0.0)
            if x is None:
                continue
            x0, w0 = x.copy(), w.copy()
            rep = {"class": cls, "spec": spec, "x": x, "w": w, "params": {k: v for k, v in p.items() if not hasattr(v, "shape")}}
            try:
                with quiet():
                    T, cache = m.category_choice(x, w, params=p)
                    M, cache2 = m.match_criterion(x, w, params=p, cache=cache)
                    wu = np.asarray(m.update(x, w, p, cache=cache2), dtype=float)
            except ZeroDivisionError:
                # (x, w) pair on which the published rule itself divides by zero (e.g. ART1 with L = 1 and a
                # template disjoint from x): outside the kernels' domain, unreachable by training (C04)
                cov.hit(f"zerodiv-outside-domain:{cls}")
                continue
            except Exception as e:
                ctx.issue("violation", f"{cls}.kernel:{exc_enum(e)}", f"kernel call raised {e!r}", rep)
                continue
            if not (np.array_equal(x, x0) and np.array_equal(w, w0)):
                ctx.issue("violation", f"{cls}.kernel:mutates-arguments", "x or w changed by a kernel call", rep)
            try:
                with np.errstate(all="ignore"):
                    Tr, Mr, wr = reference(cls, p, d, x, w, [w_[-1] for w_ in m.W])
            except Exception as e:
                cov.hit(f"reference-raised:{cls}:{exc_enum(e)}")
                continue
            tol = 1e-9
            if not (abs(T - Tr) <= tol * (1 + abs(Tr)) and abs(M - Mr) <= tol * (1 + abs(Mr))
                    and wu.shape == wr.shape and np.allclose(wu, wr, rtol=tol, atol=tol, equal_nan=True)):
                ctx.issue("violation", f"{cls}.kernel:differs-from-published-rule",
                          f"T {T} vs {Tr}; M {M} vs {Mr}; update {wu.tolist()} vs {wr.tolist()}", rep)
            # the kernels compute with the hyper-parameters they are GIVEN (TopoART passes beta_lower, SMART and the
            # vigilance searches pass modified copies), not with the estimator's own
            alt = dict(p)
            for key_, vals_ in (("beta", [0.0, 0.25, 0.5, 1.0]), ("alpha", [2.0 ** -10, 0.125, 0.5]), ("r_hat", [1.5, 3.0, 8.0]),
                                ("mu", [0.5, 0.75, 1.0]), ("L", [2.0, 3.0]), ("lr_b", [0.125, 0.75]), ("lr_w", [0.25]), ("lr_s", [0.25])):
                if key_ in alt:
                    alt[key_] = r.choice([v_ for v_ in vals_ if v_ != p[key_]] or vals_)
            try:
                with quiet(), np.errstate(all="ignore"):
                    Ta, cache_a = m.category_choice(x, w, params=alt)
                    Ma, cache_a2 = m.match_criterion(x, w, params=alt, cache=cache_a)
                    wua = np.asarray(m.update(x, w, alt, cache=cache_a2), dtype=float)
                    Tra, Mra, wra = reference(cls, alt, d, x, w, [w_[-1] for w_ in m.W])
                if not (abs(Ta - Tra) <= tol * (1 + abs(Tra)) and abs(Ma - Mra) <= tol * (1 + abs(Mra))
                        and wua.shape == wra.shape and np.allclose(wua, wra, rtol=tol, atol=tol, equal_nan=True)):
                    ctx.issue("violation", f"{cls}.kernel:ignores-the-params-argument",
                              f"called with params {({k_: alt[k_] for k_ in alt if not hasattr(alt[k_], 'shape') and alt[k_] != p.get(k_)})} "
                              f"on an estimator built with other values: T {Ta} vs {Tra}; M {Ma} vs {Mra}; update {wua.tolist()} vs {wra.tolist()}",
                              dict(rep, params_passed={k_: v_ for k_, v_ in alt.items() if not hasattr(v_, "shape")}))
                cov.hit(f"alternate-params:{cls}")
            except ZeroDivisionError:
                cov.hit(f"alternate-params:zerodiv:{cls}")
            except Exception as e:
                cov.hit(f"alternate-params:raised:{cls}:{exc_enum(e)}")
            # the binary test thresholds M against rho with the operator of the selected mode, also when
            # M == rho exactly (BayesianART compares the other way round: rho >= M)
            Mf = float(M)
            for rho_t in (p["rho"], Mf, float(np.nextafter(Mf, np.inf)), float(np.nextafter(Mf, -np.inf))):
                pt = dict(p, rho=rho_t)
                for mode in MODES:
                    op = m._match_tracking_operator(mode)
                    with quiet():
                        mb, _ = m.match_criterion_bin(x, w, params=pt, cache=dict(cache2) if cache2 else cache2, op=op)
                    strict = mode not in ("MT+", "MT-", "MT1")
                    if cls == "BayesianART":
                        want = (rho_t > Mf) if strict else (rho_t >= Mf)
                    else:
                        want = (Mf > rho_t) if strict else (Mf >= rho_t)
                    if bool(mb) != bool(want):
                        ctx.issue("violation", f"{cls}.match_criterion_bin:{mode}",
                                  f"M={Mf!r} rho={rho_t!r} mode {mode}: got {bool(mb)}, the rule gives {bool(want)}", dict(rep, rho=rho_t))
                if rho_t == Mf:
                    cov.hit(f"match-equals-threshold:{cls}")
            cov.case((cls, spec, x.tolist(), w.tolist()), True)
            cov.hit(f"published-rule:{cls}")


def reference(cls, p, d, x, w, counts):
    if cls == "FuzzyART":
        mn = np.minimum(x, w)
        return mn.sum() / (p["alpha"] + w.sum()), mn.sum() / (len(x) // 2), p["beta"] * mn + (1 - p["beta"]) * w
    if cls == "ART1":
        bu, td = w[:d], w[d:]
        t2 = np.logical_and(x, td).astype(float)
        return float(x @ bu), t2.sum() / x.sum(), np.concatenate([p["L"] / (p["L"] - 1 + t2.sum()) * t2, t2])
    if cls == "ART2A":
        T = float(x @ w)
        # a committed node is suppressed only when the uncommitted-node activation alpha*sum(x) is strictly higher
        M = -1.0 if T < p["alpha"] * x.sum() else T
        return T, M, p["beta"] * x + (1 - p["beta"]) * w
    if cls == "HypersphereART":
        c, R = w[:-1], w[-1]
        dist = np.sqrt((x - c) @ (x - c))
        T = (p["r_hat"] - max(R, dist)) / (p["r_hat"] - R + p["alpha"])
        M = 1 - max(R, dist) / p["r_hat"]
        Rn = R + p["beta"] / 2 * (max(R, dist) - R)
        cn = c + p["beta"] / 2 * (x - c) * ((1 - min(R, dist) / dist) if dist > 0 else 0.0)
        return T, M, np.concatenate([cn, [Rn]])
    if cls == "EllipsoidART":
        c, ax, R = w[:d], w[d:-1], w[-1]
        diff = x - c
        if ax.any():
            dist = 1 / p["mu"] * np.sqrt(diff @ diff - (1 - p["mu"] ** 2) * (ax @ diff) ** 2)
        else:
            dist = np.sqrt(diff @ diff)
        T = (p["r_hat"] - R - max(R, dist)) / (p["r_hat"] - 2 * R + p["alpha"])
        M = 1 - (R + max(R, dist)) / p["r_hat"]
        Rn = R + p["beta"] / 2 * (max(R, dist) - R)
        cn = c + p["beta"] / 2 * diff * ((1 - min(R, dist) / dist) if dist > 0 else 0.0)
        off = x - cn
        nrm = np.sqrt(off @ off)
        axn = off / nrm if (R != 0.0 and nrm > 0) else ax
        return T, M, np.concatenate([cn, axn, [Rn]])
    if cls == "GaussianART":
        mean, sig, inv, sqd, n = w[:d], w[d:2 * d], w[2 * d:3 * d], w[-2], w[-1]
        dist = mean - x
        e = np.exp(-0.5 * np.sum(dist * inv * dist))
        T = e / (p["alpha"] + sqd) * (n / sum(counts))
        n2 = n + 1
        mean2 = (1 - 1 / n2) * mean + x / n2
        sig2 = np.sqrt((1 - 1 / n2) * sig * sig + (mean2 - x) ** 2 / n2)
        s2 = sig2 * sig2
        return T, e, np.concatenate([mean2, sig2, 1 / s2, [np.sqrt(np.prod(s2))], [n2]])
    if cls == "BayesianART":
        mean, cov, n = w[:d], w[d:-1].reshape(d, d), w[-1]
        dist = mean - x
        e = np.exp(-0.5 * dist @ np.linalg.inv(cov) @ dist)
        T = e / np.sqrt((2 * np.pi) ** d * np.linalg.det(cov)) * (n / sum(counts))
        n2 = n + 1
        mean2 = (1 - 1 / n2) * mean + x / n2
        dm = x - mean2
        cov2 = n / n2 * cov + np.outer(dm, dm) / n2
        return T, np.linalg.det(cov2), np.concatenate([mean2, cov2.ravel(), [n2]])
    if cls == "QuadraticNeuronART":
        Wm, b, s = w[:d * d].reshape(d, d), w[d * d:-1], w[-1]
        z = Wm @ x
        l2 = (z - b) @ (z - b)
        T = np.exp(-s * s * l2)
        # gradient step on T = exp(-s^2 |Wx - b|^2):  dT/db = 2 s^2 T (z-b); dT/dW = -2 s^2 T (z-b) x^T; dT/ds = -2 s T l2
        bn = b + p["lr_b"] * (2 * s * s * T * (z - b))
        Wn = Wm + p["lr_w"] * (-2 * s * s * T * np.outer(z - b, x))
        sn = s + p["lr_s"] * (-2 * s * T * l2)
        return T, T, np.concatenate([Wn.ravel(), bn, [sn]])
    raise KeyError(cls)


def integer_typed_params(ctx):
    """the published equations are over the reals: array-valued hyper-parameters handed over with an integer dtype
    (sigma_init=np.array([2, 1]), cov_init=np.eye(d, dtype=int); scalars must be floats, validate_params rejects
    ints) must give the values of the same numbers handed over as floats — new_weight and a whole training run"""
    import artlib
    cov = ctx.cov
    for i in range(ctx.scale(40, 800)):
        r = gen.rng_for(ctx.seed, "C03-int", i)
        cls = ["GaussianART", "BayesianART"][i % 2]
        d = r.randint(1, 3)
        spec = specs.elem_spec(r, cls, d)
        dt = r.choice([np.int64, np.int32, np.uint8])
        if cls == "GaussianART":
            sig = [r.choice([1, 2, 3]) for _ in range(d)]
            kw_f = dict(rho=spec["rho"], alpha=spec["alpha"], sigma_init=np.array(sig, dtype=float))
            kw_i = dict(kw_f, sigma_init=np.array(sig, dtype=dt))
        else:
            sc = r.choice([1, 2])
            kw_f = dict(rho=spec["rho"], cov_init=np.eye(d) * sc)
            kw_i = dict(kw_f, cov_init=(np.eye(d) * sc).astype(dt))
        X = specs.elem_data(r, cls, r.randint(4, 12), d, floats=r.random() < 0.5)
        X = np.vstack([X, X[:2]])
        rep = {"class": cls, "kwargs_float": {k: (v.tolist() if hasattr(v, "tolist") else v) for k, v in kw_f.items()},
               "integer_dtype": np.dtype(dt).name, "X": X.tolist()}
        C = getattr(artlib, cls)
        try:
            with quiet(), np.errstate(all="ignore"):
                mf = C(**kw_f)
                mf.fit(X)
        except Exception as e:
            cov.hit(f"int-params:float-twin-raised:{cls}:{exc_enum(e)}")
            continue
        try:
            with quiet(), np.errstate(all="ignore"):
                mi = C(**kw_i)
        except AssertionError:
            cov.hit(f"int-params:rejected-by-validate_params:{cls}")
            continue
        try:
            with quiet(), np.errstate(all="ignore"):
                mi.fit(X)
                wn_f = np.asarray(mf.new_weight(X[0], mf.params), dtype=float)
                wn_i = np.asarray(mi.new_weight(X[0], mi.params), dtype=float)
        except Exception as e:
            ctx.issue("violation", f"{cls}:integer-typed-hyper-parameters:{exc_enum(e)}",
                      f"training with an integer-typed array hyper-parameter raised {e!r}; the same values as floats train fine", rep)
            continue
        same = (len(mf.W) == len(mi.W) and np.array_equal(mf.labels_, mi.labels_)
                and all(np.allclose(np.asarray(a, dtype=float), np.asarray(b, dtype=float), rtol=1e-12, atol=1e-12, equal_nan=True)
                        for a, b in zip(mf.W, mi.W))
                and np.allclose(wn_f, wn_i, rtol=1e-12, atol=1e-12, equal_nan=True))
        if not same:
            ctx.issue("violation", f"{cls}:integer-typed-hyper-parameters",
                      f"{'sigma_init' if cls == 'GaussianART' else 'cov_init'} given with dtype {np.dtype(dt).name} gives other weights/labels than the "
                      f"same values given as floats: new_weight {wn_i.tolist()} vs {wn_f.tolist()}; "
                      f"labels {np.asarray(mi.labels_).tolist()} vs {np.asarray(mf.labels_).tolist()}", rep)
        cov.case(("int", cls, rep["kwargs_float"], rep["X"], rep["integer_dtype"]), True)
        cov.hit(f"integer-typed-params:{cls}")


# ---------------------------------------------------------------- the value does not depend on the process-wide numeric policy


POLICIES = ("errstate-raise", "warnings-as-errors", "plain-float-cache")
UNDEFINED = (FloatingPointError, ZeroDivisionError, RuntimeWarning, np.linalg.LinAlgError)


@contextlib.contextmanager
def numeric_policy(name):
    """a numeric policy the host process may legitimately run the library under.  Only division by zero and invalid
    operations are made strict: exp() in the Gaussian / Bayesian / quadratic-neuron kernels legitimately underflows
    (and 1/sigma^2 may overflow) on the unchanged tree, so underflow / overflow stay silent."""
    with quiet():
        if name == "errstate-raise":
            with np.errstate(divide="raise", invalid="raise", over="ignore", under="ignore"):
                yield
        elif name == "warnings-as-errors":
            with np.errstate(divide="warn", invalid="warn", over="ignore", under="ignore"), warnings.catch_warnings():
                warnings.simplefilter("error", RuntimeWarning)
                yield
        else:
            with np.errstate(divide="warn", invalid="warn", over="ignore", under="ignore"):
                yield


def plain_cache(cache):
    """the same cache with every numpy scalar replaced by the Python float of the same value (what a cache looks like
    after float(), .item(), .tolist() or a JSON / pickle-free round trip); arrays and other entries are kept"""
    if cache is None:
        return None
    return {k: (float(v) if isinstance(v, np.floating) or (isinstance(v, np.ndarray) and v.ndim == 0 and v.dtype.kind == "f") else v)
            for k, v in cache.items()}


def centre_sample(cls, w, d):
    """the sample lying exactly on the centre of the category w (None where the class has no such notion)"""
    if cls == "FuzzyART":
        return np.concatenate([w[:d], 1 - w[:d]])
    if cls in ("HypersphereART", "EllipsoidART", "GaussianART", "BayesianART"):
        return np.array(w[:d], dtype=float)
    if cls == "ART1":
        return np.array(w[d:], dtype=float)
    if cls == "ART2A":
        return np.array(w, dtype=float)
    return None


def kernel_chain(m, x, w, p, cache_map=None):
    """category_choice -> match_criterion -> update -> new_weight with the cache handed on as BaseART does;
    returns the values, or (function name, exception) of the first call that raised"""
    fn = "category_choice"
    try:
        T, cache = m.category_choice(x, w, params=p)
        if cache_map is not None:
            cache = cache_map(cache)
        fn = "match_criterion"
        M, cache2 = m.match_criterion(x, w, params=p, cache=cache)
        if cache_map is not None:
            cache2 = cache_map(cache2)
        fn = "update"
        wu = np.asarray(m.update(x, w, p, cache=cache2), dtype=float)
        fn = "new_weight"
        wn = np.asarray(m.new_weight(x, p), dtype=float)
    except Exception as e:      # noqa: BLE001 -- whatever came out is what is reported
        return None, (fn, e)
    return (float(T), float(M), wu, wn), None


def numeric_policies(ctx):
    """Oracle (implementation alone): the published equations have the sample, the weight and the hyper-parameters as
    their only arguments -- not the floating-point error policy of the process and not the Python type that carries a
    cached number.  On the boundary inputs of the quantifier (sample exactly on a category centre, zero radius /
    freshly created category, duplicated rows) and wherever the published rule itself is defined (evaluated with
    numpy under divide/invalid = raise it returns finite numbers), every kernel called
      * under np.errstate(divide='raise', invalid='raise'),
      * with RuntimeWarning turned into an error (python -W error::RuntimeWarning, pytest -W error),
      * with a cache whose numpy scalars were replaced by equal Python floats
    returns the value it returns under the default policy, leaves its arguments alone and does not raise."""
    cov = ctx.cov
    CL = ["HypersphereART", "EllipsoidART", "FuzzyART", "GaussianART", "ART2A", "BayesianART", "ART1", "QuadraticNeuronART"]
    for i in range(ctx.scale(64, 1600)):
        r = gen.rng_for(ctx.seed, "C03-pol", i)
        cls = CL[i % 8]
        d = r.randint(1, 3)
        spec = specs.elem_spec(r, cls, d)
        X = specs.elem_data(r, cls, r.randint(4, 8), d, floats=r.random() < 0.4 and cls != "ART1")
        X = np.vstack([X, X[:r.randint(1, 3)]])          # duplicated rows: the second copy falls on an existing centre
        m = make(spec)
        try:
            with quiet():
                m.fit(X)
        except Exception as e:
            cov.hit(f"policy:train-raised:{cls}:{exc_enum(e)}")
            continue
        p = m.params
        pairs = []
        for j in range(5):
            kind = ["centre-of-trained", "duplicate-on-fresh", "other-on-fresh", "data-on-trained", "centre-of-trained"][j]
            x_row = X[r.randrange(len(X))].copy()
            if kind in ("duplicate-on-fresh", "other-on-fresh"):
                # zero radius / zero extent: the category as created from one sample, then the same sample again
                # (a duplicate) or another one
                with quiet():
                    w = np.array(m.new_weight(x_row, p), dtype=float)
                x = x_row.copy() if kind == "duplicate-on-fresh" else X[r.randrange(len(X))].copy()
            else:
                w = np.array(m.W[r.randrange(len(m.W))], dtype=float)
                x = centre_sample(cls, w, d) if kind == "centre-of-trained" else x_row
                if x is None:
                    x, kind = x_row, "data-on-trained"
            pairs.append((kind, x, w))
        for kind, x, w in pairs:
            x0, w0 = x.copy(), w.copy()
            # is the published rule defined here?  (e.g. ART1 with an all-zero sample, alpha = 0 with a zero weight, a
            # Gaussian category of zero variance divide by zero in the equations themselves)
            try:
                with np.errstate(divide="raise", invalid="raise", over="ignore", under="ignore"), warnings.catch_warnings():
                    warnings.simplefilter("error", RuntimeWarning)
                    Tr, Mr, wr = reference(cls, p, d, x, w, [w_[-1] for w_ in m.W])
                defined = bool(np.isfinite(Tr) and np.isfinite(Mr) and np.all(np.isfinite(wr)))
            except UNDEFINED:
                defined = False
            if not defined:
                cov.hit(f"policy:published-rule-undefined:{cls}")
                continue
            with numeric_policy("default"):
                base, err = kernel_chain(m, x, w, p)
            if err is not None or not (np.isfinite(base[0]) and np.isfinite(base[1]) and np.all(np.isfinite(base[2]))
                                       and np.all(np.isfinite(base[3]))):
                # reported (or classified) by the oracles above; nothing to compare a policy with
                cov.hit(f"policy:default-run-undefined:{cls}")
                continue
            if cls in ("HypersphereART", "EllipsoidART"):
                dist = float(np.sqrt(np.sum((x - w[:d]) ** 2)))
                cov.hit(f"policy:{'on-centre' if dist == 0.0 else 'off-centre'}:{'zero-radius' if w[-1] == 0.0 else 'positive-radius'}")
            for pol in POLICIES:
                rep = {"class": cls, "spec": spec, "X": X, "x": x0, "w": w0, "situation": kind, "policy": pol,
                       "policy_is": {"errstate-raise": "np.errstate(divide='raise', invalid='raise')",
                                     "warnings-as-errors": "warnings.simplefilter('error', RuntimeWarning)",
                                     "plain-float-cache": "numpy scalars of the cache replaced by equal Python floats"}[pol],
                       "default_policy_values": {"T": base[0], "M": base[1], "update": base[2], "new_weight": base[3]},
                       "params": {k: v for k, v in p.items() if not hasattr(v, "shape")}}
                with numeric_policy(pol):
                    got, err = kernel_chain(m, x, w, p, cache_map=plain_cache if pol == "plain-float-cache" else None)
                if err is not None:
                    fn, e = err
                    ctx.issue("violation", f"{cls}.{fn}:raises-under-numeric-policy:{pol}:{exc_enum(e)}",
                              f"{fn} raised {e!r} under the policy [{rep['policy_is']}] on x = {x0.tolist()}, w = {w0.tolist()} "
                              f"({kind}); the published rule is defined there and under the default policy the kernels return "
                              f"T = {base[0]!r}, M = {base[1]!r}, update = {base[2].tolist()}", dict(rep, raised_in=fn, raised=repr(e)))
                    continue
                same = (close(got[0], base[0]) and close(got[1], base[1]) and got[2].shape == base[2].shape
                        and got[3].shape == base[3].shape
                        and np.allclose(got[2], base[2], rtol=1e-12, atol=1e-12) and np.allclose(got[3], base[3], rtol=1e-12, atol=1e-12))
                if not same:
                    ctx.issue("violation", f"{cls}.kernel:value-depends-on-numeric-policy:{pol}",
                              f"under [{rep['policy_is']}] T, M, update, new_weight = {got[0]!r}, {got[1]!r}, {got[2].tolist()}, "
                              f"{got[3].tolist()}; under the default policy {base[0]!r}, {base[1]!r}, {base[2].tolist()}, {base[3].tolist()}",
                              dict(rep, values={"T": got[0], "M": got[1], "update": got[2], "new_weight": got[3]}))
                if not (np.array_equal(x, x0) and np.array_equal(w, w0)):
                    ctx.issue("violation", f"{cls}.kernel:mutates-arguments:{pol}", "x or w changed by a kernel call", rep)
                cov.hit(f"policy:{pol}:{cls}")
                cov.hit(f"policy:{pol}:{kind}")
            cov.case(("policy", cls, spec, x0.tolist(), w0.tolist()), True)


# ---------------------------------------------------------------- Fuzzy ART match on samples that are complement coded only up to rounding / tolerance


def q_min_sum(x, w):
    """|x ^ w| over Q, on the very floats handed to the kernel"""
    return sum((min(Fraction(float(a)), Fraction(float(b))) for a, b in zip(x, w)), Fraction(0))


def sums_without_rounding(x, w):
    """every component of x ^ w is a multiple of 2^-30 in [0, 1]: whatever the order of summation, every partial sum
    of at most 2^20 such numbers is a double, so a floating-point |x ^ w| involves no rounding at all"""
    return all(Fraction(min(float(a), float(b))).denominator <= 2 ** 30 for a, b in zip(x, w))


def is_double(q):
    try:
        return Fraction(float(q)) == q
    except OverflowError:
        return False


def grid_box(r, d, g):
    lo = [Fraction(r.randint(0, g), g) for _ in range(d)]
    hi = [min(Fraction(1), l + Fraction(r.choice([0, 1, 2, 3, 4, r.randint(0, g)]), g)) for l in lo]
    return lo, hi


def box_weight(lo, hi):
    return np.array([float(a) for a in lo] + [float(1 - b) for b in hi])


def inexact_sample(r, lo, hi, kind):
    """a sample inside the box [lo, hi] that validate_data accepts although its 2d entries do not add up to d:
    'cc-float'  -- (u, 1 - u) with u an arbitrary double: 1 - u is rounded, the row sum is d up to a few ulps;
    'cc-above' / 'cc-below' -- the second half moved by up to 0.008 in total (validate_data tolerates 0.01), still
    inside the box, i.e. x ^ w = w"""
    d = len(lo)
    u = np.array([min(max(float(l) + float(h - l) * r.random(), float(l)), float(h)) for l, h in zip(lo, hi)])
    c = 1.0 - u
    if kind != "cc-float":
        e = np.array([r.random() for _ in range(d)])
        e = e / e.sum() * 0.008 * r.random()
        if kind == "cc-above":
            c = np.minimum(1.0, c + e)
        else:
            c = np.maximum(np.array([float(1 - h) for h in hi]), c - e)
    return np.concatenate([u, c])


def outside_sample(r, d, kind):
    u = np.array([r.random() for _ in range(d)])
    c = 1.0 - u
    if kind != "cc-float":
        e = np.array([r.random() for _ in range(d)])
        e = e / e.sum() * 0.008 * r.random()
        c = np.clip(c + e if kind == "cc-above" else c - e, 0.0, 1.0)
    return np.concatenate([u, c])


GE_MODES = ("MT+", "MT-", "MT1")


def inexact_complement_coding(ctx):
    """Oracle (implementation alone, exact rational arithmetic on the float inputs): M = |x ^ w| / d with d the ORIGINAL
    dimension -- not |x|, which equals d only for an exactly complement-coded row.  validate_data accepts rows whose two
    halves add up to 1 within 0.01, and even (u, 1 - u) computed in floating point sums to d only up to a few ulps for
    d >= 2.  Situation: a category box with corners on a dyadic grid (learnt from its two corners, or an arbitrary
    well-formed weight), rho equal to the representable number |w| / d, samples INSIDE the box (x ^ w = w, so the
    floating-point |x ^ w| involves no rounding and M is |w| / d rounded once -- here not rounded at all):
      * match_criterion returns exactly that double; with rho = M the operator >= accepts and > rejects, with rho one
        ulp above / below every mode rejects / accepts; arguments and model are left alone;
      * whole partial_fit histories under a >= mode absorb every such sample into its own box (no new category, weights
        bitwise unchanged, beta = 1); under a > mode the tie is rejected and the sample founds a new category;
      * samples outside the box (rounding may occur in the sum): M within 1e-12 of the exact value, binary test as the
        exact comparison says whenever the exact value is not within 1e-9 of rho."""
    from copy import deepcopy
    cov = ctx.cov
    for i in range(ctx.scale(48, 1200)):
        r = gen.rng_for(ctx.seed, "C03-icc", i)
        d = [2, 3, 4, 3, 2, 4, 5, 1][i % 8]
        g = r.choice([4, 8, 16, 16, 32])
        for _ in range(200):
            lo, hi = grid_box(r, d, g)
            S = sum(lo, Fraction(0)) + sum((1 - h for h in hi), Fraction(0))
            if is_double(S / d):
                break
        else:
            cov.hit("icc:no-representable-tie-found")
            continue
        tie = S / d
        rho = float(tie)
        alpha = r.choice([2.0 ** -10, 0.25, 1e-3] + ([0.0] if S > 0 else []))
        spec = {"cls": "FuzzyART", "rho": rho, "alpha": alpha, "beta": 1.0}
        boxes = [(lo, hi)]
        # a second, disjoint box of the same size (a translate), when there is room for one
        if r.random() < 0.5:
            for _ in range(30):
                lo2 = [Fraction(r.randint(0, int((1 - (h - l)) * g)), g) for l, h in zip(lo, hi)]
                hi2 = [a + (h - l) for a, l, h in zip(lo2, lo, hi)]
                if any(a > h or b < l for a, b, l, h in zip(lo2, hi2, lo, hi)):
                    boxes.append((lo2, hi2))
                    break
        corners = np.array([[float(v) for v in pt] + [float(1 - v) for v in pt] for bx in boxes for pt in bx])
        Wwant = [box_weight(*bx) for bx in boxes]
        rep0 = {"class": "FuzzyART", "spec": spec, "d": d, "corners": corners, "boxes": [[[float(v) for v in lo_], [float(v) for v in hi_]] for lo_, hi_ in boxes],
                "rho_is": f"|w|/d = {S}/{d} = {tie}"}
        m = make(spec)
        mode_fit = r.choice(GE_MODES)
        try:
            with quiet():
                m.fit(corners, match_tracking=mode_fit)
        except Exception as e:
            ctx.issue("violation", f"FuzzyART.fit:box-from-two-corners:{exc_enum(e)}", f"fit on the corners of {len(boxes)} grid boxes raised {e!r}", rep0)
            continue
        if len(m.W) != len(boxes) or not all(np.array_equal(np.asarray(a, dtype=float), b) for a, b in zip(m.W, Wwant)) \
                or list(m.labels_) != [k for k in range(len(boxes)) for _ in (0, 1)]:
            # second corner: x ^ w = (lo, 1 - hi), M = |w|/d = rho exactly (all numbers on the grid), >= accepts, beta = 1
            ctx.issue("violation", f"FuzzyART.fit:box-from-two-corners:{mode_fit}",
                      f"fit(corners, match_tracking={mode_fit!r}) with rho = |box|/d = {rho!r} gave weights {[np.asarray(w_).tolist() for w_ in m.W]} labels "
                      f"{np.asarray(m.labels_).tolist()}; the published rules give one box per corner pair: {[w_.tolist() for w_ in Wwant]}",
                      dict(rep0, mode=mode_fit))
            continue
        cov.hit(f"icc:boxes={len(boxes)}")
        cov.hit(f"icc:d={d}")
        if rho in (0.0, 1.0):
            cov.hit(f"icc:rho={rho}")
        p = dict(m.params)
        # ---- kernel level: samples inside a box of the trained model / inside an arbitrary well-formed box
        samples, owner = [], []
        n_in = 10
        for j in range(n_in):
            b = r.randrange(len(boxes))
            kind = ["cc-float", "cc-float", "cc-above", "cc-below"][j % 4]
            x = inexact_sample(r, *boxes[b], kind)
            if kind == "cc-float" and float(np.sum(x)) == float(d):
                # prefer the rows whose floating-point sum is not d (about one in seven for d = 3)
                for _ in range(12):
                    x2 = inexact_sample(r, *boxes[b], kind)
                    if float(np.sum(x2)) != float(d):
                        x = x2
                        break
            samples.append((kind, x))
            owner.append(b)
        Xin = np.array([x for _, x in samples])
        try:
            with quiet():
                deepcopy(m).validate_data(Xin)
        except AssertionError as e:
            ctx.issue("diff", "icc:generator:validate_data-rejects", f"generated rows rejected by validate_data: {e!r}", dict(rep0, X=Xin))
            continue
        arb_lo, arb_hi = None, None
        for _ in range(200):
            arb_lo, arb_hi = grid_box(r, d, g)
            Sa = sum(arb_lo, Fraction(0)) + sum((1 - h for h in arb_hi), Fraction(0))
            if is_double(Sa / d):
                break
        cases = [("reached", Wwant[b], float(tie), kind, x) for (kind, x), b in zip(samples, owner)]
        if is_double(Sa / d):
            wa = box_weight(arb_lo, arb_hi)
            for kind in ("cc-float", "cc-above", "cc-below"):
                cases.append(("arbitrary", wa, float(Sa / d), kind, inexact_sample(r, arb_lo, arb_hi, kind)))
        snap0 = full_snapshot(m)
        for origin, w, rho_w, kind, x in cases:
            x0, w0 = x.copy(), w.copy()
            Mq = q_min_sum(x, w) / d
            exact_sum = sums_without_rounding(x, w)
            row = float(np.sum(x))
            sit = "row-sum-equals-d" if row == float(d) else ("row-sum-off-by-ulps" if abs(row - d) < 1e-9 else "row-sum-off-within-tolerance")
            rep = dict(rep0, x=x0, w=w0, weight=origin, sample=kind, row_sum=row, situation=sit, exact_match_value=str(Mq))
            try:
                with quiet():
                    M, _ = m.match_criterion(x, w, params=dict(p, rho=rho_w))
            except Exception as e:
                ctx.issue("violation", f"FuzzyART.match_criterion:inexact-complement-coding:{exc_enum(e)}", f"raised {e!r}", rep)
                continue
            M = float(M)
            if not (exact_sum and Mq == Fraction(rho_w)):
                ctx.issue("diff", "icc:generator:sample-not-inside-box", f"x ^ w != w for {x0.tolist()} / {w0.tolist()}", rep)
                continue
            cov.hit(f"icc:kernel:{sit}")
            cov.hit(f"icc:kernel:{kind}:{origin}")
            cov.case(("icc", x0.tolist(), w0.tolist()), row != float(d))
            if M != float(Mq):
                ctx.issue("violation", f"FuzzyART.match_criterion:inexact-complement-coding:{sit}:differs-from-|x^w|/d",
                          f"sample x = {x0.tolist()} (accepted by validate_data; its entries sum to {row!r}, d = {d}) lies inside the box "
                          f"w = {w0.tolist()}, so x ^ w = w and |x ^ w| / d = {Mq} = {float(Mq)!r} without any rounding; match_criterion returned {M!r}",
                          dict(rep, returned=M, expected=float(Mq)))
            for rho_t, rel in ((rho_w, "tie"), (float(np.nextafter(rho_w, np.inf)), "rho-one-ulp-above"), (float(np.nextafter(rho_w, -np.inf)), "rho-one-ulp-below")):
                if not 0.0 <= rho_t <= 1.0:
                    continue
                for mode in MODES:
                    op = m._match_tracking_operator(mode)
                    with quiet():
                        mb, _ = m.match_criterion_bin(x, w, params=dict(p, rho=rho_t), cache=None, op=op)
                    want = (Mq >= Fraction(rho_t)) if mode in GE_MODES else (Mq > Fraction(rho_t))
                    if bool(mb) != want:
                        ctx.issue("violation", f"FuzzyART.match_criterion_bin:inexact-complement-coding:{rel}:{mode}",
                                  f"x = {x0.tolist()} (row sum {row!r}) inside the box w = {w0.tolist()}: |x ^ w| / d = {Mq} exactly, rho = {rho_t!r} ({rel}), "
                                  f"mode {mode} (operator {'>=' if mode in GE_MODES else '>'}): the rule gives {want}, match_criterion_bin returned {bool(mb)}",
                                  dict(rep, rho=rho_t, mode=mode, returned=bool(mb), expected=want))
                cov.hit(f"icc:bin:{rel}")
            if not (np.array_equal(x, x0) and np.array_equal(w, w0)):
                ctx.issue("violation", "FuzzyART.kernel:mutates-arguments", "x or w changed by match_criterion / match_criterion_bin", rep)
        # ---- samples anywhere (the sum may be rounded): value to 1e-12, decision wherever rounding cannot matter
        for j in range(6):
            kind = ["cc-float", "cc-above", "cc-below"][j % 3]
            x = outside_sample(r, d, kind)
            w = Wwant[r.randrange(len(Wwant))]
            Mq = q_min_sum(x, w) / d
            row = float(np.sum(x))
            sit = "row-sum-equals-d" if row == float(d) else ("row-sum-off-by-ulps" if abs(row - d) < 1e-9 else "row-sum-off-within-tolerance")
            rep = dict(rep0, x=x.copy(), w=w.copy(), sample=kind, row_sum=row, situation=sit, exact_match_value=str(Mq))
            with quiet():
                M = float(m.match_criterion(x, w, params=p)[0])
            if not close(M, Mq):
                ctx.issue("violation", f"FuzzyART.match_criterion:inexact-complement-coding:{sit}:differs-from-|x^w|/d",
                          f"x = {x.tolist()} (row sum {float(np.sum(x))!r}, d = {d}), w = {w.tolist()}: |x ^ w| / d = {float(Mq)!r}, match_criterion returned {M!r}",
                          dict(rep, returned=M, expected=float(Mq)))
            if abs(Mq - tie) > Fraction(1, 10 ** 9):
                for mode in MODES:
                    with quiet():
                        mb, _ = m.match_criterion_bin(x, w, params=p, cache=None, op=m._match_tracking_operator(mode))
                    if bool(mb) != (Mq > tie):
                        ctx.issue("violation", f"FuzzyART.match_criterion_bin:inexact-complement-coding:away-from-tie:{mode}",
                                  f"|x ^ w| / d = {float(Mq)!r}, rho = {rho!r}: the rule gives {Mq > tie}, returned {bool(mb)}", dict(rep, mode=mode))
            cov.hit(f"icc:anywhere:{kind}")
        if not eq_snap(full_snapshot(m), snap0):
            ctx.issue("violation", "FuzzyART.kernel:mutates-model", "model state changed by match_criterion / match_criterion_bin", rep0)
        # ---- whole histories
        mode = r.choice(GE_MODES)
        parts = gen.compositions(r, len(Xin))
        h = deepcopy(m)
        rep = dict(rep0, X=Xin, owner=owner, batches=parts, mode=mode, sample_kinds=[k for k, _ in samples])
        try:
            with quiet():
                for B in gen.split(Xin, parts):
                    h.partial_fit(B, match_tracking=mode)
        except Exception as e:
            ctx.issue("violation", f"FuzzyART.partial_fit:inexact-complement-coding:{exc_enum(e)}", f"partial_fit raised {e!r}", rep)
        else:
            got = np.asarray(h.labels_)[len(corners):].tolist()
            if len(h.W) != len(boxes) or got != owner or not all(np.array_equal(np.asarray(a, dtype=float), b) for a, b in zip(h.W, Wwant)):
                bad = [k for k, (a, b) in enumerate(zip(got, owner)) if a != b]
                ctx.issue("violation", f"FuzzyART.partial_fit:interior-sample-on-exact-tie-not-absorbed:{mode}",
                          f"{len(boxes)} box(es) {[w_.tolist() for w_ in Wwant]}, rho = |w|/d = {rho!r}, mode {mode} (>=): every presented sample lies inside one box "
                          f"(x ^ w = w, M = rho exactly) and must be absorbed by it; labels {got} expected {owner}, {len(h.W)} categories afterwards"
                          + (f"; first sample not absorbed: {Xin[bad[0]].tolist()} (row sum {float(np.sum(Xin[bad[0]]))!r})" if bad else ""),
                          dict(rep, labels=got, n_categories=len(h.W)))
            cov.hit(f"icc:history:{mode}:batches={'one' if len(parts) == 1 else 'several'}")
            cov.traces += 1
        # strict operator: the exact tie is not a match, the sample founds a new category
        mode = r.choice([m_ for m_ in MODES if m_ not in GE_MODES])
        for k in r.sample(range(len(Xin)), 3):
            h = deepcopy(m)
            rep = dict(rep0, X=Xin[k:k + 1], owner=[owner[k]], mode=mode, sample_kinds=[samples[k][0]])
            try:
                with quiet():
                    h.partial_fit(Xin[k:k + 1], match_tracking=mode)
            except Exception as e:
                ctx.issue("violation", f"FuzzyART.partial_fit:inexact-complement-coding:{exc_enum(e)}", f"partial_fit raised {e!r}", rep)
                continue
            if int(h.labels_[-1]) != len(boxes) or len(h.W) != len(boxes) + 1 or not np.array_equal(np.asarray(h.W[-1], dtype=float), Xin[k]):
                ctx.issue("violation", f"FuzzyART.partial_fit:exact-tie-accepted-under-strict-operator:{mode}",
                          f"x = {Xin[k].tolist()} (row sum {float(np.sum(Xin[k]))!r}) inside the box {Wwant[owner[k]].tolist()}: M = |w|/d = rho = {rho!r} exactly, mode {mode} tests "
                          f"M > rho, so no existing category matches and a new one is founded; got label {int(h.labels_[-1])}, {len(h.W)} categories",
                          dict(rep, label=int(h.labels_[-1]), n_categories=len(h.W)))
            cov.hit(f"icc:history:{mode}:tie-rejected")
            cov.traces += 1


# ---------------------------------------------------------------- the binary match test with a comparison supplied by the caller


def _strict_with_margin(a, b, margin=0.0):
    """a caller-defined strict vigilance test (MT0-like, with a safety margin)"""
    return a > b + margin


def _inclusive_with_margin(a, b, margin=0.0):
    return a >= b + margin


class VigilanceTest:
    """a comparison that is an object with state (its slack), not a function"""

    def __init__(self, slack, strict):
        self.slack, self.strict = slack, strict

    def __call__(self, a, b):
        return a > b - self.slack if self.strict else a >= b - self.slack

    def accepts(self, a, b):
        return self(a, b)


def comparison_family(r):
    """(name, the callable handed to match_criterion_bin, the same relation written out independently).  The two
    singletons the library's own search passes are in the list as controls; everything else is what a custom host or
    user code may pass for the public parameter `op`: numpy ufuncs, fresh lambdas, functools.partial objects (also of
    operator.gt itself), the reversed comparisons, callable objects and bound methods."""
    mg = r.choice([2.0 ** -5, 2.0 ** -8, 0.05, -2.0 ** -5])
    sl = r.choice([0.0, 2.0 ** -6, 0.01])
    return [
        ("operator.ge", operator.ge, lambda a, b: a >= b),
        ("operator.gt", operator.gt, lambda a, b: a > b),
        ("operator.lt", operator.lt, lambda a, b: a < b),
        ("operator.le", operator.le, lambda a, b: a <= b),
        ("np.greater", np.greater, lambda a, b: a > b),
        ("np.greater_equal", np.greater_equal, lambda a, b: a >= b),
        ("np.less", np.less, lambda a, b: a < b),
        ("np.less_equal", np.less_equal, lambda a, b: a <= b),
        ("lambda-strict", lambda M, rho: M > rho, lambda a, b: a > b),
        ("lambda-inclusive", lambda M, rho: M >= rho, lambda a, b: a >= b),
        ("partial(operator.gt)", functools.partial(operator.gt), lambda a, b: a > b),
        ("partial-strict-margin=0", functools.partial(_strict_with_margin, margin=0.0), lambda a, b: a > b + 0.0),
        (f"partial-strict-margin={mg!r}", functools.partial(_strict_with_margin, margin=mg), lambda a, b: a > b + mg),
        (f"partial-inclusive-margin={mg!r}", functools.partial(_inclusive_with_margin, margin=mg), lambda a, b: a >= b + mg),
        (f"callable-object-strict-slack={sl!r}", VigilanceTest(sl, True), lambda a, b: a > b - sl),
        (f"bound-method-inclusive-slack={sl!r}", VigilanceTest(sl, False).accepts, lambda a, b: a >= b - sl),
    ], [mg, -sl]


def op_family_name(name):
    """stable part of an operator's name (signatures must not depend on the drawn margin)"""
    return name.split("=")[0]


def thresholds_for(M, rho0, ops_margin=()):
    """the configured vigilance, the boundary rho == M, one ulp either side of it, and the boundaries of the tests that
    carry a margin / slack (rho + margin == M up to rounding)"""
    out = [("configured", rho0)]
    Mf = float(M)
    if np.isfinite(Mf):
        out += [("rho==M", Mf), ("rho-one-ulp-above-M", float(np.nextafter(Mf, np.inf))), ("rho-one-ulp-below-M", float(np.nextafter(Mf, -np.inf)))]
        for mg in ops_margin:
            if mg != 0.0:
                out.append(("rho==M-margin", Mf - mg))
    return out


def caller_supplied_operator(ctx):
    """Oracle (implementation alone): `op` is a public parameter of match_criterion_bin -- the comparison of the selected
    mode is handed over by the caller, the library's own search being only one caller.  For EVERY comparison callable
    the binary match test is op(M, rho) with M the value of the class's own match_criterion on the same arguments
    (BayesianART thresholds the other way round: op(rho, M)), also at the boundary rho == M and one ulp either side;
    the flag recorded in the returned cache is the returned flag, the recorded match value is M; arguments and model
    are left alone.  Through the delegating hosts that forward `op`: TopoART(base).match_criterion_bin is the base
    module's test; FusionART.match_criterion_bin is the conjunction over the channels that are not skipped of
    op(M_k, rho_k), M_k / rho_k the k-th module's own match value / vigilance."""
    from copy import deepcopy
    cov = ctx.cov

    def battery(tag, host, cls_of, call, M_of, x, w, p_base, inverted, rep0, snap_of):
        """every operator x every threshold on one (sample, weight); `call(params, op, how)` runs the implementation's
        binary test, `M_of(params)` its own match value"""
        ops, margins = comparison_family(rep0["_r"])
        rep0 = {k: v for k, v in rep0.items() if k != "_r"}
        try:
            with quiet():
                M = M_of(p_base)
        except ZeroDivisionError:
            cov.hit(f"op:{tag}:zerodiv-outside-domain")
            return
        x0, w0 = x.copy(), w.copy()
        snap0 = full_snapshot(snap_of)
        for rel, rho_t in thresholds_for(M, p_base["rho"], margins):
            pt = dict(p_base, rho=rho_t)
            for k_op, (name, op, ref) in enumerate(ops):
                want = bool(ref(rho_t, M)) if inverted else bool(ref(M, rho_t))
                how = ["keyword", "positional"][k_op % 2]
                rep = dict(rep0, x=x0, w=w0, rho=rho_t, threshold=rel, operator=name, passed=how, M=float(M), expected=want)
                fam = op_family_name(name)
                try:
                    with quiet():
                        got, out_cache = call(pt, op, how)
                except Exception as e:
                    ctx.issue("violation", f"{cls_of}.match_criterion_bin:caller-supplied-operator:{fam}:{exc_enum(e)}",
                              f"match_criterion_bin(..., op={name}) raised {e!r} (M = {float(M)!r}, rho = {rho_t!r})", rep)
                    continue
                if bool(got) != want:
                    ctx.issue("violation", f"{cls_of}.match_criterion_bin:caller-supplied-operator:{fam}",
                              f"{host}: M = {float(M)!r}, rho = {rho_t!r} ({rel}), op = {name} (passed {how}): op({'rho, M' if inverted else 'M, rho'}) is {want}, "
                              f"match_criterion_bin returned {bool(got)}", dict(rep, returned=bool(got)))
                elif isinstance(out_cache, dict) and "match_criterion_bin" in out_cache and bool(out_cache["match_criterion_bin"]) != want:
                    ctx.issue("violation", f"{cls_of}.match_criterion_bin:caller-supplied-operator:{fam}:cached-flag",
                              f"{host}: the flag recorded in the returned cache is {bool(out_cache['match_criterion_bin'])}, the test op = {name} on M = {float(M)!r}, "
                              f"rho = {rho_t!r} gives {want}", dict(rep, returned=bool(got)))
                if isinstance(out_cache, dict) and "match_criterion" in out_cache:
                    mc = out_cache["match_criterion"]
                    if not (mc == M or (mc != mc and M != M)):
                        ctx.issue("violation", f"{cls_of}.match_criterion_bin:cached-match-value",
                                  f"{host}: the returned cache records the match value {mc!r}; match_criterion returns {M!r}", rep)
                cov.hit(f"op:{tag}:{fam}")
                cov.hit(f"op:{fam}:{rel}:{'accepts' if want else 'rejects'}")
            cov.hit(f"op:{tag}:{rel}")
        if not (np.array_equal(x, x0) and np.array_equal(w, w0)):
            ctx.issue("violation", f"{cls_of}.match_criterion_bin:mutates-arguments", "x or w changed by the binary match test", dict(rep0, x=x0, w=w0))
        if not eq_snap(full_snapshot(snap_of), snap0):
            ctx.issue("violation", f"{cls_of}.match_criterion_bin:mutates-model", "model state changed by the binary match test", dict(rep0, x=x0, w=w0))
        cov.case(("op", tag, rep0.get("spec"), x0.tolist(), w0.tolist()), True)

    # ---- every elementary class
    for i in range(ctx.scale(64, 1600)):
        r = gen.rng_for(ctx.seed, "C03-op", i)
        cls = specs.ELEM[i % 8]
        d = r.randint(1, 3)
        spec = specs.elem_spec(r, cls, d)
        X = specs.elem_data(r, cls, r.randint(4, 10), d, floats=r.random() < 0.4 and cls != "ART1")
        m = make(spec)
        try:
            with quiet():
                m.fit(X, match_tracking=r.choice(MODES))
        except Exception as e:
            cov.hit(f"op:train-raised:{cls}:{exc_enum(e)}")
            continue
        p = m.params
        for j in range(3):
            if j == 2 and cls in ("FuzzyART", "ART1", "ART2A", "HypersphereART"):
                w, origin = arbitrary_weight(r, cls, d, m), "arbitrary"
            else:
                w, origin = np.array(m.W[r.randrange(len(m.W))], dtype=float), "reached"
            x = X[r.randrange(len(X))].copy() if j != 1 else specs.elem_data(r, cls, 1, d)[0]
            try:
                with quiet():
                    _, cache0 = m.category_choice(x, w, params=p)
            except ZeroDivisionError:
                cov.hit(f"op:{cls}:zerodiv-outside-domain")
                continue
            fresh = (lambda c=cache0: None if c is None else dict(c))

            def call(pt, op, how, m=m, x=x, w=w, fresh=fresh):
                if how == "keyword":
                    return m.match_criterion_bin(x, w, params=pt, cache=fresh(), op=op)
                return m.match_criterion_bin(x, w, pt, fresh(), op)

            def M_of(pt, m=m, x=x, w=w, fresh=fresh):
                return m.match_criterion(x, w, params=pt, cache=fresh())[0]

            battery(cls, cls, cls, call, M_of, x, w, dict(p), cls == "BayesianART",
                    {"_r": r, "class": cls, "spec": spec, "X": X, "weight": origin}, m)
            # op omitted: the documented default is the inclusive test M >= rho
            try:
                with quiet():
                    M = M_of(p)
                    got, _ = m.match_criterion_bin(x, w, params=p, cache=fresh())
                want = bool(p["rho"] >= M) if cls == "BayesianART" else bool(M >= p["rho"])
                if bool(got) != want:
                    ctx.issue("violation", f"{cls}.match_criterion_bin:op-omitted",
                              f"M = {float(M)!r}, rho = {p['rho']!r}: the default operator is >=, expected {want}, returned {bool(got)}",
                              {"class": cls, "spec": spec, "X": X, "x": x, "w": w})
                cov.hit(f"op:{cls}:omitted")
            except ZeroDivisionError:
                pass

    # ---- TopoART forwards (i, w, params, cache, op) to its base module
    for i in range(ctx.scale(16, 400)):
        r = gen.rng_for(ctx.seed, "C03-op-topo", i)
        base = specs.HAS_BETA[i % 4]
        d = r.randint(1, 3)
        bs = specs.elem_spec(r, base, d)
        tau = r.randint(2, 6)
        spec = {"cls": "TopoART", "base_module": bs, "beta_lower": r.choice([b for b in [0.0, 0.25, 0.5, 1.0] if b <= bs["beta"]]),
                "tau": tau, "phi": r.randint(1, tau)}
        X = specs.elem_data(r, base, r.randint(4, 10), d)
        try:
            t = make(spec)
            with quiet():
                t.fit(X)
        except Exception as e:
            cov.hit(f"op:train-raised:TopoART[{base}]:{exc_enum(e)}")
            continue
        if not len(t.W):
            cov.hit(f"op:TopoART[{base}]:no-category-left")
            continue
        p = dict(t.params)
        for j in range(2):
            w = np.array(t.W[r.randrange(len(t.W))], dtype=float)
            x = X[r.randrange(len(X))].copy()
            try:
                with quiet():
                    _, cache0 = t.category_choice(x, w, params=p)
            except ZeroDivisionError:
                continue
            fresh = (lambda c=cache0: None if c is None else dict(c))

            def call(pt, op, how, t=t, x=x, w=w, fresh=fresh):
                if how == "keyword":
                    return t.match_criterion_bin(x, w, params=pt, cache=fresh(), op=op)
                return t.match_criterion_bin(x, w, pt, fresh(), op)

            def M_of(pt, t=t, x=x, w=w, fresh=fresh):
                # the base class's own match value on the same arguments
                return t.base_module.match_criterion(x, w, params=pt, cache=fresh())[0]

            battery(f"TopoART[{base}]", f"TopoART({base})", f"TopoART[{base}]", call, M_of, x, w, p, False,
                    {"_r": r, "class": "TopoART", "spec": spec, "X": X, "weight": "reached"}, t)

    # ---- FusionART: conjunction over the channels of the modules' own tests, op forwarded to each
    for i in range(ctx.scale(32, 800)):
        r = gen.rng_for(ctx.seed, "C03-op-fusion", i)
        k = r.randint(1, 3)
        pool = ["FuzzyART", "FuzzyART", "ART2A"] if r.random() < 0.5 else list(specs.ELEM)
        chans = [r.choice(pool) for _ in range(k)]
        ds = [r.randint(1, 2) for _ in range(k)]
        sp = [specs.elem_spec(r, c, dd) for c, dd in zip(chans, ds)]
        gam = {1: [1.0], 2: r.choice([[0.5, 0.5], [0.25, 0.75]]), 3: r.choice([[0.5, 0.25, 0.25], [0.25, 0.25, 0.5]])}[k]
        dims = [specs.width(c, dd) for c, dd in zip(chans, ds)]
        spec = {"cls": "FusionART", "modules": sp, "gamma_values": gam, "channel_dims": dims}
        n = r.randint(4, 8)
        X = np.hstack([specs.elem_data(r, c, n, dd) for c, dd in zip(chans, ds)])
        try:
            fa = make(spec)
            with quiet():
                fa.fit(X)
        except Exception as e:
            cov.hit(f"op:train-raised:FusionART:{exc_enum(e)}")
            continue
        if fa.n_clusters == 0:
            continue
        offs = np.concatenate([[0], np.cumsum(dims)]).astype(int)
        for j in range(2):
            cat = r.randrange(fa.n_clusters)
            x = X[r.randrange(len(X))].copy()
            h = deepcopy(fa)
            # the boundary inside one channel: that module's vigilance moved onto its own match value (set_params on
            # the module, the public way to re-configure it), when validate_params accepts the number
            tie_k = r.randrange(k) if j == 1 else None
            skip = [r.randrange(k)] if (k > 1 and r.random() < 0.4) else []
            try:
                with quiet():
                    w = np.asarray(h.W[cat], dtype=float)
                    _, cache0 = h.category_choice(x, w, h.params, skip_channels=skip)
                    Ms = [None if c in skip else
                          h.modules[c].match_criterion(x[offs[c]:offs[c + 1]], np.asarray(h.modules[c].W[cat], dtype=float),
                                                       h.modules[c].params, dict(cache0[c]) if cache0[c] is not None else None)[0]
                          for c in range(k)]
            except ZeroDivisionError:
                cov.hit("op:FusionART:zerodiv-outside-domain")
                continue
            sit = "configured"
            if tie_k is not None and tie_k not in skip and np.isfinite(float(Ms[tie_k])):
                try:
                    with quiet():
                        h.modules[tie_k].set_params(rho=float(Ms[tie_k]))
                    sit = f"rho==M-in-channel:{chans[tie_k]}"
                except (AssertionError, ValueError, TypeError):
                    cov.hit(f"op:FusionART:tie-rejected-by-validate_params:{chans[tie_k]}")
            rhos = [h.modules[c].params["rho"] for c in range(k)]
            x0, w0 = x.copy(), w.copy()
            snap0 = full_snapshot(h)
            for k_op, (name, op, ref) in enumerate(comparison_family(r)[0]):
                want = all(bool(ref(rhos[c], Ms[c])) if chans[c] == "BayesianART" else bool(ref(Ms[c], rhos[c]))
                           for c in range(k) if c not in skip)
                fam = op_family_name(name)
                rep = {"class": "FusionART", "spec": spec, "X": X, "x": x0, "w": w0, "category": cat, "channels": chans, "skip_channels": skip,
                       "module_rho": [float(v) for v in rhos], "module_M": [None if v is None else float(v) for v in Ms],
                       "situation": sit, "operator": name, "expected": want}
                cache = {c: (dict(v) if isinstance(v, dict) else v) for c, v in cache0.items()}
                try:
                    with quiet():
                        if k_op % 2:
                            got, out = h.match_criterion_bin(x, w, h.params, cache, op, skip_channels=skip)
                        else:
                            got, out = h.match_criterion_bin(x, w, params=h.params, cache=cache, op=op, skip_channels=skip)
                except Exception as e:
                    ctx.issue("violation", f"FusionART.match_criterion_bin:caller-supplied-operator:{fam}:{exc_enum(e)}",
                              f"match_criterion_bin(..., op={name}) raised {e!r}", rep)
                    continue
                if bool(got) != want:
                    ctx.issue("violation", f"FusionART.match_criterion_bin:caller-supplied-operator:{fam}",
                              f"channels {chans} (skipped {skip}): match values {rep['module_M']}, vigilances {rep['module_rho']} ({sit}), op = {name}: "
                              f"the conjunction of op(M_k, rho_k) is {want}, match_criterion_bin returned {bool(got)}", dict(rep, returned=bool(got)))
                else:
                    for c in range(k):
                        if c in skip:
                            continue
                        wk = bool(ref(rhos[c], Ms[c])) if chans[c] == "BayesianART" else bool(ref(Ms[c], rhos[c]))
                        if bool(out[c].get("match_criterion_bin")) != wk:
                            ctx.issue("violation", f"FusionART.match_criterion_bin:caller-supplied-operator:{fam}:cached-flag",
                                      f"channel {c} ({chans[c]}): the flag recorded in the returned cache is {out[c].get('match_criterion_bin')!r}; "
                                      f"op = {name} on M = {float(Ms[c])!r}, rho = {float(rhos[c])!r} gives {wk}", dict(rep, channel=c))
                cov.hit(f"op:FusionART:{fam}")
                cov.hit(f"op:FusionART:{'accepts' if want else 'rejects'}")
            cov.hit(f"op:FusionART:{sit.split(':')[0]}")
            cov.hit(f"op:FusionART:channels={k}:{'one-skipped' if skip else 'none-skipped'}")
            if not (np.array_equal(x, x0) and np.array_equal(w, w0)):
                ctx.issue("violation", "FusionART.match_criterion_bin:mutates-arguments", "x or w changed by the binary match test", rep)
            if not eq_snap(full_snapshot(h), snap0):
                ctx.issue("violation", "FusionART.match_criterion_bin:mutates-model", "model state changed by the binary match test", rep)
            cov.case(("op", "FusionART", spec, x0.tolist(), w0.tolist(), sit, tuple(skip)), True)
