"""C07 — hyper-parameters are invariant under learning.  Oracle: the parameter
tree (by value) of the estimator and every nested module before vs after every
fit / partial_fit / predict call, all families, all modes and epsilons; and the
threshold seen by the first reset-function call of every sample is the
configured one.  Tie: the per-step thresholds in force are replayed through the
Lean search (shared with C01's trace tie).

"Configured" means the values in force when the call starts, however they got there and whatever their
Python type: `_reconfigured` repeats the oracle on estimators whose float hyper-parameters are numpy scalars
(np.float64 is a float subclass and passes validate_params: np.linspace / np.arange grids, an ndarray rho ladder
handed to SMART, values produced by numpy arithmetic) and on estimators re-configured between two training calls
by plain attribute assignment (`module.rho = v`, which BaseART.__setattr__ routes into `params`): after every
later call the parameter tree equals the assigned values, and every later sample is first judged against them.

`_reentrant` repeats it with a reset function that is re-entrant: consulted for one sample, it calls partial_fit /
predict on the estimator being trained (bare modules, FusionART, DualVigilanceART, TopoART; nested up to two deep,
before and after its own vetoes have moved the vigilance).  Each of those calls, outer and nested, must hand back the
parameter values that were in force when it started.

`_noncanonical` repeats it on hyper-parameter VALUES that are legal but not canonical: a BayesianART `cov_init` that is
symmetric only up to round-off (a weighted Gram matrix, a Gram matrix summed in two orders, one entry moved by an ulp)
or deliberately asymmetric, float32 / integer / Fortran-ordered / strided / read-only `cov_init` and `sigma_init`
arrays, numpy-scalar floats, ndarray / float32 `gamma_values`, tuple / ndarray `channel_dims`, ndarray vigilance
ladders -- for the estimator alone and nested in every host that accepts it, with modules trained before they are
wrapped and array hyper-parameters re-configured between calls.  The snapshot is strict: public
`get_params(deep=True)` plus the `params` of every nested module, arrays compared bit for bit with dtype and shape,
scalars with their Python type.  (Identity of the array objects is NOT demanded: the library restores `params` from
a deep copy after every search -- the mechanism the property names -- so equal bits in a new array are no change.)

`_plotting_in_history` repeats it on histories that contain PLOTTING calls: `fit_gif` is a training call (it draws every
sample through `visualize` -> `plot_cluster_bounds`), and `visualize` / `plot_cluster_bounds` between two `partial_fit`
batches are part of the history the next batch is judged in.  Two generators: the shared one (harness/artv/plotpure.py:
every family after a plotting call, then this check's oracle on the continuation) and this file's own for what it does
not build -- TopoART / DualVigilanceART / CVIART whose hyper-parameters were RE-CONFIGURED after construction
(`host.set_params`, attribute assignment on the host, the caller re-configuring the base module he still holds through
`set_params` / assignment, `base_module__rho` through the host), so that the host's own parameter copy and its base
module's `params` have DIVERGED, modules trained before they are wrapped, re-configuration between two calls -- then
trained through `fit_gif` (default and too small palette, with a vetoing reset function) or through `partial_fit` / `fit`
with `visualize` (default colours, the estimator's own `labels_`, short colour lists) and `plot_cluster_bounds` on the
caller's axes in between.  Oracle: the strict snapshot immediately before every call of the history (training,
prediction, plotting) equals the one immediately after it.  A call that raises is not judged (the unchanged library
cannot draw every model and rejects some re-configurations)."""
from __future__ import annotations

import copy
import math

import numpy as np

from .. import gen, families, specs
from .. import impl as _impl
from ..impl import quiet, exc_enum, params_tree, eq_snap, make, Recorder, MODES

RULE = ("cases = (family, hyper-parameters incl. nested modules, stream with labels, mode, epsilon, history of "
        "fit/partial_fit/predict); params compared by value around every call; non-trivial when match tracking "
        "actually moved a threshold during the call (reset function vetoed a matching category) or the history has "
        ">= 2 calls; distinct by hash of (family spec, stream, mode, eps, history); the same with the float "
        "hyper-parameters held as numpy scalars and/or re-assigned by attribute assignment between two calls "
        "(non-trivial when a value was re-assigned and training continued, or a threshold moved during a search); the same "
        "with a re-entrant reset function that trains / queries the estimator being trained from inside a search "
        "(non-trivial when it re-entered after its own vetoes had moved a threshold by match tracking); the same with "
        "legal but non-canonical hyper-parameter values (cov_init symmetric only to round-off / asymmetric, float32 / "
        "integer / strided / read-only arrays, numpy scalars, ndarray ladders), alone and nested in every host, strict "
        "bit-for-bit snapshots of get_params(deep=True) and of every nested params dict around every call "
        "(non-trivial when a training call on a non-canonical configuration returned); the same on histories with "
        "plotting calls (fit_gif as the training call; visualize / plot_cluster_bounds between partial_fit batches) on "
        "every family (shared generator) and on TopoART / DualVigilanceART / CVIART re-configured after construction "
        "so that host and base module hold different values (non-trivial when the parameter copies had diverged and a "
        "plotting call or fit_gif returned)")


def prepare(ctx):
    """Translator tie (see gen_tie.py): the statements of BaseART.step_fit are regenerated from the source and the
    theorems about the generated definition are re-checked"""
    from .gen_tie import gen_prepare
    gen_prepare(ctx, ['Control.step_fit_refines', 'Control.step_fit_restores_params', 'Control.fit_restores_params', 'Control.predict_spec'], "BaseART.step_fit (translated control flow) returns the params it was given")


def run(ctx):
    cov = ctx.cov
    N = ctx.scale(380, 8000)
    nmax = ctx.scale(14, 60)
    names = families.ALL_FAMILIES
    for i in range(N):
        r = gen.rng_for(ctx.seed, "C07", i)
        name = names[i % len(names)]
        n = r.randint(1, nmax)
        mode = MODES[(i // len(names)) % 5]
        eps = r.choice([0.0, 2.0 ** -20, 2.0 ** -10, 1e-10, 0.125])
        fam, rows = families.build(r, name, n, floats=r.random() < 0.25, mode=mode, eps=eps)
        n = len(rows)
        desc = dict(fam.describe(), rows=rows.tolist())
        est = fam.make()
        # an estimator re-configured through the public set_params after construction (a nested vigilance moved
        # half-way towards 1) is as much "configured" as a freshly constructed one: training must leave it alone too
        if hasattr(est, "get_params") and r.random() < 0.5:
            try:
                with quiet():
                    gp = est.get_params(deep=True)
                keys = [k for k, v in gp.items() if (k == "rho" or k.endswith("__rho")) and isinstance(v, float) and 0.0 <= v < 1.0
                        and "Bayesian" not in type(gp.get(k.rsplit("__", 1)[0], est)).__name__]
                if keys:
                    k_ = r.choice(sorted(keys))
                    with quiet():
                        est.set_params(**{k_: (gp[k_] + 1.0) / 2.0})
                    desc = dict(desc, set_params_after_construction={k_: (gp[k_] + 1.0) / 2.0})
                    cov.hit("reconfigured-by-set_params-before-training" + (":nested" if "__" in k_ else ""))
            except Exception as e:
                cov.hit(f"set_params-raised:{name}:{exc_enum(e)}")
                est = fam.make()
        before = params_tree(est)
        parts = gen.compositions(r, n)
        j = 0
        ncalls = 0
        for p in parts:
            sl = rows.sl(j, j + p)
            j += p
            op = "pfit" if (fam.has_pfit and (not fam.has_fit or r.random() < 0.7)) else "fit"
            try:
                (fam.pfit if op == "pfit" else fam.fit)(est, sl)
            except Exception as e:
                cov.hit(f"train-raised:{name}:{exc_enum(e)}")
                break
            ncalls += 1
            after = params_tree(est)
            if not eq_snap(before, after):
                ctx.issue("violation", f"{name}.{op}:params-changed",
                          f"{op} changed hyper-parameters: before {before} after {after}", dict(desc, op=op, rows_slice=[j - p, j]))
                break
            if fam.has_predict and r.random() < 0.4:
                try:
                    fam.predict(est, sl)
                    after = params_tree(est)
                    if not eq_snap(before, after):
                        ctx.issue("violation", f"{name}.predict:params-changed",
                                  f"predict changed hyper-parameters: before {before} after {after}", desc)
                        break
                    cov.hit("predict-checked")
                except Exception as e:
                    cov.hit(f"predict-raised:{name}:{exc_enum(e)}")
        cov.case((name, fam.spec, desc["rows"], mode, eps, parts), ncalls >= 2)
        if i < 3:
            cov.sample({"family": name, "spec": fam.spec, "mode": mode, "eps": eps, "calls": ncalls})
    # ---- caller-supplied reset function on bare modules and FusionART: every exit path, and the
    #      first threshold of every sample is the configured one
    M = ctx.scale(300, 6000)
    classes = specs.ELEM + ["FusionART", "DualVigilanceART", "TopoART"]
    for i in range(M):
        r = gen.rng_for(ctx.seed, "C07-reset", i)
        cls = classes[i % len(classes)]
        mode = MODES[(i // len(classes)) % 5]
        eps = r.choice([0.0, 2.0 ** -10, 0.125])
        n = r.randint(2, nmax)
        fam, rows = families.build(r, cls, n, mode=mode, eps=eps)
        n = len(rows)
        est = fam.make()
        vt = gen.veto_table(r, n, n + 2)
        seen = []
        state = {"i": -1, "first": True}
        inner = est.base_module if cls in ("DualVigilanceART", "TopoART") else est
        o_step = est.step_fit

        def step(x, *a, _o=o_step, **kw):
            state["i"] += 1
            state["first"] = True
            return _o(x, *a, **kw)
        object.__setattr__(est, "step_fit", step)

        def reset(i_, w_, c_, params=None, cache=None):
            if state["first"]:
                state["first"] = False
                seen.append((state["i"], params.get("rho") if isinstance(params, dict) else None))
            return not vt[state["i"]][int(c_) % (n + 2)]
        conf = None
        if cls != "FusionART":
            conf = inner.params["rho"]
        before = params_tree(est)
        tracked = False
        try:
            with quiet():
                est.fit(rows.arrs["X"], match_reset_func=reset, match_tracking=mode, epsilon=eps)
        except Exception as e:
            cov.hit(f"reset-train-raised:{cls}:{exc_enum(e)}")
            continue
        after = params_tree(est)
        desc = dict(fam.describe(), rows=rows.tolist(), veto=vt)
        if not eq_snap(before, after):
            ctx.issue("violation", f"{cls}.fit+reset:params-changed", f"hyper-parameters changed under a vetoing reset "
                      f"function (mode {mode}): before {before} after {after}", desc)
        if conf is not None and mode != "MT~":
            bad = [(s, rho) for s, rho in seen if rho is not None and rho != conf]
            if bad:
                ctx.issue("violation", f"{cls}:first-threshold!=configured",
                          f"sample {bad[0][0]} was first judged against rho={bad[0][1]}, configured {conf} (mode {mode})", desc)
        cov.case(("reset", cls, fam.spec, desc["rows"], mode, eps, vt), any(any(row) for row in vt))
        cov.hit(f"reset-history:{mode}")
        cov.traces += 1
    _reconfigured(ctx)
    _reentrant(ctx)
    _noncanonical(ctx)
    _plotting_in_history(ctx)


# ---------------------------------------------------------------------------------------------------------------
# re-entrant reset function: while it is consulted for one sample -- possibly after its own vetoes have already moved
# the vigilance by match tracking -- it trains / queries the very estimator that is being trained


def _reentrant(ctx):
    """Every training / prediction call is a call of the property, also one made from inside a reset function of
    another call on the same estimator.  Oracle (implementation alone): (1) the parameter tree after every outer call
    equals the tree in force when it started; (2) the tree after every nested call equals the tree in force when that
    nested call started (which may be a match-tracked one: the nested call is then judged against it and must hand it
    back, the enclosing search continues with it); (3) every sample of an outer batch starts its search with the
    configured tree, also the sample after one whose reset function re-entered."""
    cov = ctx.cov
    R = ctx.scale(330, 5000)
    nmax = ctx.scale(9, 24)
    maxdepth = 2
    classes = specs.ELEM + ["FusionART", "DualVigilanceART", "TopoART"]
    for i in range(R):
        r = gen.rng_for(ctx.seed, "C07-reentrant", i)
        cls = classes[i % len(classes)]
        mode = MODES[(i // len(classes)) % 5]
        eps = r.choice([0.0, 2.0 ** -10, 1e-3, 0.125])
        fam, rows = families.build(r, cls, r.randint(3, nmax), mode=mode, eps=eps)
        n = len(rows)
        if fam.fresh is None:
            cov.hit(f"re-entrant:no-fresh-rows:{cls}")
            continue
        na = r.randint(1, 4)
        anchors = fam.fresh(r, na)          # what the reset function feeds back to the estimator
        X, A = rows.arrs["X"], anchors.arrs["X"]
        m = n + 2
        vt = gen.veto_table(r, n, m)
        est = fam.make()
        warm = r.randint(0, n // 2)         # rows trained first without any reset function
        rp = gen.rng_for(ctx.seed, "C07-reentrant-nested", i)

        def draw_plan(depth, r=r):
            """what the reset function does during one sample: veto its first `lead` calls (each veto of a matching
            category moves the vigilance), then -- on call lead+1, if the search gets that far -- re-enter"""
            lead = r.choice([0, 1, 1, 2, 2, 3]) if depth == 0 else r.choice([0, 1, 1, 2])
            p = {"lead": lead, "re_at": None}
            if depth < maxdepth and r.random() < (0.8 if depth == 0 else 0.5):
                a = r.randrange(na)
                kind = r.choice(["pfit", "pfit", "pfit", "pfit+reset", "pfit+reset", "predict"])
                p.update(re_at=lead + 1, kind=kind, anchor_rows=[a, r.randint(a + 1, na)], accept_after=r.random() < 0.6,
                         mode=mode if r.random() < 0.7 else r.choice(MODES), eps=eps if r.random() < 0.7 else r.choice([0.0, 1e-3]))
            return p
        plans = [draw_plan(0) for _ in range(n)]
        frames = []                          # one entry per step_fit that is running (outermost first)
        log = []                             # what actually happened, in order (part of the replay)
        st = {"s": -1, "before": None, "bad": None, "tracked": 0, "reentries": 0, "depth": 0}
        o_step = est.step_fit

        def step(x, *a, _o=o_step, **kw):
            d = len(frames)
            if d == 0:
                st["s"] += 1
                fr = dict(plans[st["s"]], sample=st["s"], calls=0)
                if st["before"] is not None and st["bad"] is None and not eq_snap(st["before"], params_tree(est)):
                    st["bad"] = ("sample-start", st["s"], params_tree(est), st["before"])
            else:
                fr = dict(draw_plan(d, rp), sample=frames[0]["sample"], calls=0)
            frames.append(fr)
            try:
                return _o(x, *a, **kw)
            finally:
                frames.pop()
        object.__setattr__(est, "step_fit", step)

        def reset(x_, w_, c_, params=None, cache=None):
            if not frames:
                return True
            fr = frames[-1]
            fr["calls"] += 1
            k, d = fr["calls"], len(frames) - 1
            ev = {"depth": d, "sample": fr["sample"], "call": k, "category": int(c_)}
            log.append(ev)
            if fr["re_at"] == k:
                cur = params_tree(est)
                moved = st["before"] is not None and not eq_snap(st["before"], cur)
                a, b = fr["anchor_rows"]
                ev["re-enter"] = {"call": fr["kind"], "anchor_rows": [a, b], "mode": fr["mode"], "eps": fr["eps"],
                                  "threshold_moved_by_match_tracking": moved}
                if fr["kind"] == "predict":
                    est.predict(A[a:b])
                elif fr["kind"] == "pfit":
                    est.partial_fit(A[a:b])
                else:
                    est.partial_fit(A[a:b], match_reset_func=reset, match_tracking=fr["mode"], epsilon=fr["eps"])
                st["reentries"] += 1
                st["tracked"] += bool(moved)
                st["depth"] = max(st["depth"], d + 1)
                cov.hit(f"re-entrant:{fr['kind']}:depth{d + 1}" + (":threshold-moved" if moved else ""))
                if moved:
                    cov.hit(f"re-entrant-while-tracked:{cls}")
                if st["bad"] is None and not eq_snap(cur, params_tree(est)):
                    st["bad"] = ("nested:" + fr["kind"], fr["sample"], params_tree(est), cur)
                ev["returns"] = bool(fr["accept_after"] or not vt[fr["sample"]][int(c_) % m])
                return ev["returns"]
            ev["returns"] = not (k <= fr["lead"] or (d == 0 and vt[fr["sample"]][int(c_) % m]))
            return ev["returns"]

        desc = dict(fam.describe(), rows=rows.tolist(), anchors=anchors.tolist(), veto=vt, warm_up_rows=warm,
                    plans=plans, history=[], reset_calls=log)
        failed = False
        try:
            if warm:
                with quiet():
                    est.partial_fit(X[:warm])
        except Exception as e:
            cov.hit(f"re-entrant-warm-up-raised:{cls}:{exc_enum(e)}")
            continue
        before = st["before"] = params_tree(est)
        j = warm
        ncalls = 0
        for p in gen.compositions(r, n - warm):
            op = "fit" if r.random() < 0.15 else "pfit"
            desc["history"].append({"call": op, "rows_slice": [j, j + p]})
            try:
                with quiet():
                    (est.partial_fit if op == "pfit" else est.fit)(X[j:j + p], match_reset_func=reset, match_tracking=mode, epsilon=eps)
            except Exception as e:
                cov.hit(f"re-entrant-train-raised:{cls}:{exc_enum(e)}")
                del frames[:]
                break
            j += p
            ncalls += 1
            after = params_tree(est)
            if not eq_snap(before, after):
                ctx.issue("violation", f"{cls}.{op}+re-entrant-reset:params-changed",
                          f"{op} returned with changed hyper-parameters after its reset function re-entered the estimator "
                          f"(mode {mode}, eps {eps}): in force before the call {before}, after it {after}", desc)
                failed = True
            if st["bad"] is not None:
                where, s_, got, want = st["bad"]
                if where == "sample-start":
                    ctx.issue("violation", f"{cls}:sample-after-re-entrant-reset-not-judged-against-configured",
                              f"sample {s_} started its search with {got}, configured {want} (mode {mode}, eps {eps})", desc)
                else:
                    ctx.issue("violation", f"{cls}.{'predict' if where.endswith('predict') else 'partial_fit'}(re-entrant):params-changed",
                              f"a nested {where[7:]} made by the reset function of sample {s_} returned with {got}, "
                              f"in force when it started {want} (mode {mode})", desc)
                failed = True
            if failed:
                break
        if not failed and ncalls:
            cov.hit(f"re-entrant-history:{mode}:{'re-entered' if st['reentries'] else 'search-never-reached-the-re-entry'}")
        cov.case(("reentrant", cls, fam.spec, desc["rows"], mode, eps, vt, str(plans), warm), st["tracked"] > 0)
        cov.traces += 1


# ---------------------------------------------------------------------------------------------------------------
# hyper-parameters held as numpy scalars / re-assigned by attribute assignment between training calls


def _np_spec(spec):
    """the same configuration with every float hyper-parameter a numpy scalar and SMART's vigilance ladder an
    ndarray (both allowed by the signatures; np.float64 passes `isinstance(x, float)`)"""
    if isinstance(spec, dict):
        return {k: (np.asarray(v, dtype=float) if k == "rho_values" else v if k in ("cls", "base") else _np_spec(v))
                for k, v in spec.items()}
    if isinstance(spec, list):
        return [_np_spec(t) for t in spec]
    if isinstance(spec, float):
        return np.float64(spec)
    return spec


def _vigilant_modules(est, path=""):
    """(path, module) of the estimator and every nested module that owns a vigilance"""
    d = getattr(est, "__dict__", {})
    out = []
    if isinstance(d.get("params"), dict) and "rho" in d["params"]:
        out.append((path or "self", est))
    for name in ("module_a", "module_b", "base_module", "fusion_art"):
        if name in d:
            out += _vigilant_modules(d[name], f"{path}.{name}" if path else name)
    if isinstance(d.get("modules"), (list, tuple)):
        for k, m in enumerate(d["modules"]):
            out += _vigilant_modules(m, f"{path}.modules[{k}]" if path else f"modules[{k}]")
    return out


def _new_value(r, est, path, mod, key):
    """another valid value of the hyper-parameter `key` of `mod` (None when there is none): vigilance half-way to
    the end of its admissible interval (above DualVigilanceART's lower bound, between the neighbouring layers of a
    SMART ladder, doubled / halved for BayesianART's volume bound), beta half-way towards 1"""
    cur = float(mod.params[key])
    if not math.isfinite(cur):
        return None
    if key == "beta":
        cands = [(cur + 1.0) / 2.0]
    elif "Bayesian" in type(mod).__name__:
        cands = [cur * 2.0, cur / 2.0]
    else:
        lo, hi = 0.0, 1.0
        ed = getattr(est, "__dict__", {})
        if path == "base_module" and "rho_lower_bound" in ed.get("params", {}):
            lo = float(ed["params"]["rho_lower_bound"])
        if type(est).__name__ == "SMART" and path.startswith("modules["):
            k = int(path[8:-1])
            ms = ed["modules"]
            if k > 0:
                lo = float(ms[k - 1].params["rho"])
            if k + 1 < len(ms):
                hi = float(ms[k + 1].params["rho"])
        cands = [(cur + hi) / 2.0, (cur + lo) / 2.0]
    cands = [c for c in cands if c != cur and math.isfinite(c)]
    return r.choice(cands) if cands else None


def _reconfigured(ctx):
    cov = ctx.cov
    K = ctx.scale(260, 5000)
    nmax = ctx.scale(12, 40)
    names = families.ALL_FAMILIES
    bare = set(specs.ELEM) | {"FusionART", "DualVigilanceART", "TopoART"}
    for i in range(K):
        r = gen.rng_for(ctx.seed, "C07-reconf", i)
        name = names[i % len(names)]
        mode = MODES[(i // len(names)) % 5]
        eps = r.choice([0.0, 2.0 ** -20, 2.0 ** -10, 0.125])
        variant = r.choice(["np", "assign", "np+assign"])
        use_np, use_assign = "np" in variant, "assign" in variant
        fam, rows = families.build(r, name, r.randint(2, nmax), mode=mode, eps=eps)
        n = len(rows)
        if use_np:
            fam_np = copy.copy(fam)
            fam_np.spec = _np_spec(fam.spec)
            est = fam_np.make()
            held = [type(m.params["rho"]).__name__ for _, m in _vigilant_modules(est)]
            cov.hit("np-scalar-config:" + ("held-as-given" if held and all(h == "float64" for h in held) else "converted"))
        else:
            est = fam.make()
        desc = dict(fam.describe(), rows=rows.tolist(), numpy_scalar_hyper_parameters=use_np, history=[])
        # bare modules (and the three that run their own search) are driven with a vetoing reset function, so that
        # match tracking really moves the threshold; compound estimators get their vetoes from the labels
        use_reset = name in bare and r.random() < 0.8
        vt = gen.veto_table(r, n, n + 2)
        inner = est.base_module if name in ("DualVigilanceART", "TopoART") else est
        state = {"i": -1, "first": True, "conf": None, "bad": None, "moved": False}
        if use_reset:
            desc["veto"] = vt
            if name != "FusionART":
                state["conf"] = inner.params["rho"]
            o_step = est.step_fit

            def step(x, *a, _o=o_step, _s=state, **kw):
                _s["i"] += 1
                _s["first"] = True
                return _o(x, *a, **kw)
            object.__setattr__(est, "step_fit", step)

            def reset(i_, w_, c_, params=None, cache=None, _s=state, _vt=vt, _m=n + 2):
                rho = params.get("rho") if isinstance(params, dict) else None
                if _s["conf"] is not None and rho is not None:
                    if _s["first"] and rho != _s["conf"] and _s["bad"] is None:
                        _s["bad"] = (_s["i"], rho, _s["conf"])
                    elif not _s["first"] and rho != _s["conf"]:
                        _s["moved"] = True
                _s["first"] = False
                return not _vt[_s["i"]][int(c_) % _m]

        def train(op, sl):
            if use_reset:
                with quiet():
                    (est.partial_fit if op == "pfit" else est.fit)(sl.arrs["X"], match_reset_func=reset,
                                                                   match_tracking=mode, epsilon=eps)
            else:
                (fam.pfit if op == "pfit" else fam.fit)(est, sl)

        parts = gen.compositions(r, n)
        if len(parts) == 1:
            parts = [n - n // 2, n // 2]
        before = params_tree(est)
        j = 0
        ncalls = 0
        assigned = 0
        failed = False
        for ci, p in enumerate(parts):
            if use_assign and ci > 0 and r.random() < 0.7:
                # re-configuration by plain attribute assignment between two training calls
                targets = _vigilant_modules(est)
                if targets:
                    path, mod = r.choice(targets)
                    key = "beta" if isinstance(mod.params.get("beta"), float) and r.random() < 0.25 else "rho"
                    v = _new_value(r, est, path, mod, key)
                    if v is not None:
                        as_np = use_np or r.random() < 0.3
                        with quiet():
                            setattr(mod, key, np.float64(v) if as_np else v)
                        if mod.params.get(key) == v:
                            desc["history"].append({"assign": f"{path}.{key}", "value": v, "numpy_scalar": as_np})
                            before = params_tree(est)
                            if key == "rho" and mod is inner and state["conf"] is not None:
                                state["conf"] = v
                            assigned += 1
                            cov.hit(f"attribute-assignment-between-calls:{key}" + ("" if path == "self" else ":nested")
                                    + (":numpy-scalar" if as_np else ""))
                        else:
                            cov.hit(f"attribute-assignment-not-routed-into-params:{name}")
            sl = rows.sl(j, j + p)
            j += p
            op = "pfit" if (fam.has_pfit and (not fam.has_fit or r.random() < 0.8)) else "fit"
            desc["history"].append({"call": op, "rows_slice": [j - p, j]})
            try:
                train(op, sl)
            except Exception as e:
                cov.hit(f"reconf-train-raised:{name}:{exc_enum(e)}")
                break
            ncalls += 1
            after = params_tree(est)
            what = ("numpy-scalar hyper-parameters" if use_np else "") + ("+" if use_np and assigned else "") + \
                   ("attribute assignment" if assigned else "")
            if not eq_snap(before, after):
                ctx.issue("violation", f"{name}.{op}:params-changed:{'numpy-scalar' if use_np and not assigned else 'after-attribute-assignment' if assigned else 'plain'}",
                          f"{op} changed hyper-parameters ({what}; mode {mode}): in force before the call {before}, after it {after}", desc)
                failed = True
                break
            if state["bad"] is not None and mode != "MT~":
                s_, rho_, conf_ = state["bad"]
                ctx.issue("violation", f"{name}:first-threshold!=configured:{'after-attribute-assignment' if assigned else 'numpy-scalar'}",
                          f"sample {s_} was first judged against rho={rho_}, the value in force is {conf_} ({what}; mode {mode})", desc)
                failed = True
                break
            if fam.has_predict and r.random() < 0.3:
                try:
                    fam.predict(est, sl)
                    if not eq_snap(before, params_tree(est)):
                        ctx.issue("violation", f"{name}.predict:params-changed:{'numpy-scalar' if use_np else 'after-attribute-assignment'}",
                                  f"predict changed hyper-parameters ({what}): before {before} after {params_tree(est)}", desc)
                        failed = True
                        break
                    cov.hit("reconf-predict-checked")
                except Exception as e:
                    cov.hit(f"reconf-predict-raised:{name}:{exc_enum(e)}")
        if state["moved"]:
            cov.hit("reconf:threshold-moved-during-search" + (":numpy-scalar" if use_np else ""))
        if not failed:
            cov.hit(f"reconf-history:{variant}:{'reset-function' if use_reset else 'labels' if name not in bare else 'plain'}")
        cov.case(("reconf", name, fam.spec, desc["rows"], mode, eps, variant, str(desc["history"])),
                 (assigned > 0 and ncalls >= 2) or state["moved"])


# ---------------------------------------------------------------------------------------------------------------
# legal but non-canonical hyper-parameter values; strict (bit-for-bit, dtype, Python type) snapshots


def _leaf(v):
    """strict record of one hyper-parameter value: arrays by dtype, shape and bytes; scalars by Python type and exact
    value; containers element-wise with their type; nested estimators and anything else by type and identity"""
    if isinstance(v, np.ndarray):
        return ("ndarray", v.dtype.str, tuple(v.shape), v.tobytes())
    if isinstance(v, (bool, np.bool_)):
        return ("scalar", type(v).__name__, repr(bool(v)))
    if isinstance(v, (float, np.floating)):
        return ("scalar", type(v).__name__, np.asarray(v).tobytes().hex())
    if isinstance(v, (int, np.integer, str)) or v is None:
        return ("scalar", type(v).__name__, repr(v))
    if isinstance(v, (list, tuple)):
        return (type(v).__name__, tuple(_leaf(t) for t in v))
    if isinstance(v, dict):
        return ("dict", tuple(sorted((repr(k), _leaf(t)) for k, t in v.items())))
    return ("object", type(v).__name__, id(v))


def _show_leaf(rec):
    if rec is None:
        return "<absent>"
    if rec[0] == "ndarray":
        a = np.frombuffer(rec[3], dtype=np.dtype(rec[1])).reshape(rec[2])
        shown = [float(t).hex() for t in a.reshape(-1)] if a.dtype.kind == "f" else a.reshape(-1).tolist()
        return f"ndarray(dtype={a.dtype.name}, shape={list(rec[2])}, entries={shown})"
    if rec[0] == "scalar":
        return f"{rec[1]}:{rec[2]}"
    if rec[0] in ("list", "tuple"):
        return f"{rec[0]}[" + ", ".join(_show_leaf(t) for t in rec[1]) + "]"
    return str(rec[:2])


def _param_modules(est, path="", seen=None):
    """(path, object) of the estimator and every nested module, each object once"""
    seen = set() if seen is None else seen
    if id(est) in seen:
        return []
    seen.add(id(est))
    d = getattr(est, "__dict__", {})
    out = [(path or "self", est)]
    for name in ("module_a", "module_b", "base_module", "fusion_art"):
        if name in d and hasattr(d[name], "__dict__"):
            out += _param_modules(d[name], f"{path}.{name}" if path else name, seen)
    if isinstance(d.get("modules"), (list, tuple)):
        for k, m in enumerate(d["modules"]):
            out += _param_modules(m, f"{path}.modules[{k}]" if path else f"modules[{k}]", seen)
    return out


def _strict(est):
    """({key: strict record}, {key: memory layout + identity of arrays}, references that keep the ids alive): the
    public get_params(deep=True) of the estimator, the `params` dict of every nested module, and the constructor
    arguments that hosts keep outside `params`"""
    snap, layout, refs = {}, {}, []

    def put(key, v):
        snap[key] = _leaf(v)
        refs.append(v)
        if isinstance(v, np.ndarray):
            layout[key] = (id(v), v.strides, bool(v.flags.writeable))

    try:
        with quiet():
            gp = dict(est.get_params(deep=True))
        for k, v in gp.items():
            put(f"get_params()[{k!r}]", v)
    except Exception as e:
        snap["get_params()"] = ("raised", exc_enum(e))
    for path, mod in _param_modules(est):
        d = mod.__dict__
        if isinstance(d.get("params"), dict):
            for k, v in d["params"].items():
                put(f"{path}.params[{k!r}]", v)
        for name in ("rho_values", "channel_dims", "rho_lower_bound", "td_alpha", "td_lambda"):
            if name in d:
                put(f"{path}.{name}", d[name])
    return snap, layout, refs


def _strict_diff(before, after):
    """[(key, leaf name, category, text)] for every entry whose strict record differs"""
    out = []
    for key in sorted(set(before) | set(after)):
        b, a = before.get(key), after.get(key)
        if b == a:
            continue
        leaf = key.rsplit("[", 1)[-1].strip("]'\"").rsplit("__", 1)[-1] if "[" in key else key.rsplit(".", 1)[-1]
        if b is None or a is None:
            cat = "entry-appeared" if b is None else "entry-vanished"
        elif b[0] != a[0]:
            cat = "type"
        elif b[0] == "ndarray":
            cat = "dtype" if b[1] != a[1] else "shape" if b[2] != a[2] else "value"
        elif b[0] == "scalar":
            cat = "type" if b[1] != a[1] else "value"
        elif b[0] == "object":
            cat = "object-replaced"
        else:
            cat = "value"
        out.append((key, leaf, cat, f"{key}: configured {_show_leaf(b)}, now {_show_leaf(a)}"))
    return out


def _enc(a):
    """JSON description of an array hyper-parameter (entries also as hex: the last bit matters)"""
    return {"ndarray": a.tolist(), "dtype": a.dtype.name, "shape": list(a.shape),
            "layout": "C" if a.flags.c_contiguous else "F" if a.flags.f_contiguous else "strided view",
            "writeable": bool(a.flags.writeable),
            "hex": [float(t).hex() for t in a.reshape(-1)] if a.dtype.kind == "f" else None}


def _enc_kw(kw):
    return {k: (_enc(v) if isinstance(v, np.ndarray) else
                {"value": float(v), "type": type(v).__name__} if isinstance(v, np.floating) else
                [float(t) if isinstance(t, (float, np.floating)) else int(t) for t in v] + [f"<{type(v).__name__}>"]
                if isinstance(v, (list, tuple)) else v) for k, v in kw.items()}


def _relayout(r, a, tags):
    """the same values in another legal memory layout / access mode"""
    how = r.choice(["C", "C", "C", "F", "strided", "read-only"])
    if how == "F" and a.ndim == 2:
        a = np.asfortranarray(a)
        tags.append("layout:fortran-order")
    elif how == "strided":
        big = np.zeros(tuple(2 * t for t in a.shape), dtype=a.dtype)
        view = big[tuple(slice(None, None, 2) for _ in a.shape)]
        view[...] = a
        a = view
        tags.append("layout:strided-view")
    elif how == "read-only":
        a = a.copy()
        a.setflags(write=False)
        tags.append("layout:read-only")
    return a


def _cov_init(r, d, tags, force=None):
    """an initial covariance as a caller would really obtain one: a (weighted) Gram matrix of a few observations plus a
    ridge.  Recipes: `gram` (A.T @ A: exactly symmetric), `weighted-gram` ((A.T * w) @ A: symmetric to round-off),
    `two-orders` (upper triangle summed forwards, lower backwards), `ulp` (one off-diagonal entry moved by one unit in
    the last place), `skew` (deliberately asymmetric: a skew-symmetric part is added; x'Cx is unchanged), `float32`,
    `float32-ulp`, `int-eye` (integer identity)"""
    s = r.choice([0.0625, 0.25, 1.0])
    m = d + r.randint(2, 5)
    A = np.array([[r.uniform(-1.0, 1.0) for _ in range(d)] for _ in range(m)], dtype=float)
    w = np.array([r.uniform(0.1, 1.0) for _ in range(m)], dtype=float)
    G = A.T @ A
    G = 0.5 * (G + G.T) / m * s + s * np.eye(d)
    recipes = ["gram", "weighted-gram", "weighted-gram", "two-orders", "two-orders", "ulp", "ulp", "ulp", "skew", "skew",
               "float32", "float32-ulp", "int-eye"]
    if d == 1:
        recipes = ["gram", "float32", "int-eye"]
    recipe = force or r.choice(recipes)
    if recipe == "gram":
        C = G
    elif recipe == "weighted-gram":
        C = ((A.T * w) @ A) / w.sum() * s + s * np.eye(d)
    elif recipe == "two-orders":
        C = np.zeros((d, d))
        for i in range(d):
            for j in range(i, d):
                terms = [float(A[k, i]) * float(A[k, j]) * float(w[k]) for k in range(m)]
                up = 0.0
                for t in terms:
                    up += t
                lo = 0.0
                for t in reversed(terms):
                    lo += t
                C[i, j], C[j, i] = up, lo
        C = C / w.sum() * s + s * np.eye(d)
    elif recipe in ("ulp", "float32-ulp"):
        C = G.copy() if recipe == "ulp" else G.astype(np.float32)
        i, j = r.sample(range(d), 2)
        C[i, j] = np.nextafter(C[i, j], C.dtype.type(r.choice([-np.inf, np.inf])))
    elif recipe == "skew":
        t = r.choice([2.0 ** -40, 2.0 ** -10, 0.125]) * s
        K = np.zeros((d, d))
        for i in range(d):
            for j in range(i + 1, d):
                K[i, j] = r.choice([-1.0, 1.0])
                K[j, i] = -K[i, j]
        C = G + t * K
    elif recipe == "float32":
        C = G.astype(np.float32)
    else:
        C = np.eye(d, dtype=np.int64)
    tags.append(f"cov_init:{recipe}")
    sym = "exactly-symmetric" if np.array_equal(C, C.T) else \
        "symmetric-to-round-off" if np.allclose(C, C.T, rtol=8 * float(np.finfo(C.dtype).eps), atol=0.0) else "asymmetric"
    tags.append(f"cov_init:{sym}")
    if C.dtype != np.float64:
        tags.append(f"dtype:{C.dtype.name}")
    return _relayout(r, C, tags)


def _sigma_init(r, d, tags):
    kind = r.choice(["float64", "float32", "int", "float64"])
    if kind == "int":
        a = np.ones(d, dtype=np.int64)
    else:
        a = np.array([r.choice([0.25, 0.5, 1.0, 0.3, 0.7]) for _ in range(d)], dtype=np.float32 if kind == "float32" else float)
    if a.dtype != np.float64:
        tags.append(f"dtype:{a.dtype.name}")
    return _relayout(r, a, tags)


def _fl(r, v, tags):
    """the float as given, or the same value as a numpy scalar (np.float64 is a float subclass), or -- rarely, for an
    integral value -- as a Python int (the elementary modules' validate_params reject that today; were it accepted, a
    training call would have to hand back the int)"""
    t = r.random()
    if t < 0.4:
        tags.append("numpy-scalar")
        return np.float64(v)
    if t < 0.46 and float(v) == int(v):
        tags.append("integer-typed-scalar")
        return int(v)
    return v


def _inner_kwargs(r, kind, d, tags):
    if kind == "BayesianART":
        return {"rho": _fl(r, r.choice([2.0 ** -12, 2.0 ** -6, 0.0625, 0.5, 2.0]), tags), "cov_init": _cov_init(r, d, tags)}
    if kind == "GaussianART":
        return {"rho": _fl(r, r.choice([0.0, 0.25, 0.5, 0.75]), tags), "sigma_init": _sigma_init(r, d, tags),
                "alpha": _fl(r, r.choice([1e-10, 2.0 ** -10]), tags)}
    if kind == "FuzzyART":
        return {"rho": _fl(r, r.choice([0.25, 0.5, 0.75, 0.875]), tags), "alpha": _fl(r, 2.0 ** -10, tags),
                "beta": _fl(r, r.choice([1.0, 0.5]), tags)}
    if kind == "HypersphereART":
        return {"rho": _fl(r, r.choice([0.25, 0.5, 0.75]), tags), "alpha": _fl(r, 2.0 ** -10, tags),
                "beta": _fl(r, r.choice([1.0, 0.5]), tags), "r_hat": _fl(r, r.choice([1.0, 2.0]), tags)}
    raise KeyError(kind)


_NC_HOSTS = ["alone", "SimpleARTMAP", "ARTMAP", "DeepARTMAP-sup", "DeepARTMAP-unsup", "SMART", "FusionART",
             "DualVigilanceART", "TopoART", "CVIART", "SimpleARTMAP(FusionART)", "alone", "SimpleARTMAP"]


def _noncanonical(ctx):
    """Oracle (implementation alone): the strict snapshot taken immediately before a fit / partial_fit / predict call
    equals the one taken immediately after it returned, for every call of the history, on the estimator the caller
    holds (host and nested modules alike)."""
    cov = ctx.cov
    A = _impl.artlib
    K = ctx.scale(300, 5000)
    nmax = ctx.scale(10, 30)
    for i in range(K):
        r = gen.rng_for(ctx.seed, "C07-noncanonical", i)
        host = _NC_HOSTS[i % len(_NC_HOSTS)]
        mode = MODES[(i // len(_NC_HOSTS)) % 5]
        eps = r.choice([0.0, 2.0 ** -20, 1e-9, 2.0 ** -10, 0.125])
        if host == "TopoART":
            kind = r.choice(["FuzzyART", "HypersphereART"])         # TopoART needs a module with `beta`
        else:
            kind = r.choice(["BayesianART"] * 6 + ["GaussianART"] * 3 + ["FuzzyART", "HypersphereART"])
        d = r.choice([2, 2, 3]) if kind == "BayesianART" and r.random() < 0.9 else r.randint(1, 3)
        n = r.randint(2, min(nmax, 10) if host == "CVIART" else nmax)
        tags = []
        kw = _inner_kwargs(r, kind, d, tags)
        X = specs.elem_data(r, kind, n, d)
        y = gen.labels(r, n, r.randint(1, 3))
        desc = {"host": host, "module": {"cls": kind, **_enc_kw(kw)}, "mode": mode, "eps": eps, "history": []}
        cls = getattr(A, kind)

        def fz():
            return A.FuzzyART(rho=r.choice([0.0, 0.5, 0.75]), alpha=2.0 ** -10, beta=1.0)

        def fusion_args(mods_dims):
            g = r.choice([[0.5, 0.5], [0.25, 0.75], np.array([0.5, 0.5]), np.array([0.25, 0.75]),
                          np.array([0.5, 0.5], dtype=np.float32), [np.float64(0.75), np.float64(0.25)]])
            dims = r.choice([list, tuple, np.array])(mods_dims)
            if not (isinstance(g, list) and all(type(t) is float for t in g)):
                tags.append("gamma_values:" + (f"ndarray-{g.dtype.name}" if isinstance(g, np.ndarray) else "numpy-scalars"))
            if not isinstance(dims, list):
                tags.append("channel_dims:" + type(dims).__name__)
            desc["fusion"] = _enc_kw({"gamma_values": g, "channel_dims": dims})
            return g, dims

        inner_mods = []
        pre = None
        try:
            with quiet():
                if host == "SMART":
                    k = r.randint(2, 3)
                    base = float(kw["rho"])
                    if kind == "BayesianART":
                        ladder = [base * 2.0 ** (k - 1 - t) for t in range(k)]
                    else:
                        ladder = sorted(r.sample([0.125, 0.25, 0.375, 0.5, 0.625, 0.75, 0.875], k))
                    form = r.choice(["list", "ndarray", "numpy-scalars"])
                    rv = ladder if form == "list" else np.asarray(ladder) if form == "ndarray" else [np.float64(t) for t in ladder]
                    if form != "list":
                        tags.append("rho_values:" + form)
                    desc["smart"] = {"rho_values": ladder, "given_as": form}
                    est = A.SMART(cls, rv, {k_: v for k_, v in kw.items() if k_ != "rho"})
                    inner_mods = list(est.modules)
                else:
                    mod = cls(**kw)
                    inner_mods = [mod]
                    if host not in ("alone",) and r.random() < 0.25:
                        # lifecycle: the module is trained on its own before it is wrapped
                        pre = r.randint(1, max(1, n // 2))
        except Exception as e:
            cov.hit(f"non-canonical:construction-rejected:{host}:{kind}:{exc_enum(e)}")
            continue
        Xf = X
        width = X.shape[1]
        second = gen.cc(gen.grid_rows(r, n, 1, style="coarse"))
        failed = False

        def check_call(obj, label, op, call, slice_):
            """run one call of the history with a strict snapshot before and after it"""
            nonlocal failed
            sb, lb, refs_b = _strict(obj)
            try:
                with quiet():
                    call()
            except Exception as e:
                cov.hit(f"non-canonical:{op}-raised:{label}:{kind}:{exc_enum(e)}")
                return False
            sa, la, refs_a = _strict(obj)
            diffs = _strict_diff(sb, sa)
            if diffs:
                key, leaf, cat, _ = diffs[0]
                ctx.issue("violation", f"{label}[{kind}].{op}:{leaf}:{cat}-changed:non-canonical-hyper-parameters",
                          f"{op} changed hyper-parameters (configuration: {', '.join(sorted(set(tags)))}; mode {mode}, eps {eps}): "
                          + "; ".join(t[3] for t in diffs[:6]),
                          dict(desc, failing_call={"op": op, "rows_slice": slice_, "on": label},
                               changed=[{"entry": t[0], "category": t[2]} for t in diffs]))
                failed = True
                return True
            cov.hit(f"non-canonical:call-checked:{op}")
            if any(lb[k_][0] != la[k_][0] for k_ in lb if k_ in la):
                cov.hit("non-canonical:equal-bits-in-a-new-array-object(deep-copy-restore)")
            if any(lb[k_][1:] != la[k_][1:] for k_ in lb if k_ in la):
                cov.hit("non-canonical:memory-layout-or-write-flag-not-kept(values-equal)")
            return True

        if pre is not None:
            desc["module_trained_before_being_wrapped"] = {"rows_slice": [0, pre]}
            ok = check_call(inner_mods[0], "alone(before-wrapping)", "partial_fit",
                            lambda: inner_mods[0].partial_fit(X[:pre]), [0, pre])
            if ok and not failed:
                cov.hit("non-canonical:module-trained-before-being-wrapped")
            if failed:
                cov.case(("noncanonical", i, host, kind, str(desc["module"])), False)
                continue
        use_reset = False
        try:
            with quiet():
                if host == "alone":
                    est = inner_mods[0]
                elif host == "SimpleARTMAP":
                    est = A.SimpleARTMAP(inner_mods[0])
                elif host == "ARTMAP":
                    est = A.ARTMAP(inner_mods[0], fz())
                elif host in ("DeepARTMAP-sup", "DeepARTMAP-unsup"):
                    mods = [inner_mods[0], fz()] if r.random() < 0.6 else [fz(), inner_mods[0]]
                    desc["deep_modules"] = [type(m).__name__ for m in mods]
                    est = A.DeepARTMAP(mods)
                elif host == "FusionART":
                    g, dims = fusion_args([width, 2])
                    est = A.FusionART([inner_mods[0], fz()], gamma_values=g, channel_dims=dims)
                    Xf = np.hstack([X, second])
                elif host == "SimpleARTMAP(FusionART)":
                    g, dims = fusion_args([width, 2])
                    est = A.SimpleARTMAP(A.FusionART([inner_mods[0], fz()], gamma_values=g, channel_dims=dims))
                    Xf = np.hstack([X, second])
                elif host == "DualVigilanceART":
                    rho = float(kw["rho"])
                    lb_ = _fl(r, r.choice([rho / 2.0, rho / 4.0, 0.0]), tags)
                    desc["rho_lower_bound"] = float(lb_)
                    est = A.DualVigilanceART(inner_mods[0], lb_)
                elif host == "TopoART":
                    tau = r.randint(2, 6)
                    bl = _fl(r, r.choice([b for b in [0.0, 0.25, 0.5] if b <= float(kw["beta"])]), tags)
                    desc["topo"] = {"beta_lower": float(bl), "tau": tau, "phi": 1}
                    est = A.TopoART(inner_mods[0], bl, tau, 1)
                elif host == "CVIART":
                    desc["validity"] = v_ = r.choice([1, 2, 3])
                    est = A.CVIART(inner_mods[0], v_)
        except Exception as e:
            cov.hit(f"non-canonical:construction-rejected:{host}:{kind}:{exc_enum(e)}")
            continue
        desc["rows"] = {"X": Xf.tolist(), "y": y.tolist(), "second_channel": second.tolist()}
        for t in sorted(set(tags)):
            cov.hit(f"non-canonical:{t}")

        # a vetoing reset function for the estimators that take one directly, so that match tracking really moves the
        # vigilance and `params` really is restored from its deep copy
        reset = None
        if host in ("alone", "FusionART", "DualVigilanceART", "TopoART") and r.random() < 0.5:
            vt = gen.veto_table(r, n, n + 2)
            desc["veto"] = vt
            stt = {"i": -1}
            o_step = est.step_fit

            def step(x, *a, _o=o_step, _s=stt, **kw_):
                _s["i"] += 1
                return _o(x, *a, **kw_)
            object.__setattr__(est, "step_fit", step)

            def reset(i_, w_, c_, params=None, cache=None, _s=stt, _vt=vt, _m=n + 2):
                return not _vt[_s["i"] % len(_vt)][int(c_) % _m]
            use_reset = True

        def train_call(op, a, b):
            f = est.partial_fit if op == "partial_fit" else est.fit
            kw_ = dict(match_tracking=mode, epsilon=eps)
            if use_reset:
                kw_["match_reset_func"] = reset
            if host in ("SimpleARTMAP", "SimpleARTMAP(FusionART)"):
                return lambda: f(Xf[a:b], y[a:b], **kw_)
            if host == "ARTMAP":
                return lambda: f(Xf[a:b], second[a:b], **kw_)
            if host.startswith("DeepARTMAP"):
                Xs = [X[a:b] if type(m) is cls and m is inner_mods[0] else second[a:b] for m in est.modules]
                return lambda: f(Xs, y[a:b] if host.endswith("-sup") else None, **kw_)
            return lambda: f(Xf[a:b], **kw_)

        def predict_call(a, b):
            if host.startswith("DeepARTMAP"):
                Xs = [X[a:b] if m is inner_mods[0] else second[a:b] for m in est.modules]
                return lambda: est.predict(Xs)
            return lambda: est.predict(Xf[a:b])

        if r.random() < 0.1:
            desc["history"].append({"call": "predict", "rows_slice": [0, 1], "note": "before any training"})
            check_call(est, host, "predict", predict_call(0, 1), [0, 1])
        parts = gen.compositions(r, n - (pre or 0)) if n - (pre or 0) > 0 else []
        j = pre or 0
        ncalls = 0
        for ci, p in enumerate(parts):
            if failed:
                break
            if ci > 0 and r.random() < 0.2 and kind in ("BayesianART", "GaussianART"):
                # re-configuration of the array hyper-parameter between two calls (same shape, another legal value)
                key = "cov_init" if kind == "BayesianART" else "sigma_init"
                t2 = []
                new = _cov_init(r, d, t2) if kind == "BayesianART" else _sigma_init(r, d, t2)
                how = r.choice(["set_params", "attribute"])
                try:
                    with quiet():
                        for m in inner_mods:
                            if how == "set_params":
                                m.set_params(**{key: new})
                            else:
                                setattr(m, key, new)
                    if all(m.params[key] is new for m in inner_mods):
                        desc["history"].append({"reconfigure": key, "by": how, "value": _enc(new)})
                        tags += t2
                        cov.hit(f"non-canonical:array-hyper-parameter-re-configured-between-calls:{how}")
                except Exception as e:
                    cov.hit(f"non-canonical:re-configuration-raised:{kind}:{exc_enum(e)}")
            op = "fit" if (host == "CVIART" or r.random() < 0.3) else "partial_fit"
            desc["history"].append({"call": op, "rows_slice": [j, j + p]})
            if not check_call(est, host, op, train_call(op, j, j + p), [j, j + p]):
                break
            if failed:
                break
            ncalls += 1
            if r.random() < 0.4:
                desc["history"].append({"call": "predict", "rows_slice": [j, j + p]})
                check_call(est, host, "predict", predict_call(j, j + p), [j, j + p])
            j += p
        canonical = not tags or set(tags) <= {"cov_init:gram", "cov_init:exactly-symmetric"}
        if ncalls and not failed:
            cov.hit(f"non-canonical-history:{host}:{kind}")
        cov.case(("noncanonical", host, kind, str(desc["module"]), str(desc["rows"]), mode, eps, str(desc["history"])),
                 ncalls >= 1 and not canonical)


# ---------------------------------------------------------------------------------------------------------------
# plotting calls inside histories: fit_gif is a training call; visualize / plot_cluster_bounds between two batches


_PLOT_HOSTS = ["TopoART", "DualVigilanceART", "CVIART", "TopoART", "DualVigilanceART", "TopoART", "CVIART"]
_PLOT_BASES = {"TopoART": ["FuzzyART", "EllipsoidART", "HypersphereART", "ART2A", "FuzzyART", "EllipsoidART"],
               "DualVigilanceART": ["FuzzyART", "EllipsoidART", "HypersphereART", "GaussianART", "QuadraticNeuronART",
                                    "ART2A", "BayesianART"],
               "CVIART": ["FuzzyART", "EllipsoidART", "HypersphereART", "GaussianART", "QuadraticNeuronART", "BayesianART"]}
_PLOT_KINDS = ["visualize:default", "visualize:own-labels", "visualize:own-labels:short-colors", "plot_cluster_bounds",
               "visualize:labels-copy:short-colors"]


def _mpl():
    try:
        import matplotlib
        matplotlib.use("Agg")
        import matplotlib.pyplot as plt
        return plt
    except Exception:   # noqa
        return None


def _other_value(r, host, base, key):
    """another value of the float hyper-parameter `key` that the base module's own validate_params (and, where the host
    keeps a copy, the host's) accepts; None when there is none"""
    hp = host.__dict__.get("params", {})
    if key == "rho_lower_bound":
        cur, top = hp.get(key), base.params.get("rho")
        if not isinstance(cur, float) or not isinstance(top, float) or not math.isfinite(top):
            return None
        cands = [(cur + top) / 2.0, cur / 2.0]
        cands = [float(c) for c in cands if c != cur and 0.0 <= c < top]
        return r.choice(cands) if cands else None
    cur = base.params.get(key)
    if not isinstance(cur, float) or not math.isfinite(cur):
        return None
    cur = float(cur)
    if key == "rho":
        if "Bayesian" in type(base).__name__:
            cands = [cur * 2.0, cur / 2.0]
        else:
            lo = float(hp.get("rho_lower_bound", 0.0))
            cands = [(cur + 1.0) / 2.0, (cur + lo) / 2.0]
            cands = [c for c in cands if c > lo or "rho_lower_bound" not in hp]
    elif key == "beta":
        lo = float(hp.get("beta_lower", 0.0))
        cands = [(cur + 1.0) / 2.0, (cur + lo) / 2.0]
    elif key == "mu":
        cands = [(cur + 1.0) / 2.0, cur / 2.0]
    elif key == "alpha":
        cands = [cur / 2.0] if cur > 0.0 else [2.0 ** -10]
    elif key == "r_hat":
        cands = [cur * 2.0, cur * 1.5]
    else:
        return None
    ok = []
    for c in cands:
        if c == cur or not math.isfinite(c):
            continue
        try:
            with quiet():
                type(base).validate_params(dict(base.params, **{key: c}))
                if key in hp:
                    host.validate_params(dict(hp, **{key: c}))
            ok.append(float(c))
        except Exception:   # noqa
            pass
    return r.choice(ok) if ok else None


def _diverged(host, base):
    """the hyper-parameters of which the host's own copy and its base module's `params` hold different values"""
    hp = host.__dict__.get("params", {})
    return sorted(k for k in hp if k in base.params and _leaf(hp[k]) != _leaf(base.params[k]))


def _plotting_in_history(ctx):
    """Oracle (implementation alone): the strict snapshot (get_params(deep=True) + every nested module's params, bit
    for bit) taken immediately before a call of the history equals the one taken immediately after it returned --
    fit_gif, fit, partial_fit, predict, and the visualize / plot_cluster_bounds calls made between them."""
    cov = ctx.cov
    plt = _mpl()
    if plt is None:
        cov.hit("plot-history:matplotlib-missing")
        return
    _shared_plot_scenarios(ctx, plt)
    import shutil
    import tempfile
    A = _impl.artlib
    tmp = tempfile.mkdtemp(prefix="artv-c07-plot-")
    try:
        for i in range(ctx.scale(24, 300)):
            r = gen.rng_for(ctx.seed, "C07-plot-history", i)
            host = _PLOT_HOSTS[i % len(_PLOT_HOSTS)]
            kind = _PLOT_BASES[host][(i // len(_PLOT_HOSTS)) % len(_PLOT_BASES[host])]
            mode = MODES[(i // 3) % 5]
            eps = r.choice([0.0, 2.0 ** -20, 2.0 ** -10, 0.125])
            # CVIART cannot be trained by fit_gif at all (its step_fit is not implemented): one try in a while, as a check
            # that the rejection is still what happens
            shape = "fit_gif" if (i % 5 in (0, 3) and (host != "CVIART" or r.random() < 0.2)) else "plots-between-training-calls"
            n = r.randint(3, 5) if shape == "fit_gif" else r.randint(4, 7)
            spec = specs.elem_spec(r, kind, 2)
            if host == "DualVigilanceART" and kind != "BayesianART" and spec.get("rho") == 0.0:
                spec["rho"] = 0.5
            if host == "TopoART" and spec.get("beta") == 1.0 and r.random() < 0.5:
                spec["beta"] = 0.75               # room above and below for a re-configured learning rate
            X = specs.elem_data(r, kind, n, 2)
            desc = {"host": host, "module": spec, "rows": {"X": X.tolist()}, "mode": mode, "eps": eps, "shape": shape,
                    "history": []}
            try:
                base = make(spec)
                pre = None
                if r.random() < 0.15:
                    pre = r.randint(1, max(1, n // 2))
                    with quiet():
                        base.partial_fit(X[:pre])
                    desc["module_trained_before_being_wrapped"] = {"rows_slice": [0, pre]}
                with quiet():
                    if host == "TopoART":
                        args = {"beta_lower": r.choice([b for b in [0.0, 0.25, 0.5] if b <= float(base.params["beta"])]),
                                "tau": r.randint(2, 9), "phi": 1}
                        est = A.TopoART(base, args["beta_lower"], args["tau"], args["phi"])
                    elif host == "DualVigilanceART":
                        rho = float(base.params["rho"])
                        args = {"rho_lower_bound": float(r.choice([rho / 2.0, rho / 4.0, 0.0]))}
                        est = A.DualVigilanceART(base, args["rho_lower_bound"])
                    else:
                        args = {"validity": r.choice([1, 2, 3])}
                        est = A.CVIART(base, args["validity"])
                desc["host_args"] = args
            except Exception as e:
                cov.hit(f"plot-history:construction-rejected:{host}:{kind}:{exc_enum(e)}")
                continue
            if pre is not None:
                cov.hit("plot-history:module-trained-before-being-wrapped")
            st = {"failed": False, "diverged-when-drawn": False, "drawn": 0, "reconfigured": 0}

            def reconfigure(force=False):
                """one public re-configuration; afterwards host and base module may hold different values"""
                own = [k for k in ("rho", "rho", "rho", "mu", "mu", "beta", "alpha", "r_hat") if isinstance(base.params.get(k), float)]
                if host == "DualVigilanceART":
                    how = r.choice(["base.attribute", "base.set_params", "host.set_params(base_module__)", "host.set_params",
                                    "host.attribute"])
                    key = "rho_lower_bound" if how in ("host.set_params", "host.attribute") else r.choice(own)
                else:
                    how = r.choice(["host.set_params", "host.set_params", "host.attribute", "base.attribute", "base.set_params"])
                    key = r.choice(own)
                v = _other_value(r, est, base, key)
                if v is None:
                    cov.hit(f"plot-history:no-other-valid-value:{key}")
                    return
                try:
                    with quiet():
                        if how == "host.set_params":
                            est.set_params(**{key: v})
                        elif how == "host.set_params(base_module__)":
                            est.set_params(**{"base_module__" + key: v})
                        elif how == "host.attribute":
                            setattr(est, key, v)
                        elif how == "base.attribute":
                            setattr(base, key, v)
                        else:
                            base.set_params(**{key: v})
                except Exception as e:
                    cov.hit(f"plot-history:re-configuration-rejected:{host}:{how}:{exc_enum(e)}")
                    return
                holder = est if how in ("host.set_params", "host.attribute") else base
                if _leaf(holder.__dict__["params"].get(key)) != _leaf(v):
                    cov.hit(f"plot-history:re-configuration-not-routed-into-params:{host}:{how}")
                    return
                st["reconfigured"] += 1
                desc["history"].append({"reconfigure": how, "key": key, "value": v, "value_hex": float(v).hex(),
                                        "copies_that_differ_afterwards": _diverged(est, base)})
                cov.hit(f"plot-history:re-configured:{how}:{key}")

            # a vetoing reset function (TopoART / DualVigilanceART take one in fit_gif and partial_fit alike): match
            # tracking really moves the base module's vigilance while frames are drawn
            kw = dict(match_tracking=mode, epsilon=eps)
            if host != "CVIART" and r.random() < 0.5:
                vt = gen.veto_table(r, n, n + 2)
                desc["veto"] = vt
                stt = {"i": -1}
                o_step = est.step_fit

                def step(x, *a, _o=o_step, _s=stt, **kw_):
                    _s["i"] += 1
                    return _o(x, *a, **kw_)
                object.__setattr__(est, "step_fit", step)

                def reset(i_, w_, c_, params=None, cache=None, _s=stt, _vt=vt, _m=n + 2):
                    return not _vt[_s["i"] % len(_vt)][int(c_) % _m]
                kw["match_reset_func"] = reset
                cov.hit("plot-history:vetoing-reset-function")

            def checked(op, call, entry, plotting=False):
                """one call of the history between two strict snapshots; False when it raised (not judged)"""
                desc["history"].append(entry)
                div = _diverged(est, base)
                sb, _, refs_b = _strict(est)
                try:
                    with quiet():
                        call()
                except Exception as e:
                    cov.hit(f"plot-history:{op}-raised:{host}:{kind}:{exc_enum(e)}")
                    entry["raised"] = exc_enum(e)
                    return False
                finally:
                    plt.close("all")
                sa, _, refs_a = _strict(est)
                diffs = _strict_diff(sb, sa)
                if diffs:
                    key, leaf, cat, _t = diffs[0]
                    ctx.issue("violation", f"{host}[{kind}].{op}:{leaf}:{cat}-changed:plotting-call-in-history",
                              f"{op} changed hyper-parameters (history with plotting calls; parameter copies of host and base "
                              f"module that differed when it started: {div or 'none'}; mode {mode}, eps {eps}): "
                              + "; ".join(t[3] for t in diffs[:6]),
                              dict(desc, failing_call=entry, changed=[{"entry": t[0], "category": t[2]} for t in diffs]))
                    st["failed"] = True
                    return True
                cov.hit(f"plot-history:call-checked:{op}")
                if plotting:
                    st["drawn"] += 1
                    if div:
                        st["diverged-when-drawn"] = True
                        cov.hit(f"plot-history:drawn-while-parameter-copies-differ:{host}:{op}")
                    elif st["reconfigured"]:
                        cov.hit(f"plot-history:drawn-after-re-configuration:{host}:{op}")
                return True

            def gif(tag):
                nce = r.choice([20, 20, 20, 1])
                extra = r.choice([{}, {}, {"linewidth": 2}, {"marker_size": 5}])
                fn = f"{tmp}/h{i}{tag}.gif"
                return checked("fit_gif", lambda: est.fit_gif(X, filename=fn, n_cluster_estimate=nce, fps=50, **kw, **extra),
                               {"call": "fit_gif", "rows_slice": [0, n], "n_cluster_estimate": nce, **extra}, plotting=True)

            def draw(j):
                plot = r.choice(_PLOT_KINDS)
                entry = {"call": plot, "rows_slice": [0, j]}

                def call():
                    labels = est.labels_ if "own-labels" in plot else np.array(est.labels_)
                    ncat = int(np.max(labels)) + 1 if len(labels) else 1
                    fig, ax = plt.subplots()
                    if plot == "plot_cluster_bounds":
                        est.plot_cluster_bounds(ax, [(0.1 * (k % 10), 0.5, 0.5, 1.0) for k in range(max(ncat, 1) + 12)])
                    elif plot.endswith("short-colors"):
                        est.visualize(X[:len(labels)], labels, ax=ax, colors=["r", "g"][: max(1, min(2, ncat - 1))])
                    else:
                        est.visualize(X[:len(labels)], labels, ax=ax)
                return checked(plot.split(":")[0], call, entry, plotting=True)

            def train(a, b):
                if host == "CVIART":
                    kw_ = {k_: v_ for k_, v_ in kw.items()}
                    return checked("fit", lambda: est.fit(X[:b], **kw_), {"call": "fit", "rows_slice": [0, b]})
                op = "partial_fit" if r.random() < 0.8 or a > 0 else "fit"
                return checked(op, lambda: getattr(est, op)(X[a:b], **kw), {"call": op, "rows_slice": [a, b]})

            if shape == "fit_gif":
                for _ in range(r.choice([1, 1, 2])):
                    reconfigure()
                ok = gif("a")
                if ok and not st["failed"] and r.random() < 0.5:
                    reconfigure()
                    if host != "CVIART" and r.random() < 0.7:
                        k = r.randint(1, n)
                        ok = checked("partial_fit", lambda: est.partial_fit(X[:k], **kw), {"call": "partial_fit", "rows_slice": [0, k]})
                    else:
                        ok = gif("b")
                if ok and not st["failed"] and r.random() < 0.5:
                    checked("predict", lambda: est.predict(X), {"call": "predict", "rows_slice": [0, n]})
            else:
                start = pre or 0
                parts = gen.compositions(r, n - start)
                if len(parts) == 1 and n - start >= 2:
                    parts = [(n - start) - (n - start) // 2, (n - start) // 2]
                if r.random() < 0.7:
                    reconfigure()
                j = start
                for ci, p in enumerate(parts):
                    if ci > 0 and (r.random() < 0.5 or not st["reconfigured"]):
                        reconfigure()
                    if not train(j, j + p) or st["failed"]:
                        break
                    j += p
                    if not st["reconfigured"]:
                        reconfigure()
                    draw(j)
                    if st["failed"]:
                        break
                    if r.random() < 0.3:
                        checked("predict", lambda: est.predict(X[:j]), {"call": "predict", "rows_slice": [0, j]})
                        if st["failed"]:
                            break
            if st["drawn"] and not st["failed"]:
                cov.hit(f"plot-history:{shape}:{host}:{kind}")
            cov.case(("plot-history", host, kind, str(spec), str(desc["rows"]), mode, eps, str(desc["history"])),
                     st["drawn"] > 0 and st["diverged-when-drawn"])
    finally:
        plt.close("all")
        shutil.rmtree(tmp, ignore_errors=True)


def _shared_plot_scenarios(ctx, plt):
    """the shared generator: every family after a plotting call inside a history.  The plotting call itself must have
    left the parameter tree as it was (for fit_gif -- a training call on a freshly constructed estimator -- as the
    constructor left it), and the training / prediction calls that follow are judged between strict snapshots."""
    from .. import plotpure
    cov = ctx.cov
    for sc in plotpure.scenarios(ctx, "C07", quick=12, thorough=160):
        name = sc.fam.name
        op = sc.plot.split(":")[0]
        desc = dict(sc.desc, trained_by=sc.trained_by, drawing_raised=sc.raised)
        try:
            if op == "fit_gif":
                if sc.raised is not None:
                    cov.hit("plot-history:shared:fit_gif-stopped-in-a-frame")    # not a completed training call
                    continue
                before, after = params_tree(sc.fam.make()), params_tree(sc.est)
            else:
                before, after = sc.before["params"], sc.after["params"]
            if not eq_snap(before, after):
                ctx.issue("violation", f"{name}.{op}:params-changed:plotting-call-in-history",
                          f"{sc.plot} (after {sc.trained_by}) changed hyper-parameters: before {before} after {after}", desc)
                continue
            cov.hit(f"plot-history:shared:call-checked:{op}")
            k = 1 + (len(sc.rows) > 2)
            sl = sc.rows.sl(0, k)
            sb, _, refs_b = _strict(sc.est)
            cont = "partial_fit" if sc.fam.has_pfit else "fit"
            (sc.fam.pfit if sc.fam.has_pfit else sc.fam.fit)(sc.est, sl)
            sa, _, refs_a = _strict(sc.est)
            diffs = _strict_diff(sb, sa)
            if not diffs and sc.fam.has_predict:
                cont = "predict"
                sc.fam.predict(sc.est, sl)
                sa, _, refs_a = _strict(sc.est)
                diffs = _strict_diff(sb, sa)
            if diffs:
                ctx.issue("violation", f"{name}.{cont}:{diffs[0][1]}:{diffs[0][2]}-changed:after-plotting-call",
                          f"{cont} after {sc.trained_by} then {sc.plot} changed hyper-parameters: " + "; ".join(t[3] for t in diffs[:6]),
                          dict(desc, then={"call": cont, "rows_slice": [0, k]}))
                continue
            cov.hit("plot-history:shared:continuation-checked")
        except Exception as e:
            cov.hit(f"plot-history:shared:continuation-raised:{name}:{exc_enum(e)}")
        finally:
            plt.close("all")
        cov.case(("plot-shared", name, str(sc.fam.spec), str(sc.desc["rows"]), sc.plot, sc.trained_by), sc.raised is None)
