"""C07 — hyper-parameters are invariant under learning.  Oracle: the parameter
tree (by value) of the estimator and every nested module before vs after every
fit / partial_fit / predict call, all families, all modes and epsilons; and the
threshold seen by the first reset-function call of every sample is the
configured one.  Tie: the per-step thresholds in force are replayed through the
Lean search (shared with C01's trace tie)."""
from __future__ import annotations

import numpy as np

from .. import gen, families, specs
from ..impl import quiet, exc_enum, params_tree, eq_snap, make, Recorder, MODES

RULE = ("cases = (family, hyper-parameters incl. nested modules, stream with labels, mode, epsilon, history of "
        "fit/partial_fit/predict); params compared by value around every call; non-trivial when match tracking "
        "actually moved a threshold during the call (reset function vetoed a matching category) or the history has "
        ">= 2 calls; distinct by hash of (family spec, stream, mode, eps, history)")


def prepare(ctx):
    """Translator tie (see gen_tie.py): the statements of BaseART.step_fit are regenerated from the source and the
    theorems about the generated definition are re-checked"""
    from .gen_tie import gen_prepare
    gen_prepare(ctx, ['Control.step_fit_refines', 'Control.step_fit_restores_params', 'Control.fit_restores_params', 'Control.predict_spec'], "BaseART.step_fit (translated control flow) returns the params it was given")


def run(ctx):
    cov = ctx.cov
    N = ctx.scale(380, 8000)
    nmax = ctx.scale(14, 60)
    names = families.ALL_FAMILIES
    for i in range(N):
        r = gen.rng_for(ctx.seed, "C07", i)
        name = names[i % len(names)]
        n = r.randint(1, nmax)
        mode = MODES[(i // len(names)) % 5]
        eps = r.choice([0.0, 2.0 ** -20, 2.0 ** -10, 1e-10, 0.125])
        fam, rows = families.build(r, name, n, floats=r.random() < 0.25, mode=mode, eps=eps)
        n = len(rows)
        desc = dict(fam.describe(), rows=rows.tolist())
        est = fam.make()
        # an estimator re-configured through the public set_params after construction (a nested vigilance moved
        # half-way towards 1) is as much "configured" as a freshly constructed one: training must leave it alone too
        if hasattr(est, "get_params") and r.random() < 0.5:
            try:
                with quiet():
                    gp = est.get_params(deep=True)
                keys = [k for k, v in gp.items() if (k == "rho" or k.endswith("__rho")) and isinstance(v, float) and 0.0 <= v < 1.0
                        and "Bayesian" not in type(gp.get(k.rsplit("__", 1)[0], est)).__name__]
                if keys:
                    k_ = r.choice(sorted(keys))
                    with quiet():
                        est.set_params(**{k_: (gp[k_] + 1.0) / 2.0})
                    desc = dict(desc, set_params_after_construction={k_: (gp[k_] + 1.0) / 2.0})
                    cov.hit("reconfigured-by-set_params-before-training" + (":nested" if "__" in k_ else ""))
            except Exception as e:
                cov.hit(f"set_params-raised:{name}:{exc_enum(e)}")
                est = fam.make()
        before = params_tree(est)
        parts = gen.compositions(r, n)
        j = 0
        ncalls = 0
        for p in parts:
            sl = rows.sl(j, j + p)
            j += p
            op = "pfit" if (fam.has_pfit and (not fam.has_fit or r.random() < 0.7)) else "fit"
            try:
                (fam.pfit if op == "pfit" else fam.fit)(est, sl)
            except Exception as e:
                cov.hit(f"train-raised:{name}:{exc_enum(e)}")
                break
            ncalls += 1
            after = params_tree(est)
            if not eq_snap(before, after):
                ctx.issue("violation", f"{name}.{op}:params-changed",
                          f"{op} changed hyper-parameters: before {before} after {after}", dict(desc, op=op, rows_slice=[j - p, j]))
                break
            if fam.has_predict and r.random() < 0.4:
                try:
                    fam.predict(est, sl)
                    after = params_tree(est)
                    if not eq_snap(before, after):
                        ctx.issue("violation", f"{name}.predict:params-changed",
                                  f"predict changed hyper-parameters: before {before} after {after}", desc)
                        break
                    cov.hit("predict-checked")
                except Exception as e:
                    cov.hit(f"predict-raised:{name}:{exc_enum(e)}")
        cov.case((name, fam.spec, desc["rows"], mode, eps, parts), ncalls >= 2)
        if i < 3:
            cov.sample({"family": name, "spec": fam.spec, "mode": mode, "eps": eps, "calls": ncalls})
    # ---- caller-supplied reset function on bare modules and FusionART: every exit path, and the
    #      first threshold of every sample is the configured one
    M = ctx.scale(300, 6000)
    classes = specs.ELEM + ["FusionART", "DualVigilanceART", "TopoART"]
    for i in range(M):
        r = gen.rng_for(ctx.seed, "C07-reset", i)
        cls = classes[i % len(classes)]
        mode = MODES[(i // len(classes)) % 5]
        eps = r.choice([0.0, 2.0 ** -10, 0.125])
        n = r.randint(2, nmax)
        fam, rows = families.build(r, cls, n, mode=mode, eps=eps)
        n = len(rows)
        est = fam.make()
        vt = gen.veto_table(r, n, n + 2)
        seen = []
        state = {"i": -1, "first": True}
        inner = est.base_module if cls in ("DualVigilanceART", "TopoART") else est
        o_step = est.step_fit

        def step(x, *a, _o=o_step, **kw):
            state["i"] += 1
            state["first"] = True
            return _o(x, *a, **kw)
        object.__setattr__(est, "step_fit", step)

        def reset(i_, w_, c_, params=None, cache=None):
            if state["first"]:
                state["first"] = False
                seen.append((state["i"], params.get("rho") if isinstance(params, dict) else None))
            return not vt[state["i"]][int(c_) % (n + 2)]
        conf = None
        if cls != "FusionART":
            conf = inner.params["rho"]
        before = params_tree(est)
        tracked = False
        try:
            with quiet():
                est.fit(rows.arrs["X"], match_reset_func=reset, match_tracking=mode, epsilon=eps)
        except Exception as e:
            cov.hit(f"reset-train-raised:{cls}:{exc_enum(e)}")
            continue
        after = params_tree(est)
        desc = dict(fam.describe(), rows=rows.tolist(), veto=vt)
        if not eq_snap(before, after):
            ctx.issue("violation", f"{cls}.fit+reset:params-changed", f"hyper-parameters changed under a vetoing reset "
                      f"function (mode {mode}): before {before} after {after}", desc)
        if conf is not None and mode != "MT~":
            bad = [(s, rho) for s, rho in seen if rho is not None and rho != conf]
            if bad:
                ctx.issue("violation", f"{cls}:first-threshold!=configured",
                          f"sample {bad[0][0]} was first judged against rho={bad[0][1]}, configured {conf} (mode {mode})", desc)
        cov.case(("reset", cls, fam.spec, desc["rows"], mode, eps, vt), any(any(row) for row in vt))
        cov.hit(f"reset-history:{mode}")
        cov.traces += 1
