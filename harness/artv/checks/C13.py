"""C13 — dual vigilance.

Tie: every training step of the real `DualVigilanceART` is recorded (activations
and match values as float bits, reset-function answers per CLUSTER label) and the
whole call history is replayed by the Lean model (`dual …` line, table-driven):
labels, map, n_clusters, counters, |W| and the per-step decision must be equal.

Oracle (implementation alone): the property statement executed with public
kernel calls on a deep copy of the base module taken before each step — three-way
decision over *all* categories by decreasing activation, map total / values
exactly 0..n_clusters-1, returned / predicted labels in range, base weights change
only where the upper test passed, base parameters restored after every step and call.

Reset functions come in two families.  Label-keyed veto tables (a function of sample and CLUSTER label: what every
reset function inside the library is) go through the tie above.  Category-keyed reset functions (`gen_judge`: the
answer depends on the CATEGORY handed over — its index, its weight `w`, the match value in `cache` — so two categories
of one cluster get different verdicts for the same sample) are oracle-only: the three-way decision is evaluated per
visited category with the reset function's own answers (the Lean model's veto table is indexed by cluster label).
A third family, also oracle-only, is the RE-ENTRANT reset function (`gen_reenter`): it trains the very estimator whose
step is still searching (nested partial_fit / step_fit of anchor rows), so a category can be added between the moment the
step started and the moment it creates its own; the map clauses of the statement are checked at every quiescent point.
A fourth family, oracle-only too, has SEVERAL hosts (`gen_shared`): host j>0 wraps copy.copy / copy.deepcopy of the base
module of an earlier host (a shallow copy of a trained module shares its W list, counters, labels_ and params dict); the
hosts are trained in an interleaved schedule and after every training call the map / label / predict clauses of the
statement are evaluated on every host, the ones the call did not train included.
A fifth family, oracle-only, is the EXCEPTION PATH (`gen_faulty`): a training call raises from inside the base module
(new_weight / add_weight / update / set_weight / the kernels of a user subclass of the elementary module, a category budget,
or the library's own arithmetic: ART1 with L = 1.0 meeting the all-zero pattern) or from the reset function; the caller
catches the error and keeps training / predicting with the same estimator (dropping the batch or presenting it again);
the map / label / predict clauses of the statement are evaluated after every call, the failed ones included.
"""
from __future__ import annotations

from copy import deepcopy
import hashlib
import struct

import numpy as np

from .. import gen, specs
from ..common import f2hex, run_driver, parse_kv, parse_nats, parse_optnats, vec_f
from ..impl import make, Recorder, StepRec, step_table, sorted_live, quiet, exc_enum, MODES, params_tree, DualVigilanceART

RULE = ("cases = (base class, base hyper-parameters, rho_lower_bound, data set, match-tracking mode, epsilon, "
        "veto table by cluster label, reset function keyed on the category (index / weight / match value), reset function that "
        "re-enters the estimator (nested partial_fit/step_fit of anchor rows while a step is searching) or none, call "
        "history fit/partial_fit/predict/re-fit) or (two or three hosts, host j>0 over copy.copy / deepcopy of an earlier "
        "host's base module taken before or after its training, interleaved schedule of their training calls) or (base module "
        "= library class or user subclass whose hooks raise by a fault plan: category budget / per-hook schedule / raising reset "
        "function, schedule of fit/partial_fit calls whose exceptions the caller catches, drop-or-retry policy); a case is non-trivial when a step visited >= 2 categories, spawned a "
        "category, met a veto, two categories of one cluster got different verdicts, or a nested call added a category "
        "while the step was searching and the step then created one too, or a host was checked after a training call of "
        "another host whose base module shared its W list when the copy was taken, or a call failed while a category was "
        "being opened (>= 1 category present) and a later call created a category; distinct by hash of all of these")

SIG_F18 = "DualVigilanceART.step_fit:nonpositive-activation-not-visited"
SIG_LOWERED = "DualVigilanceART.step_fit:reset+tracking:absorbed-below-configured-rho"
SIG_EMPTY = "DualVigilanceART.fit:empty-batch:stale-map"
SIG_INV = "DualVigilanceART.step_fit:BayesianART:non-inverted-tracking-relaxes-rho"
INSTR = ("step_fit", "category_choice", "match_criterion_bin")


def op_for(mode):
    import operator
    return operator.ge if mode in ("MT+", "MT-", "MT1") else operator.gt


def clean_copy(base):
    """deep copy of the base module without the recorder's instance patches"""
    cp = deepcopy(base)
    for k in INSTR:
        cp.__dict__.pop(k, None)
    return cp


def track(mode, th, M, eps):
    """DualVigilanceART._match_tracking (the wrapper's own, non-inverted rule)"""
    if mode == "MT+":
        return M + eps, True
    if mode == "MT-":
        return M - eps, True
    if mode == "MT0":
        return M, True
    if mode == "MT1":
        return float("inf"), False
    return th, True


def kernel_view(cp, x, mode):
    """activations and a match test `passes(c, rho)` from public kernel calls"""
    T, caches = [], []
    for w in cp.W:
        t, cache = cp.category_choice(x, w, params=cp.params)
        T.append(float(t))
        caches.append(cache)
    op = op_for(mode)

    def passes(c, rho):
        m, cache = cp.match_criterion_bin(x, cp.W[c], params=dict(cp.params, rho=rho),
                                          cache=deepcopy(caches[c]), op=op)
        return bool(m), float(cache["match_criterion"])

    return T, passes


def statement_decision(T, passes, cmap, rho, lb, mode, eps, veto_row, positive_only, trace=None):
    """The statement, single pass: by decreasing activation (ties: oldest), the
    first non-vetoed category passing the upper vigilance in force absorbs, one
    passing only the lower vigilance spawns; otherwise a fresh label.
    `veto_row`: None, a row indexed by cluster label, or a callable (category, match value) -> vetoed?
    (the reset function's own answer for that category).  `trace` collects (category, vetoed?) as visited."""
    order = sorted_live(T)
    if positive_only:
        order = [c for c in order if T[c] > 0]
    if veto_row is None or callable(veto_row):
        vetoed = veto_row
    else:
        vetoed = lambda c, M: veto_row[cmap[c]]          # noqa: E731
    th = rho
    for c in order:
        m1, M = passes(c, th)
        v = vetoed is not None and bool(vetoed(c, M))
        if trace is not None:
            trace.append((c, v))
        if v:
            # match tracking: only after a vetoed category that passed the vigilance in force
            # (BaseART's rule; DualVigilanceART since /repo 1d1ae6e, F27)
            if m1:
                th, keep = track(mode, th, M, eps)
                if not keep:
                    break
            continue
        if m1:
            return ("a", c, th)
        m2, _ = passes(c, lb)
        if m2:
            return ("s", c, th)
    return ("n", None, th)


# ---------------------------------------------------------------- reset functions that look at the category
JUDGE_KINDS = ("index", "weight-extent", "weight-bytes", "match-value")


def gen_judge(r, n, maxcat):
    """A caller-supplied reset function whose answer depends on the category it is handed, as data:
    index        — a veto table indexed by (sample, CATEGORY index) (the function finds the category the weight
                   belongs to in base_module.W);
    weight-extent— permits a category iff mean |x - w[:len(x)]| <= cap (a geometric bound on the weight handed over);
    weight-bytes — an arbitrary fixed function of (sample number, bytes of w);
    match-value  — an arbitrary fixed function of (sample number, cache['match_criterion'])."""
    kind = r.choice(JUDGE_KINDS)
    js = {"kind": kind, "salt": r.getrandbits(32), "p_permit": r.choice([0.3, 0.5, 0.5, 0.7, 0.85])}
    if kind == "index":
        js["veto_by_category_index"] = [[r.random() >= js["p_permit"] for _ in range(maxcat)] for _ in range(max(n, 1))]
    if kind == "weight-extent":
        js["cap"] = r.choice([0.0625, 0.125, 0.25, 0.375, 0.5, 0.75])
    return js


def _coin(js, g, payload):
    h = hashlib.blake2b(struct.pack("<IQ", js["salt"], g) + payload, digest_size=4).digest()
    return int.from_bytes(h, "big") / 2.0 ** 32 < js["p_permit"]


def judge(js, g, j, x, w, label, M):
    """the reset function's answer (True = the category may take the sample) for sample number g, category j"""
    kind = js["kind"]
    if kind == "index":
        tab = js["veto_by_category_index"]
        row = tab[g % len(tab)]
        return not row[j % len(row)]
    w = np.asarray(w, dtype=float).ravel()
    if kind == "weight-extent":
        x = np.asarray(x, dtype=float).ravel()
        k = min(len(x), len(w))
        return bool(float(np.mean(np.abs(x[:k] - w[:k]))) <= js["cap"])
    if kind == "weight-bytes":
        return _coin(js, g, w.tobytes())
    return _coin(js, g, struct.pack("<d", float(M)))


# ---------------------------------------------------------------- reset functions that train the estimator (re-entrant)
def gen_reenter(r, case):
    """A caller-supplied reset function that RE-ENTERS the estimator being trained, as data.  While a step of
    fit/partial_fit is still searching, the reset function replays stored anchor rows into the very same
    DualVigilanceART (`dual.partial_fit(rows)` or `dual.step_fit(row)`: a "rehearsal" hook), so categories may be
    added / weights changed under the feet of the running step, and then answers:
    when     — 'upper-failed' (the examined category failed the upper test: cache['match_criterion_bin'] is False),
               'every-call', 'first-call-of-step', 'coin' (fixed function of (step number, call number));
    via/rows — nested call and rows per call (anchors are taken cyclically); budget = total nested calls;
    nested_depth — 1: the nested call gets no reset function; 2: it gets this same function, which may re-enter once
               more (that innermost call without a reset function);
    answer   — always True, or a veto table indexed by (outermost step number, CLUSTER label)."""
    cls, d, n = case["cls"], case["d"], len(case["X"])
    m = r.randint(2, 8)
    floats = r.random() < 0.25 and cls != "ART1"
    A = specs.elem_data(r, cls, m, d, style=r.choice([None, None, "corners", "coarse"]), floats=floats)
    plan = {"when": r.choice(["upper-failed", "upper-failed", "every-call", "first-call-of-step", "coin"]),
            "p": r.choice([0.3, 0.5, 0.8]), "salt": r.getrandbits(32),
            "via": r.choice(["partial_fit", "partial_fit", "step_fit"]), "rows": r.choice([1, 1, 1, 2]),
            "nested_depth": r.choice([1, 1, 2]), "budget": r.choice([m, 2 * m, 4 * m]),
            "answer": r.choice(["permit", "permit", "veto-table"]), "veto_by_cluster_label": None}
    if plan["answer"] == "veto-table":
        plan["veto_by_cluster_label"] = gen.veto_table(r, max(n, 1), n + 2)
    return A, plan


def run_reentrant(ctx, case, idx):
    """Oracle-only (the Lean model has no notion of a reset function with side effects): the structural clauses of the
    statement — map total, values exactly 0..n_clusters-1, a category never changes cluster, every returned / recorded /
    predicted label is a cluster label, predict does not raise — executed at every quiescent point: after each nested
    call returns, after each step returns, after each fit/partial_fit call returns."""
    cov = ctx.cov
    cls, mode, spec, lb, X, eps = (case[k] for k in ("cls", "mode", "spec", "lb", "X", "eps"))
    A, plan = case["anchors"], case["reenter"]
    rep = {"case": idx, "class": cls, "spec": spec, "rho_lower_bound": lb, "mode": mode, "eps": eps, "X": X,
           "anchors": A, "reentrant_reset_function": dict(plan, doc=gen_reenter.__doc__),
           "history": [(h[0], h[1] if h[0] == "pred" else [h[1], h[2]]) for h in case["hist"]]}
    key = ("reenter", cls, spec, lb, X.tolist(), A.tolist(), mode, eps, plan,
           [(h[0], np.asarray(h[1]).tolist()) if h[0] == "pred" else h for h in case["hist"]])
    PRE = "DualVigilanceART.step_fit:reentrant-reset:"
    try:
        with quiet():
            base = make(spec)
            dual = DualVigilanceART(base, lb)
    except Exception as e:
        ctx.issue("violation", f"DualVigilanceART.__init__:{cls}:{exc_enum(e)}",
                  f"constructor raised {e!r} for rho={spec['rho']} > rho_lower_bound={lb} >= 0", rep)
        cov.case(key, False)
        return
    st = {"g": -1, "k": 0, "calls": 0, "next": 0, "stack": [], "known": {}, "bad": False, "target": False,
          "nested": 0, "seen": []}
    vt = plan["veto_by_cluster_label"]

    def nW():
        return len(base.W) if "W" in base.__dict__ else 0

    def quiescent(where, ret=None, x=None):
        """the map clauses of the statement, at a moment when no step of this nesting level or deeper is running"""
        n, cmap = nW(), dict(dual.map)
        srep = dict(rep, where=where, outermost_step=st["g"], nested_calls_so_far=st["calls"], map=cmap, n_categories=n)
        if x is not None:
            srep["x"] = np.array(x, dtype=float)
        ok = True
        if n > 0 and sorted(cmap) != list(range(n)):
            missing, extra = sorted(set(range(n)) - set(cmap)), sorted(set(cmap) - set(range(n)))
            ctx.issue("violation", PRE + "map-not-total",
                      f"{where}: {n} categories, map keys {sorted(cmap)}: categories without a cluster {missing}, "
                      f"keys that are no category {extra}", srep)
            ok = False
        vals = sorted(set(cmap.values()))
        if n > 0 and (vals != list(range(len(vals))) or len(vals) != dual.n_clusters):
            ctx.issue("violation", PRE + "map-values-not-contiguous",
                      f"{where}: map values {vals}, n_clusters {dual.n_clusters}", srep)
            ok = False
        moved = {c: (v, cmap.get(c)) for c, v in st["known"].items() if c in cmap and cmap[c] != v}
        if moved:
            ctx.issue("violation", PRE + "map-entry-changed",
                      f"{where}: categories changed cluster (category: before, after) {moved}", srep)
            ok = False
        if ret is not None and int(ret) not in vals:
            ctx.issue("violation", PRE + "label-not-a-cluster",
                      f"{where}: the step returned {int(ret)}, map values {vals}", srep)
            ok = False
        if ok:
            st["known"] = cmap
        else:
            st["bad"] = True
        return ok

    inner = dual.step_fit

    def framed(x, *a, **kw):
        depth = len(st["stack"])
        if depth == 0:
            st["g"] += 1
            st["k"] = 0
            if nW() == 0:
                st["known"] = {}        # a fresh fit
        fr = {"n0": nW(), "added": 0}
        st["stack"].append(fr)
        try:
            c = inner(x, *a, **kw)
        finally:
            st["stack"].pop()
        created = nW() - fr["n0"] - fr["added"]
        if fr["added"] > 0:
            cov.hit("reentrant-reset:category-added-while-step-was-searching")
            if created == 1:
                st["target"] = True
                cov.hit("reentrant-reset:category-added-while-searching-then-step-created-one")
            elif created == 0:
                cov.hit("reentrant-reset:category-added-while-searching-then-step-absorbed")
        if not st["bad"]:
            quiescent(f"after step {st['g']} returned" + (f" (nesting depth {depth})" if depth else ""), ret=c, x=x)
        return c
    object.__setattr__(dual, "step_fit", framed)

    def trigger(g, k, cache):
        w = plan["when"]
        if w == "upper-failed":
            return not cache.get("match_criterion_bin", True)
        if w == "every-call":
            return True
        if w == "first-call-of-step":
            return k == 0
        h = hashlib.blake2b(struct.pack("<IQQ", plan["salt"], g, k), digest_size=4).digest()
        return int.from_bytes(h, "big") / 2.0 ** 32 < plan["p"]

    def reenter(i_, w_, c_, params, cache):
        depth = len(st["stack"])           # >= 1: asked from inside a running step
        g, k = st["g"], st["k"]
        st["k"] += 1
        if (not st["bad"] and st["calls"] < plan["budget"] and depth <= plan["nested_depth"]
                and trigger(g, k, cache)):
            st["calls"] += 1
            rows = A[[(st["next"] + t) % len(A) for t in range(plan["rows"])]]
            st["next"] += plan["rows"]
            st["seen"].append(rows)
            n0 = nW()
            again = reenter if depth < plan["nested_depth"] else None
            if plan["via"] == "partial_fit":
                dual.partial_fit(rows, match_reset_func=again, match_tracking=mode, epsilon=eps)
            else:
                for row in rows:
                    dual.step_fit(row, match_reset_func=again, match_tracking=mode, epsilon=eps)
            st["stack"][-1]["added"] += nW() - n0
            st["nested"] += 1
            if depth >= 2:
                cov.hit("reentrant-reset:nested-twice")
            if not st["bad"]:
                quiescent(f"step {g}, after the nested {plan['via']} call number {st['calls']} returned "
                          f"(nesting depth {depth})")
        if vt is None:
            return True
        row = vt[g % len(vt)]
        return not row[int(c_) % len(row)]

    seen_outer = []
    for h in case["hist"]:
        if st["bad"]:
            break
        if h[0] == "pred":
            P = h[1]
        else:
            kind, a, b = h
            if b == a:
                continue
            B = X[a:b]
            try:
                with quiet():
                    if kind == "fit":
                        dual.fit(B, match_reset_func=reenter, match_tracking=mode, epsilon=eps)
                        seen_outer = []
                    else:
                        dual.partial_fit(B, match_reset_func=reenter, match_tracking=mode, epsilon=eps)
            except Exception as e:
                st["stack"].clear()
                if not st["bad"]:
                    ctx.issue("violation", f"DualVigilanceART.{kind}:reentrant-reset:{cls}:{exc_enum(e)}",
                              f"training raised {e!r} on validated data with a reset function that replays anchor rows "
                              f"into the estimator (mode {mode}; map {dict(dual.map)}, {nW()} categories)",
                              dict(rep, outermost_step=st["g"], nested_calls_so_far=st["calls"]))
                st["bad"] = True
                break
            seen_outer.append(B)
            if st["bad"] or not quiescent(f"after {kind} on rows {a}..{b} returned"):
                break
            vals = set(dual.map.values())
            lab = [int(t) for t in dual.labels_]
            if any(t not in vals for t in lab):
                ctx.issue("violation", f"DualVigilanceART.{kind}:reentrant-reset:label-not-a-cluster",
                          f"labels_ {lab}, map values {sorted(vals)}", rep)
            cov.hit("reentrant-reset:outer:" + kind)
            P = np.vstack(seen_outer + st["seen"])
        if nW() == 0:
            continue
        try:
            with quiet():
                y = [int(t) for t in dual.predict(P)]
        except Exception as e:
            ctx.issue("violation", f"DualVigilanceART.predict:reentrant-reset:{cls}:{exc_enum(e)}",
                      f"predict raised {e!r} after training with a reset function that replays anchor rows into the "
                      f"estimator (map {dict(dual.map)}, {nW()} categories)", dict(rep, predict_on=P))
            break
        vals = set(dual.map.values())
        if any(t not in vals or not (0 <= t < dual.n_clusters) for t in y):
            ctx.issue("violation", "DualVigilanceART.predict:reentrant-reset:label-out-of-range",
                      f"predicted {y}, map values {sorted(vals)}, n_clusters {dual.n_clusters}", dict(rep, predict_on=P))
        cov.hit("reentrant-reset:predict")
    dual.__dict__.pop("step_fit", None)
    cov.case(key, st["target"])
    cov.hit("reentrant-reset")
    if st["nested"]:
        cov.hit("reentrant-reset:nested-call-made")
        cov.hit("reentrant-reset:when:" + plan["when"])
        cov.hit("reentrant-reset:via:" + plan["via"])
        cov.hit("reentrant-reset:answer:" + plan["answer"])
        cov.hit("reentrant-reset:mode:" + mode)
        cov.hit("reentrant-reset:class:" + cls)


# ---------------------------------------------------------------- hosts whose base modules share state (copy.copy)
LINK_BEFORE = "copy.copy-before-training"
LINKS = ("copy.copy", "copy.copy", "copy.copy", "copy.copy", "copy.deepcopy", LINK_BEFORE)
SHARED_DOC = (
    "Several DualVigilanceART hosts, host 0 over a fresh base module make(spec), host j>0 over a copy of the base module "
    "of host `wraps.parent`: copy.copy(parent.base_module) taken when the schedule says so (the parent has been trained "
    "through its host by then: the shallow copy shares the parent's W list, counter list, labels_ array and params dict), "
    "copy.deepcopy (control: shares nothing) or copy.copy taken before any training (shares the params dict only).  "
    "`schedule` is executed in order: ['wrap', j] builds DualVigilanceART(<copy>, hosts[j].rho_lower_bound); "
    "[kind, j, a, b] calls hosts[j].fit / .partial_fit(hosts[j].X[a:b], match_reset_func, match_tracking=mode, "
    "epsilon=eps); the first training call of a host over a trained copy is always fit (a fresh start).  "
    "match_reset_func of host j is None or lambda x, w, label, params, cache: C13.shared_permit(hosts[j].reset, x, label).  "
    "After every training call the clauses of the statement are evaluated on EVERY host trained so far: map total over "
    "len(base_module.W), map values exactly 0..n_clusters-1, labels_ and predict(rows seen + probe rows) inside the map's "
    "values, predict does not raise, entries of the map never change (except by the host's own fit).")


def shared_permit(rs, x, label):
    """the reset function of a host in the shared-module family: a fixed function of (sample, CLUSTER label)"""
    h = hashlib.blake2b(struct.pack("<Iq", rs["salt"], int(label)) + np.asarray(x, dtype=float).tobytes(),
                        digest_size=4).digest()
    return int.from_bytes(h, "big") / 2.0 ** 32 < rs["p_permit"]


def gen_shared(r, i, nmax):
    """two or three hosts and a schedule (see SHARED_DOC), as data"""
    cls = specs.ELEM[i % len(specs.ELEM)]
    mode = MODES[(i // len(specs.ELEM)) % 5]
    d = r.randint(1, 3)
    spec = specs.elem_spec(r, cls, d)
    if spec["rho"] <= 0:
        spec["rho"] = r.choice([0.25, 0.5, 0.75, 0.875, 1.0])
    rho = spec["rho"]
    lbs = [0.0, 0.0, rho / 2, rho / 4, rho * 0.875] + ([0.125] if rho > 0.125 else [])
    floats = r.random() < 0.25 and cls != "ART1"
    eps = r.choice([0.0, 2.0 ** -20, 2.0 ** -10, 1e-10, 0.125])
    nh = r.choice([2, 2, 2, 3])
    hosts, queues = [], []
    for j in range(nh):
        n = r.randint(1, nmax)
        X = specs.elem_data(r, cls, n, d, style=r.choice([None, None, "corners", "coarse", "dups"]), floats=floats)
        q, a = [], 0
        for p in gen.compositions(r, n):
            q.append([r.choice(["pfit", "pfit", "fit"]), j, a, a + p])
            a += p
        wraps = None
        if j > 0:
            how = r.choice(LINKS)
            wraps = {"parent": 0 if how == LINK_BEFORE else r.randrange(j), "how": how}
            if how != LINK_BEFORE:
                q[0][0] = "fit"          # a host over an already trained module starts afresh
        reset = {"salt": r.getrandbits(32), "p_permit": r.choice([0.3, 0.5, 0.7, 0.85])} if r.random() < 0.35 else None
        hosts.append({"rho_lower_bound": float(r.choice(lbs)), "X": X, "wraps": wraps, "reset": reset,
                      "probe": specs.elem_data(r, cls, 2, d, floats=floats)})
        queues.append(([["wrap", j]] if j > 0 else []) + q)
    # schedule: copies "before training" first, then a random merge in which a copy of a trained module is taken only once
    # its parent has been trained
    sched, trained = [], [False] * nh
    for j in range(1, nh):
        if hosts[j]["wraps"]["how"] == LINK_BEFORE:
            sched.append(queues[j].pop(0))
    while any(queues):
        ready = [j for j in range(nh) if queues[j]
                 and (queues[j][0][0] != "wrap" or trained[hosts[j]["wraps"]["parent"]])]
        j = r.choice(ready)
        ev = queues[j].pop(0)
        sched.append(ev)
        if ev[0] != "wrap":
            trained[j] = True
    return dict(cls=cls, mode=mode, d=d, spec=spec, eps=eps, hosts=hosts, schedule=sched)


def run_shared(ctx, case, idx):
    """Oracle-only (the Lean model is a model of ONE estimator): the structural clauses of the statement executed on every
    host after every training call of any host.  A host that was not trained by the call took no sample: its map, its
    categories' clusters and the validity of its predictions are what they were."""
    import copy as _copy
    cov = ctx.cov
    cls, mode, spec, eps, hosts, sched = (case[k] for k in ("cls", "mode", "spec", "eps", "hosts", "schedule"))
    rep = {"case": idx, "class": cls, "spec": spec, "mode": mode, "eps": eps, "hosts": hosts, "schedule": sched,
           "doc": SHARED_DOC}
    key = ("shared", cls, spec, mode, eps, [(h["rho_lower_bound"], h["X"].tolist(), h["wraps"], h["reset"]) for h in hosts],
           sched)
    PRE = "DualVigilanceART:shared-base-module:"
    nh = len(hosts)
    dual, seen, known, shares = [None] * nh, [[] for _ in range(nh)], [None] * nh, [False] * nh
    dead = set()
    try:
        with quiet():
            dual[0] = DualVigilanceART(make(spec), hosts[0]["rho_lower_bound"])
    except Exception as e:
        ctx.issue("violation", f"DualVigilanceART.__init__:{cls}:{exc_enum(e)}",
                  f"constructor raised {e!r} for rho={spec['rho']} > rho_lower_bound={hosts[0]['rho_lower_bound']} >= 0", rep)
        cov.case(key, False)
        return

    def name(j):
        return f"host {j}"

    def nW(j):
        b = dual[j].base_module
        return len(b.W) if "W" in b.__dict__ else 0

    def clauses(j, k, ev, touched):
        """the statement's structural clauses on host j after event k; returns True iff all hold"""
        who = "trained-host" if touched else "untouched-host"
        n, cmap = nW(j), dict(dual[j].map)
        where = (f"after event {k} {ev} ({'its own training call' if touched else 'a training call of ' + name(ev[1])}), "
                 f"{name(j)}" + (f" (over {hosts[j]['wraps']['how']} of the base module of {name(hosts[j]['wraps']['parent'])})"
                                 if hosts[j]["wraps"] else ""))
        srep = dict(rep, failing_event=k, failing_host=j, map=cmap, n_categories=n)
        P = np.vstack(seen[j] + [hosts[j]["probe"]])
        ok = True
        if sorted(cmap) != list(range(n)):
            missing, extra = sorted(set(range(n)) - set(cmap)), sorted(set(cmap) - set(range(n)))
            try:
                with quiet():
                    cons = f"predict returns {[int(t) for t in dual[j].predict(P)]}"
            except Exception as e:
                cons = f"predict raises {e!r}"
            ctx.issue("violation", PRE + who + ":map-not-total",
                      f"{where}: {n} categories in its base module, map keys {sorted(cmap)}: categories without a cluster "
                      f"{missing}, keys that are no category {extra}; {cons}", dict(srep, predict_on=P))
            return False
        vals = sorted(set(cmap.values()))
        if vals != list(range(len(vals))) or len(vals) != dual[j].n_clusters:
            ctx.issue("violation", PRE + who + ":map-values-not-contiguous",
                      f"{where}: map values {vals}, n_clusters {dual[j].n_clusters}", srep)
            ok = False
        if known[j] is not None:
            moved = {c: (v, cmap.get(c)) for c, v in known[j].items() if cmap.get(c) != v}
            if moved or (not touched and cmap != known[j]):
                ctx.issue("violation", PRE + who + ":map-entry-changed",
                          f"{where}: map was {known[j]}, is {cmap} (category: before, after) {moved}", srep)
                ok = False
        lab = [int(t) for t in dual[j].labels_]
        if any(t not in vals for t in lab):
            ctx.issue("violation", PRE + who + ":label-not-a-cluster", f"{where}: labels_ {lab}, map values {vals}", srep)
            ok = False
        try:
            with quiet():
                y = [int(t) for t in dual[j].predict(P)]
        except Exception as e:
            ctx.issue("violation", PRE + who + f":predict:{cls}:{exc_enum(e)}",
                      f"{where}: predict raised {e!r} on rows it was trained on / valid probe rows (map {cmap}, {n} categories)",
                      dict(srep, predict_on=P))
            return False
        if any(t not in vals or not (0 <= t < dual[j].n_clusters) for t in y):
            ctx.issue("violation", PRE + who + ":predicted-label-not-a-cluster",
                      f"{where}: predicted {y}, map values {vals}, n_clusters {dual[j].n_clusters}", dict(srep, predict_on=P))
            ok = False
        if ok:
            known[j] = cmap
        return ok

    target = False
    for k, ev in enumerate(sched):
        j = ev[1]
        if j in dead:
            continue
        if ev[0] == "wrap":
            w = hosts[j]["wraps"]
            p = w["parent"]
            if p in dead:
                dead.add(j)
                continue
            pb = dual[p].base_module
            try:
                with quiet():
                    cp = _copy.deepcopy(pb) if w["how"] == "copy.deepcopy" else _copy.copy(pb)
                    dual[j] = DualVigilanceART(cp, hosts[j]["rho_lower_bound"])
            except Exception:
                # the statement does not say that a host can be built over a module that has a past
                cov.hit("shared-base-module:wrap-rejected")
                dead.add(j)
                continue
            shares[j] = "W" in pb.__dict__ and cp.__dict__.get("W") is pb.__dict__["W"]
            cov.hit("shared-base-module:link:" + w["how"])
            if shares[j]:
                cov.hit("shared-base-module:copy-shares-the-W-list-of-a-trained-module")
                if len(pb.W) > 0:
                    cov.hit("shared-base-module:copy-of-a-module-with-categories")
            continue
        kind, _, a, b = ev
        B = hosts[j]["X"][a:b]
        rs = hosts[j]["reset"]
        reset = None if rs is None else (lambda i_, w_, c_, params, cache, rs=rs: shared_permit(rs, i_, c_))
        try:
            with quiet():
                if kind == "fit":
                    dual[j].fit(B, match_reset_func=reset, match_tracking=mode, epsilon=eps)
                else:
                    dual[j].partial_fit(B, match_reset_func=reset, match_tracking=mode, epsilon=eps)
        except Exception as e:
            ctx.issue("violation", PRE + f"{kind}:{cls}:{exc_enum(e)}",
                      f"event {k} {ev}: training of {name(j)} raised {e!r} on validated data (mode {mode}, "
                      f"reset={rs is not None}; map {dict(dual[j].map)}, {nW(j)} categories)", dict(rep, failing_event=k))
            break
        if kind == "fit":
            seen[j], known[j] = [], None
        seen[j].append(B)
        cov.hit("shared-base-module:" + kind)
        others = [h for h in range(nh) if h != j and dual[h] is not None and h not in dead and seen[h]]
        ok = clauses(j, k, ev, True)
        for h in others:
            ok = clauses(h, k, ev, False) and ok
            cov.hit("shared-base-module:untouched-host-checked")
            # the two hosts are related by a copy that shared the W list when it was taken
            rel = (shares[h] and hosts[h]["wraps"]["parent"] == j) or (shares[j] and hosts[j]["wraps"]["parent"] == h)
            if rel:
                target = True
                cov.hit("shared-base-module:untouched-host-checked:related-by-a-sharing-copy")
                if nW(h) != nW(j):
                    cov.hit("shared-base-module:related-hosts-with-different-numbers-of-categories")
        if not ok:
            break
    cov.case(key, target)
    cov.hit("shared-base-module")
    cov.hit("shared-base-module:class:" + cls)
    cov.hit("shared-base-module:mode:" + mode)
    cov.hit(f"shared-base-module:hosts:{nh}")
    if any(h["reset"] is not None for h in hosts):
        cov.hit("shared-base-module:reset")


# ---------------------------------------------------------------- exception paths inside a training call, then continued use
FAULT_FAMILIES = ("library:ART1(L=1.0)+all-zero-pattern", "category-budget", "hook-schedule", "reset-function-raises", "mixed")
FAULT_HOOKS = ("new_weight", "add_weight", "update", "set_weight", "category_choice", "match_criterion_bin")
FAULT_EXC = {"MemoryError": MemoryError, "RuntimeError": RuntimeError, "ValueError": ValueError, "KeyError": KeyError,
             "ZeroDivisionError": ZeroDivisionError, "FloatingPointError": FloatingPointError, "OverflowError": OverflowError}
FAULT_DOC = (
    "A training history in which calls FAIL and the caller carries on with the same DualVigilanceART.  `base` is either a "
    "library class as it is (family 'library:…': ART1 with the boundary value L = 1.0 cannot build a weight for the all-zero "
    "pattern, L / (L - 1 + |x|) divides by zero) or an instance of a USER SUBCLASS class Faulty<cls>(artlib.<cls>) of the "
    "elementary module, built with the spec's keyword arguments, whose hooks new_weight / add_weight / update / set_weight / "
    "category_choice / match_criterion_bin first consult the fault plan and then delegate to super() unchanged: a hook that "
    "raises has done NOTHING (it raises before delegating).  While a fit / partial_fit call of the schedule is running (never "
    "during predict): `budget` (if not None) — new_weight raises MemoryError when len(self.W) >= budget; `hooks` {name: p} — "
    "the k-th call of hook `name` (counted over all training calls) raises FAULT_EXC[exc] iff C13.fault_coin(salt, name, k) < p, "
    "at most `max_hook_faults` times; `reset` (if not None) — match_reset_func = lambda x, w, label, params, cache: raises "
    "FAULT_EXC[reset.exc] iff fault_coin(reset.salt, 'reset', number of the call) < reset.p_raise, otherwise answers "
    "C13.shared_permit(reset, x, label).  `schedule` = [kind, a, b]: dual.fit / dual.partial_fit(X[a:b], match_reset_func, "
    "match_tracking=mode, epsilon=eps); every exception is caught by the caller; `on_failure` = 'drop' (go on with the next "
    "batch) or 'retry' (present the same batch once more with the same call; a category budget is first enlarged by "
    "`budget_step` when `repair` is 'enlarge').  After EVERY call, failed or not, the structural clauses of the statement are "
    "evaluated: map keys = the base module's categories 0..len(W)-1, map values exactly 0..n_clusters-1, no entry of the map "
    "changed (except by fit, which starts afresh), every label returned by a step that completed, every entry of labels_ and "
    "every label predicted for the rows presented so far and for the probe rows is such a cluster label, predict does not raise.")


def fault_coin(salt, name, k):
    h = hashlib.blake2b(struct.pack("<IQ", salt, k) + name.encode(), digest_size=4).digest()
    return int.from_bytes(h, "big") / 2.0 ** 32


_FAULTY_CLASSES = {}


def faulty_class(C):
    """the user subclass of the elementary class C described in FAULT_DOC (one per class)"""
    if C in _FAULTY_CLASSES:
        return _FAULTY_CLASSES[C]
    Sub = type("Faulty" + C.__name__, (C,), {"__doc__": "user subclass: hooks consult a fault plan, then delegate to super()"})

    def mk(name):
        def hook(self, *a, **kw):
            f = self.__dict__.get("_c13_fault")
            if f is not None and f["armed"]:
                f["consult"](name, self)                      # may raise: nothing has been done yet
            out = getattr(super(Sub, self), name)(*a, **kw)
            if f is not None and f["armed"] and name == "match_criterion_bin":
                f["last_bin"] = (float(kw["params"]["rho"]) if "params" in kw else None, bool(out[0]))
            return out
        hook.__name__ = name
        return hook
    for name in FAULT_HOOKS:
        setattr(Sub, name, mk(name))
    _FAULTY_CLASSES[C] = Sub
    return Sub


def gen_faulty(r, i, nmax):
    """one case of the exception-path family (see FAULT_DOC), as data"""
    fam = FAULT_FAMILIES[i % len(FAULT_FAMILIES)]
    library = fam.startswith("library")
    cls = "ART1" if library else specs.ELEM[(i // len(FAULT_FAMILIES)) % len(specs.ELEM)]
    mode = r.choice(MODES)
    n = r.randint(2, nmax)
    if library:
        d = r.randint(2, 6)
        spec = {"cls": "ART1", "rho": r.choice([0.25, 0.5, 0.75, 0.875, 1.0]), "L": 1.0}
        X = gen.binary_rows(r, n, d, allow_zero=True)
        for j in r.sample(range(n), r.randint(1, max(1, n // 3))):        # the pattern ART1(L=1) cannot code
            X[j] = 0.0
        floats = False
    else:
        d = r.randint(1, 3)
        spec = specs.elem_spec(r, cls, d)
        if spec["rho"] <= 0:
            spec["rho"] = r.choice([0.25, 0.5, 0.75, 0.875, 1.0])
        floats = r.random() < 0.25 and cls != "ART1"
        X = specs.elem_data(r, cls, n, d, style=r.choice([None, None, "corners", "coarse", "dups"]), floats=floats)
    rho = spec["rho"]
    lbs = [0.0, 0.0, rho / 2, rho / 4, rho * 0.875] + ([0.125] if rho > 0.125 else [])
    lb = float(r.choice(lbs))
    eps = r.choice([0.0, 2.0 ** -20, 2.0 ** -10, 1e-10, 0.125])
    probe = gen.binary_rows(r, 2, d, allow_zero=True) if library else specs.elem_data(r, cls, 2, d, floats=floats)
    sched, a = [], 0
    for p in gen.compositions(r, n):
        sched.append([r.choice(["pfit", "pfit", "pfit", "fit"]), a, a + p])
        a += p
    plan = {"family": fam, "salt": r.getrandbits(32), "budget": None, "budget_step": r.choice([1, 2, 10]),
            "repair": r.choice(["enlarge", "enlarge", "none"]), "hooks": {}, "exc": r.choice(sorted(FAULT_EXC)),
            "max_hook_faults": r.choice([1, 2, 4, 8]), "reset": None, "on_failure": r.choice(["drop", "retry", "retry"])}
    if fam in ("category-budget", "mixed"):
        plan["budget"] = r.randint(1, 4)
    if fam in ("hook-schedule", "mixed"):
        rates = {"new_weight": [0.15, 0.3, 0.5], "add_weight": [0.15, 0.3, 0.5], "update": [0.1, 0.25], "set_weight": [0.1, 0.25],
                 "category_choice": [0.02, 0.05], "match_criterion_bin": [0.03, 0.08]}
        names = r.sample(FAULT_HOOKS, r.randint(1, 3))
        if not any(h in names for h in ("new_weight", "add_weight")) and r.random() < 0.6:
            names.append(r.choice(["new_weight", "add_weight"]))
        plan["hooks"] = {h: r.choice(rates[h]) for h in sorted(names)}
    if fam in ("reset-function-raises", "mixed") or r.random() < 0.3:
        raises = fam in ("reset-function-raises", "mixed")
        plan["reset"] = {"salt": r.getrandbits(32), "p_permit": r.choice([0.3, 0.5, 0.7, 0.85]),
                         "p_raise": r.choice([0.05, 0.15, 0.3]) if raises else 0.0, "exc": r.choice(sorted(FAULT_EXC))}
    return dict(cls=cls, mode=mode, d=d, spec=spec, lb=lb, eps=eps, X=X, probe=probe, schedule=sched, plan=plan)


def run_faulty(ctx, case, idx):
    """Oracle-only (the Lean model is a model of calls that return): the structural clauses of the statement executed after
    every training call, the ones that raised included.  A call that fails may leave its sample un-learned; it may not leave
    the map, the categories and the labels inconsistent with each other."""
    cov = ctx.cov
    cls, mode, spec, lb, eps, X, probe, sched, plan = (case[k] for k in ("cls", "mode", "spec", "lb", "eps", "X", "probe",
                                                                         "schedule", "plan"))
    library = plan["family"].startswith("library")
    rep = {"case": idx, "class": cls, "spec": spec, "rho_lower_bound": lb, "mode": mode, "eps": eps, "X": X, "probe": probe,
           "schedule": sched, "fault_plan": plan, "doc": FAULT_DOC}
    key = ("faulty", cls, spec, lb, mode, eps, X.tolist(), probe.tolist(), sched, plan)
    PRE = "DualVigilanceART:exception-path:"
    st = {"armed": False, "calls": {h: 0 for h in FAULT_HOOKS}, "reset_calls": 0, "budget": plan["budget"], "hook_faults": 0,
          "faults": [], "last_bin": None, "raised": None, "returned": []}
    try:
        with quiet():
            if library:
                base = make(spec)
            else:
                kw = {k: (np.array(v, dtype=float) if k in ("sigma_init", "cov_init") else deepcopy(v))
                      for k, v in spec.items() if k != "cls"}
                base = faulty_class(type(make(spec)))(**kw)
            dual = DualVigilanceART(base, lb)
    except Exception as e:
        ctx.issue("violation", f"DualVigilanceART.__init__:{cls}:{exc_enum(e)}",
                  f"constructor raised {e!r} for rho={spec['rho']} > rho_lower_bound={lb} >= 0 (base module: a user subclass "
                  f"of {cls} that overrides hooks by delegating wrappers)", rep)
        cov.case(key, False)
        return

    def nW():
        return len(base.W) if "W" in base.__dict__ else 0

    def fire(where, exc_name):
        n = nW()
        if where in ("new_weight", "add_weight", "budget"):
            branch = ("first-sample" if n == 0 else
                      "spawning-under-an-existing-cluster" if st["last_bin"] == (lb, True) else "opening-a-brand-new-cluster")
        else:
            branch = "searching"
        st["faults"].append({"in": where, "exception": exc_name, "categories": n, "while": branch, "event": st["event"]})
        cov.hit("exception-path:raised-in:" + where)
        cov.hit("exception-path:raised-while:" + branch)
        st["raised"] = FAULT_EXC[exc_name](f"injected by the fault plan in {where} ({n} categories)")
        raise st["raised"]

    def consult(name, mod):
        st["calls"][name] += 1
        if name == "new_weight" and st["budget"] is not None and len(mod.W) >= st["budget"]:
            fire("budget", "MemoryError")
        p = plan["hooks"].get(name)
        if p and st["hook_faults"] < plan["max_hook_faults"] and fault_coin(plan["salt"], name, st["calls"][name]) < p:
            st["hook_faults"] += 1
            fire(name, plan["exc"])
    st["consult"] = consult
    if not library:
        base.__dict__["_c13_fault"] = st
    rs = plan["reset"]
    reset = None
    if rs is not None:
        def reset(i_, w_, c_, params, cache):
            st["reset_calls"] += 1
            if rs["p_raise"] > 0 and fault_coin(rs["salt"], "reset", st["reset_calls"]) < rs["p_raise"]:
                fire("reset-function", rs["exc"])
            return shared_permit(rs, i_, c_)

    inner = dual.step_fit

    def framed(x, *a, **kw):
        st["last_bin"] = None
        c = inner(x, *a, **kw)
        st["returned"].append(int(c))
        return c
    object.__setattr__(dual, "step_fit", framed)

    seen, known = [], None
    flags = {"failed": 0, "stale": False, "opening-failed": False, "opened-after": False, "continued": False, "target": False}

    def clauses(k, ev, attempt, err):
        """the statement's structural clauses after the call of event k returned or raised; True iff all hold"""
        nonlocal known
        n, cmap = nW(), dict(dual.map)
        how = f"raised {err!r}" if err is not None else "returned"
        where = f"after event {k} {ev}" + (" (second presentation)" if attempt else "") + f" {how}"
        srep = dict(rep, failing_event=k, attempt=attempt, call_raised=None if err is None else repr(err),
                    faults_so_far=list(st["faults"]), map=cmap, n_categories=n, category_budget_now=st["budget"])
        P = np.vstack(seen + [probe])
        ok = True
        if sorted(cmap) != list(range(n)):
            missing, extra = sorted(set(range(n)) - set(cmap)), sorted(set(cmap) - set(range(n)))
            stale = n == 0 and err is not None and not st["returned"] and (ev[0] == "fit" or flags["stale"])
            # `stale`: the residue of F05 (known finding C13-b: fit discards W and keeps the previous map until the first sample
            # has been learned), reached here by a first sample that fails instead of by an empty batch; own signature
            ctx.issue("violation", PRE + ("failed-fit:first-sample-failed:stale-map" if stale else "map-not-total"),
                      f"{where}: {n} categories in the base module, map keys {sorted(cmap)} (n_clusters {dual.n_clusters}): "
                      f"categories without a cluster {missing}, keys that are no category {extra}"
                      + ("; fit discarded W and kept the map of the previous fit" if stale else ""), srep)
            if stale:
                known, flags["stale"] = None, True   # the next sample that is learned starts the map afresh: keep checking
                cov.hit("exception-path:failed-fit:first-sample-failed:stale-map")
                return True
            return False
        flags["stale"] = False
        vals = sorted(set(cmap.values()))
        if vals != list(range(len(vals))) or len(vals) != dual.n_clusters:
            ctx.issue("violation", PRE + "map-values-not-contiguous",
                      f"{where}: map values {vals}, n_clusters {dual.n_clusters}, map {cmap}", srep)
            ok = False
        if known is not None and ev[0] != "fit":
            moved = {c: (v, cmap.get(c)) for c, v in known.items() if cmap.get(c) != v}
            if moved:
                ctx.issue("violation", PRE + "map-entry-changed",
                          f"{where}: map was {known}, is {cmap} (category: before, after) {moved}", srep)
                ok = False
        bad = [t for t in st["returned"] if t not in vals]
        if bad:
            ctx.issue("violation", PRE + "returned-label-not-a-cluster",
                      f"{where}: the steps of this call that completed returned {st['returned']}, map values {vals}", srep)
            ok = False
        if n > 0:
            lab = [int(t) for t in dual.labels_]
            if any(t not in vals for t in lab):
                ctx.issue("violation", PRE + "label-not-a-cluster", f"{where}: labels_ {lab}, map values {vals}", srep)
                ok = False
            try:
                with quiet():
                    y = [int(t) for t in dual.predict(P)]
            except Exception as e:
                ctx.issue("violation", PRE + f"predict:{cls}:{exc_enum(e)}",
                          f"{where}: predict raised {e!r} on the rows presented so far / valid probe rows (map {cmap}, {n} "
                          f"categories)", dict(srep, predict_on=P))
                return False
            if any(t not in vals or not (0 <= t < dual.n_clusters) for t in y):
                ctx.issue("violation", PRE + "predicted-label-not-a-cluster",
                          f"{where}: predicted {y}, map values {vals}, n_clusters {dual.n_clusters}", dict(srep, predict_on=P))
                ok = False
            if err is not None:
                cov.hit("exception-path:predict-after-a-failed-call")
        if ok:
            known = cmap
        return ok

    def call(k, ev, attempt):
        kind, a, b = ev
        B = X[a:b]
        n0 = nW() if kind != "fit" else 0
        p0 = params_tree(dual)
        st["event"], st["returned"], st["raised"], err = k, [], None, None
        st["armed"] = True
        try:
            with quiet():
                if kind == "fit":
                    dual.fit(B, match_reset_func=reset, match_tracking=mode, epsilon=eps)
                else:
                    dual.partial_fit(B, match_reset_func=reset, match_tracking=mode, epsilon=eps)
        except Exception as e:
            err = e
        finally:
            st["armed"] = False
        if not attempt:
            seen.append(B)
        if err is None:
            cov.hit("exception-path:call-returned:" + kind)
            if flags["failed"]:
                flags["continued"] = True
                cov.hit("exception-path:training-continued-after-a-failed-call")
                if flags["opening-failed"] and nW() > n0:
                    flags["opened-after"] = True
                    cov.hit("exception-path:category-created-after-a-failed-attempt-to-open-one")
        else:
            flags["failed"] += 1
            cov.hit("exception-path:call-raised:" + kind)
            if err is not st["raised"]:
                # the library's own arithmetic (ART1, L = 1.0, all-zero pattern) or a consequence of an earlier failed call:
                # a failed call like any other, the subject here is the state it leaves behind
                cov.hit("exception-path:raised-by-the-library:" + exc_enum(err) + (":" + cls if library else ":after-injected-faults:" + cls))
                st["faults"].append({"in": "library", "exception": repr(err), "categories": nW(), "event": k})
                if nW() > 0:
                    flags["opening-failed"] = True       # ART1(L=1): only new_weight divides by L - 1 + |x|
            elif st["faults"][-1]["while"] != "searching" and st["faults"][-1]["categories"] > 0:
                flags["opening-failed"] = True
            if len(st["returned"]) > 0:
                cov.hit("exception-path:call-failed-after-some-steps-completed")
            if params_tree(dual) != p0:
                # an observation, not a clause of C13's statement: match tracking had moved rho when the step was abandoned
                cov.hit("exception-path:observation:parameters-left-modified-by-the-failed-call")
        return err, clauses(k, ev, attempt, err)

    for k, ev in enumerate(sched):
        err, ok = call(k, ev, 0)
        if ok and err is not None and plan["on_failure"] == "retry":
            if st["budget"] is not None and plan["repair"] == "enlarge" and st["faults"] and st["faults"][-1]["in"] == "budget":
                st["budget"] += plan["budget_step"]
                cov.hit("exception-path:budget-enlarged")
            cov.hit("exception-path:retry")
            err, ok = call(k, ev, 1)
        if not ok:
            break
    dual.__dict__.pop("step_fit", None)
    base.__dict__.pop("_c13_fault", None)
    flags["target"] = flags["opening-failed"] and flags["opened-after"]
    cov.case(key, flags["target"])
    cov.hit("exception-path")
    cov.hit("exception-path:family:" + plan["family"])
    if flags["failed"]:
        cov.hit("exception-path:class:" + cls)
        cov.hit("exception-path:mode:" + mode)
        cov.hit("exception-path:on-failure:" + plan["on_failure"])
    if flags["target"]:
        cov.hit("exception-path:failed-opening-then-category-created")


def split_mseq(st, has_reset):
    """`match_criterion_bin` is called once per visited category (upper test, also when vetoed) and
    once more (lower test) when the category was allowed and failed the upper
    test.  Returns (upper entries, lower entries aligned or None)."""
    up, lo = [], []
    p, k = 0, 0
    seq = st.Mseq
    while p < len(seq):
        e1 = seq[p]
        p += 1
        ok = (not has_reset) or (k < len(st.resets) and st.resets[k][1])
        e2 = None
        if ok and not e1[1] and p < len(seq):
            e2 = seq[p]
            p += 1
        up.append(e1)
        lo.append(e2)
        k += 1
    return up, lo


def gen_case(r, i, nmax, thorough):
    cls = specs.ELEM[i % len(specs.ELEM)]
    mode = MODES[(i // len(specs.ELEM)) % 5]
    d = r.randint(1, 3)
    spec = specs.elem_spec(r, cls, d)
    if spec["rho"] <= 0:
        spec["rho"] = r.choice([0.25, 0.5, 0.75, 0.875, 1.0])
    rho = spec["rho"]
    lbs = [0.0, 0.0, rho / 2, rho / 4, rho * 0.875]
    if rho > 0.125:
        lbs.append(0.125)
    lb = float(r.choice(lbs))
    n = r.randint(1, nmax)
    floats = r.random() < 0.25 and cls != "ART1"
    style = r.choice([None, None, "corners", "coarse", "dups"])
    X = specs.elem_data(r, cls, n, d, style=style, floats=floats)
    eps = r.choice([0.0, 2.0 ** -20, 2.0 ** -10, 1e-10, 0.125])
    has_reset = r.random() < 0.6
    vt = gen.veto_table(r, n, n + 2) if has_reset else None
    # history
    hist = []
    style_h = r.choice(["fit", "pfit", "pfit", "fit+pfit", "refit", "mixed"])
    if style_h == "fit":
        hist.append(("fit", 0, n))
    elif style_h == "pfit":
        a = 0
        for p in gen.compositions(r, n):
            hist.append(("pfit", a, a + p))
            a += p
    elif style_h == "fit+pfit":
        k = r.randint(1, n)
        hist.append(("fit", 0, k))
        a = k
        for p in gen.compositions(r, n - k):
            hist.append(("pfit", a, a + p))
            a += p
    elif style_h == "refit":
        k = r.randint(1, n)
        hist.append(("fit", 0, k))
        if k < n:
            hist.append(("fit", k, n))
    else:
        a = 0
        for p in gen.compositions(r, n):
            hist.append((r.choice(["pfit", "pfit", "fit"]), a, a + p))
            a += p
    out = []
    for h in hist:
        out.append(h)
        if r.random() < 0.5:
            m = r.randint(1, 4)
            if r.random() < 0.5:
                P = X[[r.randrange(n) for _ in range(m)]]
            else:
                P = specs.elem_data(r, cls, m, d, floats=floats)
            out.append(("pred", P))
    if r.random() < 0.04:
        out.append((r.choice(["fit", "pfit"]), n, n))      # empty batch after training
    return dict(cls=cls, mode=mode, d=d, spec=spec, lb=lb, X=X, eps=eps, vt=vt, hist=out)


def fixed_cases():
    """the probes named in DESIGN.md / found while building the slice"""
    fz = {"cls": "FuzzyART", "rho": 0.75, "alpha": 2.0 ** -10, "beta": 1.0}
    X = gen.cc(np.array([[0.0, 0.0], [1.0, 1.0], [0.0, 0.0]]))
    yield dict(cls="FuzzyART", mode="MT+", d=2, spec=fz, lb=0.0, X=X, eps=0.0, vt=None,
               hist=[("fit", 0, 3), ("pred", X)], name="F18-probe")
    yield dict(cls="FuzzyART", mode="MT+", d=2, spec=fz, lb=0.0, X=X, eps=0.0, vt=None,
               hist=[("fit", 0, 3), ("fit", 3, 3)], name="empty-refit-probe")
    # F27 regression (fixed in /repo 1d1ae6e): a vetoed category that FAILED the upper test used to trigger
    # match tracking and lower rho below the configured value
    fz2 = {"cls": "FuzzyART", "rho": 0.875, "alpha": 2.0 ** -10, "beta": 1.0}
    X2 = gen.cc(np.array([[0.875, 0.375], [1.0, 0.0], [0.75, 0.625], [0.75, 0.0], [0.5, 0.25], [0.375, 0.0]]))
    vt2 = [[False, True, False, False, True, True, False, False], [True, False, False, False, True, False, False, False],
           [False, True, True, True, False, True, False, False], [False, True, True, True, False, False, False, False],
           [True, False, False, True, True, False, False, False], [True, False, False, True, False, True, False, False]]
    yield dict(cls="FuzzyART", mode="MT+", d=2, spec=fz2, lb=0.25, X=X2, eps=0.0, vt=vt2,
               hist=[("pfit", i, i + 1) for i in range(6)], name="tracking-lowers-rho-probe")
    # BayesianART's test is inverted (rho >= M) but the wrapper tracks with the non-inverted rule
    by = {"cls": "BayesianART", "rho": 0.25, "cov_init": [[1.0, 0.0], [0.0, 1.0]]}
    X3 = np.array([[0.625, 0.0], [0.875, 0.5], [0.625, 0.0]])
    vt3 = [[False] * 5, [False] * 5, [True, False, False, False, False]]
    yield dict(cls="BayesianART", mode="MT+", d=2, spec=by, lb=0.0, X=X3, eps=0.125, vt=vt3,
               hist=[("pfit", 0, 3)], name="bayesian-tracking-probe")


def run_case(ctx, case, idx, lines, expect):
    cov = ctx.cov
    cls, mode, spec, lb, X, eps, vt = (case[k] for k in ("cls", "mode", "spec", "lb", "X", "eps", "vt"))
    js = case.get("judge")
    has_reset = vt is not None or js is not None
    inv = specs.is_inverted(cls)
    rep = {"case": idx, "name": case.get("name"), "class": cls, "spec": spec, "rho_lower_bound": lb, "mode": mode,
           "eps": eps, "X": X, "veto_by_cluster_label": vt,
           "history": [(h[0], h[1] if h[0] == "pred" else [h[1], h[2]]) for h in case["hist"]]}
    if js is not None:
        rep["reset_function_by_category"] = dict(js, doc=gen_judge.__doc__, answer="C13.judge(js, sample number, category "
                                                 "index, x, w, cluster label, cache['match_criterion']) -> permitted?")
    key = (cls, spec, lb, X.tolist(), mode, eps, vt if js is None else js, [(h[0], np.asarray(h[1]).tolist()) if h[0] == "pred" else h for h in case["hist"]])
    try:
        with quiet():
            base = make(spec)
            if idx % 3 == 1:
                # the lower vigilance configured AFTER construction, through the public set_params: the estimator must
                # then decide with the value it reports, exactly like one constructed with it
                lb0 = lb / 2.0 if lb > 0 else (float(spec["rho"]) / 2.0 if not inv else lb)
                dual = DualVigilanceART(base, lb0)
                dual.set_params(rho_lower_bound=lb)
                rep["constructed_with_rho_lower_bound"] = lb0
                cov.hit("rho_lower_bound-set-after-construction")
            else:
                dual = DualVigilanceART(base, lb)
    except Exception as e:
        ctx.issue("violation", f"DualVigilanceART.__init__:{cls}:{exc_enum(e)}",
                  f"constructor raised {e!r} for rho={spec['rho']} > rho_lower_bound={lb} >= 0", rep)
        cov.case(key, False)
        return
    rho = float(spec["rho"])
    rec = Recorder(dual, kern=base)
    frames = []
    inner = dual.__dict__["step_fit"]

    def framed(x, *a, **kw):
        fr = {"cp": clean_copy(base) if "W" in base.__dict__ else None, "map": dict(dual.map),
              "x": np.array(x, dtype=float).copy(), "params": params_tree(dual), "g": len(rec.steps)}
        frames.append(fr)
        c = inner(x, *a, **kw)
        fr["ret"] = int(c)
        fr["W"] = [np.array(w, dtype=float).copy() for w in base.W]
        fr["cnt"] = [int(t) for t in base.weight_sample_counter_]
        fr["map_after"] = dict(dual.map)
        fr["params_after"] = params_tree(dual)
        return c
    object.__setattr__(dual, "step_fit", framed)
    reset = None
    if js is not None:
        def by_category(i_, w_, c_, params, cache):
            g = len(rec.steps) - 1
            Wl = base.W
            j = next((k for k, wk in enumerate(Wl) if wk is w_), None)
            if j is None:
                j = next((k for k, wk in enumerate(Wl) if np.array_equal(wk, w_, equal_nan=True)), None)
            if j is None or dual.map.get(j) != c_:
                ctx.issue("violation", "DualVigilanceART.step_fit:reset-function-not-asked-about-a-category",
                          f"step {g}: the reset function was handed a weight that is category {j} of the base module "
                          f"together with cluster label {c_} (map {dict(dual.map)})", dict(rep, step=g, x=np.array(i_)))
                j = 0 if j is None else j
            return judge(js, g, j, i_, w_, int(c_), float(cache["match_criterion"]))
        reset = rec.reset_logger(by_category)
    elif has_reset:
        reset = rec.reset_logger(lambda i_, w_, c_, params, cache: not vt[len(rec.steps) - 1][int(c_)])

    tab_steps, tab_veto, calls, exp_out = [], [], [], []
    nontrivial = False
    for h in case["hist"]:
        p_before = params_tree(dual)
        if h[0] == "pred":
            P = h[1]
            if "W" not in base.__dict__ or len(base.W) == 0:
                continue
            try:
                with quiet():
                    y = [int(t) for t in dual.predict(P)]
                    cp = clean_copy(base)
                    Ts = [[float(cp.category_choice(x, w, params=cp.params)[0]) for w in cp.W] for x in P]
            except Exception as e:
                ctx.issue("violation", f"DualVigilanceART.predict:{cls}:{exc_enum(e)}", f"predict raised {e!r}", rep)
                break
            vals = set(dual.map.values())
            if any(t not in vals or not (0 <= t < dual.n_clusters) for t in y):
                ctx.issue("violation", "DualVigilanceART.predict:label-out-of-range",
                          f"predicted {y}, map values {sorted(vals)}, n_clusters {dual.n_clusters}", rep)
            xs = []
            for T in Ts:
                xs.append(f"{len(tab_steps)}:{len(T)}")
                tab_steps.append(vec_f(T) + "/" + ",".join("?" for _ in T))
                tab_veto.append("")
            calls.append("pred " + ",".join(xs))
            exp_out.append(("pred", y))
            cov.hit("predict")
        else:
            kind, a, b = h
            B = X[a:b]
            s0, f0 = len(rec.steps), len(frames)
            try:
                with quiet():
                    if kind == "fit":
                        dual.fit(B, match_reset_func=reset, match_tracking=mode, epsilon=eps)
                    else:
                        dual.partial_fit(B, match_reset_func=reset, match_tracking=mode, epsilon=eps)
            except Exception as e:
                if b == a:
                    cov.hit("empty-batch-rejected")      # refusing an empty batch is fine
                    break
                ctx.issue("violation", f"DualVigilanceART.{kind}:{cls}:{exc_enum(e)}",
                          f"training raised {e!r} on validated data (mode {mode}, reset={has_reset})", rep)
                break
            if b == a:
                cov.hit("empty-batch")
            if kind == "fit" and f0 > 0:
                cov.hit("refit")
            # ---------------- oracle, per step
            evs = []
            for st, fr in zip(rec.steps[s0:], frames[f0:]):
                ev, nt = oracle_step(ctx, rep, cls, mode, eps, rho, lb, vt, has_reset, st, fr, js)
                evs.append(ev)
                nontrivial = nontrivial or nt
            # ---------------- oracle, per call
            oracle_call(ctx, rep, kind, dual, base, p_before, b - a)
            if js is not None:
                continue          # oracle-only: the model's veto table is indexed by cluster label
            # ---------------- protocol
            xs = []
            for st in rec.steps[s0:]:
                g = s0 + len(xs)
                up, lo = split_mseq(st, has_reset)
                st2 = StepRec(st.ncat)
                st2.Tcalls, st2.Mseq, st2.resets = st.Tcalls, up, st.resets
                # DualVigilanceART has no MT~ pre-pass: activations are computed for every category
                T, M = step_table(st2, mode, False, positive_only=True)
                ms = ",".join("?" if mv is None else ":".join(f2hex(v) for v in mv) for mv in M)
                xs.append(f"{len(tab_steps)}:{st.ncat}")
                tab_steps.append((vec_f(T) if T else "-") + "/" + (ms if M else "-"))
                tab_veto.append("".join("1" if v else "0" for v in vt[g]) if has_reset else "")
                live = [t for t in T if t == t and t > 0]
                if len(set(live)) < len(live):
                    cov.hit("exact-tie")
            calls.append(f"{kind} " + (",".join(xs) if xs else "-"))
            exp_out.append(("train", dict(
                labels=[int(t) for t in dual.labels_], map=[int(dual.map[k]) for k in sorted(dual.map)],
                k=int(dual.n_clusters), cnt=[int(t) for t in base.weight_sample_counter_], nW=len(base.W),
                n=int(dual.sample_counter_), ev=evs)))
    rec.uninstall()
    if js is not None:
        cov.case(key, nontrivial)
        cov.hit("reset-by-category")
        cov.hit("reset-by-category:" + js["kind"])
        cov.hit("reset-by-category:mode:" + mode)
        return
    if not calls:
        cov.case(key, False)
        return
    vts = "|".join(tab_veto) if has_reset and any(tab_veto) else "-"
    line = "dual %s %s %s %s %d %s %s # %s" % (mode, f2hex(eps), f2hex(rho), f2hex(lb), 1 if inv else 0, vts,
                                             ";".join(tab_steps), " # ".join(calls))
    lines.append(line)
    expect.append((rep, exp_out, cls))
    cov.case(key, nontrivial)
    cov.traces += 1
    if inv:
        cov.hit("inverted-base")
    if lb == 0.0:
        cov.hit("rho_lb=0")
    cov.hit("mode:" + mode)
    cov.hit("reset" if has_reset else "no-reset")
    if idx < 3:
        cov.sample({"class": cls, "spec": spec, "rho_lower_bound": lb, "mode": mode, "eps": eps,
                    "reset": has_reset, "history": [h[0] for h in case["hist"]],
                    "labels": [int(t) for t in getattr(dual, "labels_", [])], "map": dict(dual.map)})


def oracle_step(ctx, rep, cls, mode, eps, rho, lb, vt, has_reset, st, fr, js=None):
    """returns (event string of the implementation, non-trivial?)"""
    cov = ctx.cov
    cp, cmap, x, ret = fr["cp"], fr["map"], fr["x"], fr["ret"]
    W1, cnt1, map1 = fr["W"], fr["cnt"], fr["map_after"]
    srep = dict(rep, step=fr["g"], x=x)
    nb = 0 if cp is None else len(cp.W)
    nontrivial = False
    # --- parameters restored after the step
    if fr["params"] != fr["params_after"]:
        ctx.issue("violation", "DualVigilanceART.step_fit:params-not-restored",
                  f"step {fr['g']}: parameters {fr['params']} -> {fr['params_after']}", srep)
    # --- map total, values exactly 0..k-1, label in range
    vals = sorted(set(map1.values()))
    if sorted(map1.keys()) != list(range(len(W1))):
        ctx.issue("violation", "DualVigilanceART.step_fit:map-not-total",
                  f"step {fr['g']}: map keys {sorted(map1)} but {len(W1)} categories", srep)
    if vals != list(range(len(vals))):
        ctx.issue("violation", "DualVigilanceART.step_fit:map-values-not-contiguous",
                  f"step {fr['g']}: map values {vals}", srep)
    if ret not in vals:
        ctx.issue("violation", "DualVigilanceART.step_fit:label-not-a-cluster",
                  f"step {fr['g']}: returned {ret}, map values {vals}", srep)
    if any(map1.get(k) != v for k, v in cmap.items()) and nb > 0:
        ctx.issue("violation", "DualVigilanceART.step_fit:map-entry-changed",
                  f"step {fr['g']}: map {cmap} -> {map1}", srep)
    if nb == 0:
        cov.hit("first-sample")
        if ret != 0 or map1 != {0: 0} or len(W1) != 1:
            ctx.issue("violation", "DualVigilanceART.step_fit:first-sample",
                      f"first sample: label {ret}, map {map1}, |W| {len(W1)}", srep)
        return "f", False
    # --- what the implementation did
    W0 = [np.array(w, dtype=float) for w in cp.W]
    cnt0 = [int(t) for t in cp.weight_sample_counter_]
    changed = [c for c in range(nb) if not np.array_equal(W0[c], W1[c], equal_nan=True)]
    # set_weight bumps `weight_sample_counter_[c]` by plain index (stale entries of an earlier fit are not skipped)
    bumped = [c for c in range(min(len(cnt0), len(cnt1))) if cnt1[c] != cnt0[c]]
    with quiet():
        T, passes = kernel_view(cp, x, mode)
        if js is not None:
            # the reset function's own answer for each category (weight and label as they were before the step)
            def veto_row(c, M):
                return not judge(js, fr["g"], c, x, cp.W[c], cmap[c], M)
        else:
            veto_row = vt[fr["g"]] if has_reset else None
        visited = []
        want = statement_decision(T, passes, cmap, rho, lb, mode, eps, veto_row, positive_only=False)
        pos = statement_decision(T, passes, cmap, rho, lb, mode, eps, veto_row, positive_only=True, trace=visited)
        if len(W1) == nb + 1:
            try:
                wn = np.array(cp.new_weight(x, cp.params), dtype=float)
                if not np.array_equal(wn, W1[-1], equal_nan=True):
                    ctx.issue("violation", "DualVigilanceART.step_fit:new-not-from-sample",
                              f"step {fr['g']}: appended weight differs from new_weight(x)", srep)
            except Exception:
                pass
    if js is not None:
        verdicts = {}
        for c, v in visited:
            verdicts.setdefault(cmap[c], set()).add(v)
        if any(len(vs) == 2 for vs in verdicts.values()):
            nontrivial = True
            cov.hit("reset-by-category:one-cluster-two-verdicts")
            if pos[0] in ("a", "s") and sum(1 for c, v in visited if cmap[c] == cmap[pos[1]]) >= 2:
                cov.hit("reset-by-category:deciding-category-not-first-of-its-cluster:" + pos[0])
    up, lo = split_mseq(st, has_reset)
    order = [c for c in sorted_live(T) if T[c] > 0]
    if len(up) >= 2:
        nontrivial = True
    if has_reset and any(not a for (_, a, _) in st.resets):
        nontrivial = True
        cov.hit("veto-then-track:" + mode)
        if mode == "MT1":
            cov.hit("mt1-abandon")
    if len(W1) == nb:
        if len(bumped) != 1:
            got = ("?", None)
            ctx.issue("violation", "DualVigilanceART.step_fit:frame",
                      f"step {fr['g']}: no category added and counters bumped at {bumped}", srep)
        else:
            got = ("a", bumped[0])
        if any(c != got[1] for c in changed):
            ctx.issue("violation", "DualVigilanceART.step_fit:frame",
                      f"step {fr['g']}: absorbed by {got[1]} but weights {changed} changed", srep)
        if got[1] is not None and ret != cmap[got[1]]:
            ctx.issue("violation", "DualVigilanceART.step_fit:label", f"step {fr['g']}: absorbed by {got[1]} "
                      f"(cluster {cmap[got[1]]}) but returned {ret}", srep)
        cov.hit("absorb")
    elif len(W1) == nb + 1 and not changed:
        newl = map1.get(nb)
        if newl != ret:
            ctx.issue("violation", "DualVigilanceART.step_fit:label", f"step {fr['g']}: new category has cluster "
                      f"{newl} but returned {ret}", srep)
        if newl == max(cmap.values()) + 1:
            got = ("n", None)
            cov.hit("fresh-label")
        else:
            c_last = order[len(up) - 1] if 0 < len(up) <= len(order) else None
            got = ("s", c_last)
            nontrivial = True
            cov.hit("spawn")
            if c_last is None or cmap[c_last] != newl:
                ctx.issue("violation", "DualVigilanceART.step_fit:spawn-label",
                          f"step {fr['g']}: spawned under cluster {newl}, last visited category {c_last}", srep)
    else:
        got = ("?", None)
        ctx.issue("violation", "DualVigilanceART.step_fit:frame",
                  f"step {fr['g']}: |W| {nb} -> {len(W1)}, changed {changed}", srep)

    def same(dec):
        if dec[0] != got[0]:
            return False
        if dec[0] == "a":
            return dec[1] == got[1]
        if dec[0] == "s":
            return cmap[dec[1]] == map1.get(nb)
        return True
    # --- the three-way decision of the statement
    if not same(want):
        zero = [c for c in range(nb) if T[c] == T[c] and not T[c] > 0]
        if same(pos) and zero:
            cov.hit("zero-activation-skipped")
            ctx.issue("violation", SIG_F18,
                      f"step {fr['g']}: categories {zero} have activation <= 0 and are never visited; the statement "
                      f"decides {fmt(want, cmap)}, the implementation did {fmt(got, cmap)} (label {ret}); "
                      f"rho_lower_bound={lb}, mode {mode}", srep)
        else:
            ctx.issue("violation", f"DualVigilanceART.step_fit:decision:{cls}" + (":reset-by-category" if js is not None else ""),
                      f"step {fr['g']}: statement decides {fmt(want, cmap)}, implementation did {fmt(got, cmap)} "
                      f"(T={T}, map={cmap}, mode {mode}, reset={has_reset})", srep)
    # --- the upper bound: a weight changes only on a category that passed the upper test
    if got[0] == "a" and got[1] is not None:
        c = got[1]
        with quiet():
            th = pos[2] if same(pos) else rho
            ok_inforce, Mv = passes(c, th)
            ok_conf, _ = passes(c, rho)
        if same(pos) and not ok_inforce:
            ctx.issue("violation", "DualVigilanceART.step_fit:absorbed-without-upper-test",
                      f"step {fr['g']}: category {c} absorbed the sample with M={Mv} against threshold {th}", srep)
        if not ok_conf and mode != "MT-":
            if has_reset and same(pos) and th != rho and specs.is_inverted(cls):
                sig, why = (f"DualVigilanceART.step_fit:{cls}:non-inverted-tracking-relaxes-rho",       # = SIG_INV
                            "the vetoed categories all passed the upper test, but the wrapper tracks with the "
                            f"non-inverted rule (rho := M + eps), which moved rho to {th}")
            elif has_reset:
                # F27 (fixed in 1d1ae6e): tracking after a vetoed category that failed the upper test
                sig, why = SIG_LOWERED, f"the threshold in force was {th}"
            else:
                sig, why = f"DualVigilanceART.step_fit:absorbed-below-rho:{cls}", "no reset function was given"
            cov.hit("absorbed-below-configured-rho")
            ctx.issue("violation", sig,
                      f"step {fr['g']}: category {c} absorbed the sample although its match value {Mv} fails the "
                      f"configured rho={rho} of {cls} (mode {mode}): {why}", srep)
        if Mv == th:
            cov.hit("match-equals-threshold")
    if got[0] == "s" and got[1] is not None:
        with quiet():
            okl, Mv = passes(got[1], lb)
        if Mv == lb:
            cov.hit("match-equals-lower-bound")
    # --- no model of the search at all: whoever takes the sample / hands its label on was permitted by the reset function
    if js is not None:
        with quiet():
            if got[0] == "a" and got[1] is not None:
                c = got[1]
                Mv = passes(c, rho)[1]
                if veto_row(c, Mv):
                    ctx.issue("violation", "DualVigilanceART.step_fit:absorbed-by-a-category-the-reset-function-rejected",
                              f"step {fr['g']}: category {c} (cluster {cmap[c]}) absorbed the sample although the reset "
                              f"function ({js['kind']}) answers False for it (match value {Mv})", srep)
            if got[0] == "s":
                newl = map1.get(nb)
                donors = [c for c in range(nb) if cmap[c] == newl and passes(c, lb)[0] and not veto_row(c, passes(c, lb)[1])]
                if not donors:
                    ctx.issue("violation", "DualVigilanceART.step_fit:spawned-under-a-cluster-with-no-permitted-category",
                              f"step {fr['g']}: the new category got cluster label {newl}, but no category of that cluster "
                              f"is both permitted by the reset function ({js['kind']}) and passes the lower vigilance {lb}",
                              srep)
    ev = {"a": f"a{got[1]}", "s": f"s{got[1]}", "n": "n", "?": "?"}[got[0]]
    return ev, nontrivial


def fmt(dec, cmap):
    if dec[0] == "a":
        return f"absorb into category {dec[1]} (cluster {cmap.get(dec[1])})"
    if dec[0] == "s":
        return f"spawn a category under cluster {cmap.get(dec[1]) if dec[1] is not None else '?'} (lower test passed by {dec[1]})"
    if dec[0] == "n":
        return "new category with a new cluster label"
    return "?"


def oracle_call(ctx, rep, kind, dual, base, p_before, nrows):
    p_after = params_tree(dual)
    if p_after != p_before:
        ctx.issue("violation", f"DualVigilanceART.{kind}:params-not-restored",
                  f"parameters {p_before} -> {p_after}", rep)
    nW = len(base.W)
    keys = sorted(dual.map.keys())
    vals = sorted(set(dual.map.values()))
    if keys != list(range(nW)):
        sig = SIG_EMPTY if (nrows == 0 and nW == 0 and kind == "fit") else f"DualVigilanceART.{kind}:map-not-total"
        ctx.issue("violation", sig,
                  f"after {kind} on {nrows} rows: {nW} categories but map keys {keys} (n_clusters={dual.n_clusters}): "
                  f"fit on an empty batch discards W and keeps the previous map", rep)
    elif vals != list(range(dual.n_clusters)):
        ctx.issue("violation", f"DualVigilanceART.{kind}:map-values-not-contiguous",
                  f"map values {vals}, n_clusters {dual.n_clusters}", rep)
    lab = [int(t) for t in dual.labels_]
    if keys == list(range(nW)) and any(t not in vals for t in lab):
        ctx.issue("violation", f"DualVigilanceART.{kind}:label-not-a-cluster",
                  f"labels_ {lab}, map values {vals}", rep)
    if len(base.weight_sample_counter_) != nW:
        ctx.cov.hit("refit:base-counters-not-reset")     # C05 territory; the model mirrors it (dualReset)


def compare(ctx, rep, exp_out, out, cls, line):
    rep = dict(rep, line=line, model=out)
    groups = out.split(" # ")
    if out in ("bad-op", "unrecorded-match") or len(groups) != len(exp_out):
        ctx.issue("diff", f"dual:{cls}", f"model could not follow the recorded history: {out[:200]}", rep)
        return
    for j, ((kind, exp), g) in enumerate(zip(exp_out, groups)):
        if kind == "pred":
            got = parse_optnats(g[len("pred="):]) if g.startswith("pred=") else None
            if got != exp:
                ctx.issue("diff", f"dual:{cls}:predict", f"call {j}: impl {exp}, model {g}", rep)
                return
            continue
        kv = parse_kv(g)
        try:
            got = dict(labels=parse_nats(kv["labels"]), map=parse_nats(kv["map"]), k=int(kv["k"]),
                       cnt=parse_nats(kv["cnt"]), nW=int(kv["nW"]), n=int(kv["n"]),
                       ev=[] if kv["ev"] == "-" else kv["ev"].split(","))
        except Exception:
            ctx.issue("diff", f"dual:{cls}", f"call {j}: unparsable model output {g[:200]}", rep)
            return
        for f in ("ev", "labels", "map", "k", "cnt", "nW", "n"):
            if got[f] != exp[f]:
                ctx.issue("diff", f"dual:{cls}:{f}", f"call {j}: {f}: impl {exp[f]}, model {got[f]}", rep)
                return



def prepare(ctx):
    """Translator tie (see gen_tie.py): the source of this slice is re-translated to Lean on every run
    (harness/artv/dtrans.py) and proved equal to the model the property theorems are about"""
    from .gen_tie import gen_prepare, extra_theorems
    from .. import dtrans, wtrans
    whole = [t for t in extra_theorems("wtrans") if "dual" in t.lower()]
    gen_prepare(ctx, extra_theorems("dtrans") + whole + ['dual_match_tracking'], dtrans.COVERS + "; " + wtrans.COVERS)

def run(ctx):
    N = ctx.scale(1000, 12000)
    nmax = ctx.scale(16, 60)
    lines, expect = [], []
    idx = 0
    for case in fixed_cases():
        run_case(ctx, case, 10 ** 6 + idx, lines, expect)
        idx += 1
    for i in range(N):
        r = gen.rng_for(ctx.seed, "C13", i)
        run_case(ctx, gen_case(r, i, nmax, ctx.thorough), i, lines, expect)
    # reset functions that look at the category they are handed (oracle-only, see the module doc-string)
    for i in range(ctx.scale(300, 3000)):
        r = gen.rng_for(ctx.seed, "C13-reset-by-category", i)
        case = gen_case(r, i, nmax, ctx.thorough)
        n = len(case["X"])
        case["vt"] = None
        case["judge"] = gen_judge(r, n, n + 2)
        run_case(ctx, case, 2 * 10 ** 6 + i, lines, expect)
    # reset functions that re-enter the estimator being trained (oracle-only, see run_reentrant)
    for i in range(ctx.scale(240, 1200)):
        r = gen.rng_for(ctx.seed, "C13-reentrant-reset", i)
        case = gen_case(r, i, nmax, ctx.thorough)
        case["vt"] = None
        case["anchors"], case["reenter"] = gen_reenter(r, case)
        run_reentrant(ctx, case, 3 * 10 ** 6 + i)
    # hosts whose base modules share state through copy.copy of a trained module (oracle-only, see run_shared)
    for i in range(ctx.scale(320, 1500)):
        r = gen.rng_for(ctx.seed, "C13-shared-base-module", i)
        run_shared(ctx, gen_shared(r, i, ctx.scale(12, 30)), 4 * 10 ** 6 + i)
    # calls that raise inside the base module / the reset function, then continued use (oracle-only, see run_faulty)
    for i in range(ctx.scale(400, 2000)):
        r = gen.rng_for(ctx.seed, "C13-exception-path", i)
        run_faulty(ctx, gen_faulty(r, i, ctx.scale(12, 30)), 5 * 10 ** 6 + i)
    outs = run_driver(lines)
    for line, out, (rep, exp_out, cls) in zip(lines, outs, expect):
        compare(ctx, rep, exp_out, out, cls, line)
    ctx.assumptions += [
        "activations and match values are recorded from the implementation (float bits); whether they are the "
        "published numbers is C03",
        "'visited' means activation > 0: the implementation's loop guard is `any(T > 0)` (F18)",
    ]
    ctx.trusted += ["table-driven replay: the Lean model reads T/M recorded per step; order-only logic runs on "
                    "sign-magnitude keys of the doubles"]
