"""C08 — prediction is a pure, row-wise arg-max.  Oracle on the implementation:
permutation / batching / repetition relations, snapshot before == after,
hosts whose inner module was changed behind their back after training (module trained on unlabelled rows or re-fitted,
a shallow copy of the host / a second host around the same module re-fitted on more classes): a label is the map of
the arg-max and a trained label, or the call is refused,
label batches of mixed dtypes (int64 / uint64 / float-typed integral labels, class ids above 2^53 next to small ones:
the stored label vector is promoted to float64 and cannot hold the ids): the label is still exactly the map of the arg-max,
recomputed arg-max from the public activation function (also on rows a hair away from a decision boundary and on
runs of consecutive floats across it: exact ties and one-ulp leads), range of outputs.  Tie:
Lean `predict` (incl. the SimpleARTMAP map) end-to-end on exact kernels."""
from __future__ import annotations

import numpy as np

from .. import gen, families
from ..impl import quiet, exc_enum, eq_snap, full_snapshot
from . import e2e

RULE = ("cases = (family, hyper-parameters, training history, query batch built from training rows, duplicates, "
        "single rows, fresh rows); each case checks permutation, re-batching, repetition, purity and the arg-max "
        "rule; non-trivial when the trained model has >= 2 categories and the query has >= 2 rows; distinct by "
        "hash of (family spec, stream, query)")

FAMS = [f for f in families.ALL_FAMILIES if f not in ("FALCON", "TD_FALCON")]


def as_cols(p):
    """predict output -> 2-D array rows x levels"""
    if isinstance(p, list):
        return np.stack([np.asarray(t) for t in p], axis=1)
    return np.asarray(p).reshape(len(p), -1)


def prepare(ctx):
    """Translator tie (see gen_tie.py): the statements of the BaseART methods are regenerated from the source and the
    theorems about the generated definitions are re-checked"""
    from .gen_tie import gen_prepare
    gen_prepare(ctx, ['Control.step_pred_spec', 'Control.predict_spec'], "BaseART.step_pred / predict (translated statements): row-wise arg-max, estimator returned unchanged")


def run(ctx):
    cov = ctx.cov
    N = ctx.scale(380, 8000)
    nmax = ctx.scale(16, 60)
    for i in range(N):
        r = gen.rng_for(ctx.seed, "C08", i)
        name = FAMS[i % len(FAMS)]
        n = r.randint(2, nmax)
        fam, rows = families.build(r, name, n, floats=r.random() < 0.3)
        n = len(rows)
        desc = dict(fam.describe(), rows=rows.tolist())
        est = fam.make()
        try:
            # predictions asked BEFORE the model reaches its final state must leave no trace on later predictions:
            # an earlier fit + predict, and predicts between partial_fit batches (the later batch repeats earlier rows,
            # so it changes weights without necessarily changing the number of categories)
            if fam.has_fit and fam.has_predict and r.random() < 0.4:
                pre_idx = np.array([r.randrange(n) for _ in range(max(1, n // 2))])
                fam.fit(est, rows.take(pre_idx))
                fam.predict(est, rows.sl(0, min(n, 3)))
                cov.hit("earlier-fit-and-predict-before-training")
            if fam.has_pfit and r.random() < 0.5:
                k = r.randint(1, n)
                fam.pfit(est, rows.sl(0, k)) if not (fam.has_fit and r.random() < 0.5) else fam.fit(est, rows.sl(0, k))
                if fam.has_predict and r.random() < 0.7:
                    fam.predict(est, rows.sl(0, min(k, 4)))
                    cov.hit("predict-between-training-batches")
                if k < n:
                    fam.pfit(est, rows.sl(k, n))
                else:
                    fam.pfit(est, rows.sl(0, max(1, k // 2)))      # repeat of earlier rows
            else:
                fam.fit(est, rows)
        except Exception as e:
            cov.hit(f"train-raised:{name}:{exc_enum(e)}")
            continue
        # query: training rows, duplicates, single rows
        idx = [r.randrange(n) for _ in range(r.randint(1, 10))]
        if r.random() < 0.5:
            idx += idx[: r.randint(1, len(idx))]
        q = rows.take(np.array(idx))
        fresh_rows = None
        if getattr(fam, "fresh", None) is not None and r.random() < 0.6:
            # rows never trained on (possibly far from every category: negative Hypersphere/Ellipsoid activations)
            fq = fam.fresh(r, r.randint(1, 6), floats2=r.random() < 0.3)
            fresh_rows = fq.tolist()
            q = q.concat(fq)
            cov.hit("fresh-query-rows")
        nq = len(q)
        before = fam.snap(est, model_only=False)
        try:
            p = as_cols(fam.predict(est, q))
        except Exception as e:
            # empty TopoART after a total wipe-out etc.: C04's domain; record
            cov.hit(f"predict-raised:{name}:{exc_enum(e)}")
            ctx.cov.case((name, fam.spec, desc["rows"], idx), False)
            if name == "TopoART" and len(est.W) == 0:
                ctx.issue("violation", "TopoART.predict:empty-model",
                          f"predict raises {e!r} after a pruning round removed every category", dict(desc, query=idx))
            else:
                ctx.issue("violation", f"{name}.predict:{exc_enum(e)}", f"predict raised {e!r} on training rows", dict(desc, query=idx))
            continue
        after = fam.snap(est, model_only=False)
        rep = dict(desc, query=idx, fresh_rows=fresh_rows)
        if not eq_snap(before, after):
            ctx.issue("violation", f"{name}.predict:mutates-model", "canonical snapshot differs after predict", rep)
        # permutation
        perm = list(range(nq))
        r.shuffle(perm)
        p2 = as_cols(fam.predict(est, q.take(np.array(perm))))
        if not np.array_equal(p2, p[perm]):
            ctx.issue("violation", f"{name}.predict:row-order-dependent", f"permuted query gives {p2.tolist()} expected {p[perm].tolist()}", rep)
        # batching: row by row
        singles = np.vstack([as_cols(fam.predict(est, q.sl(k, k + 1))) for k in range(nq)])
        if not np.array_equal(singles, p):
            ctx.issue("violation", f"{name}.predict:batch-dependent", f"row-by-row {singles.tolist()} vs batch {p.tolist()}", rep)
        # repetition
        p3 = as_cols(fam.predict(est, q))
        if not np.array_equal(p3, p):
            ctx.issue("violation", f"{name}.predict:not-repeatable", "second identical call differs", rep)
        # range / arg-max rule
        ncat = None
        if name in families.ELEM or name in ("FusionART", "TopoART", "CVIART", "iCVIFuzzyART"):
            ncat = len(est.W)
            if ncat == 0:
                # TopoART after a total wipe-out: every row is an orphan, labelled -1 like prune does
                if not np.all(p == -1):
                    ctx.issue("violation", f"{name}.predict:empty-model-label", f"predictions {p.ravel().tolist()} on an emptied model", rep)
                cov.hit("predict-on-emptied-model")
                cov.case((name, fam.spec, desc["rows"], idx), False)
                continue
            if p.min() < 0 or p.max() >= ncat:
                ctx.issue("violation", f"{name}.predict:out-of-range", f"predictions {p.ravel().tolist()} with {ncat} categories", rep)
            # recompute the arg-max from the public activation function
            owner = est.base_module if name in ("TopoART", "CVIART") else est
            X = q.arrs["X"]
            for k in range(nq):
                with quiet():
                    T = [float(owner.category_choice(X[k], w, params=owner.params)[0]) for w in owner.W]
                if any(np.isnan(T)):
                    cov.hit("nan-activation")
                    continue
                best = int(np.argmax(T))
                if len(set(T)) < len(T):
                    cov.hit("tie-in-activation")
                if int(p[k, 0]) != best:
                    ctx.issue("violation", f"{name}.predict:not-first-argmax",
                              f"row {k}: predicted {int(p[k, 0])}, activations {T}", rep)
                    break
        elif name == "DualVigilanceART":
            if p.min() < 0 or p.max() >= est.n_clusters:
                ctx.issue("violation", f"{name}.predict:out-of-range", f"{p.ravel().tolist()} n_clusters {est.n_clusters}", rep)
            with quiet():
                pa = [int(np.argmax([float(est.base_module.category_choice(x, w, params=est.base_module.params)[0])
                                     for w in est.base_module.W])) for x in q.arrs["X"]]
            if [est.map[c] for c in pa] != p[:, 0].tolist():
                ctx.issue("violation", f"{name}.predict:not-map-of-argmax", f"{p[:,0].tolist()} vs map of {pa}", rep)
        elif name in ("SimpleARTMAP", "ARTMAP"):
            with quiet():
                a, b = est.predict_ab(q.arrs["X"])
            if [est.map[int(c)] for c in a] != [int(t) for t in b] or not np.array_equal(np.asarray(b), p[:, 0]):
                ctx.issue("violation", f"{name}.predict:not-map-of-predict_a", f"a={a.tolist()} b={b.tolist()} predict={p[:,0].tolist()}", rep)
            seen = set(int(t) for t in np.asarray(est.labels_b).ravel())
            if not set(p[:, 0].tolist()) <= seen:
                ctx.issue("violation", f"{name}.predict:class-never-seen", f"{p[:,0].tolist()} classes seen {sorted(seen)}", rep)
        elif name.startswith("DeepARTMAP") or name == "SMART":
            # one column per level; every column within that level's range, nesting = C12
            ld = est.labels_deep_
            for c in range(p.shape[1]):
                if p[:, c].min() < 0 or p[:, c].max() > ld[:, c].max():
                    ctx.issue("violation", f"{name}.predict:out-of-range", f"level {c}: {p[:, c].tolist()} max trained {ld[:, c].max()}", rep)
        ncats = ncat if ncat is not None else 2
        cov.case((name, fam.spec, desc["rows"], idx, fresh_rows), ncats >= 2 and nq >= 2)
        cov.traces += 0
        if i < 3:
            cov.sample({"family": name, "spec": fam.spec, "query_rows": idx, "pred": p.tolist()})
    negative_activations(ctx)
    tiny_covariance(ctx)
    near_boundary(ctx)
    ulp_near_ties(ctx)
    behind_the_back(ctx)
    mixed_label_dtypes(ctx)
    e2e.base_histories(ctx, "C08", ctx.scale(150, 3000), ctx.scale(20, 80), fields=("labels",))
    e2e.smap_histories(ctx, "C08", ctx.scale(100, 2000), ctx.scale(16, 60))


def negative_activations(ctx):
    """models whose activation can be negative for every category (Hypersphere / Ellipsoid with a small r_hat and a
    query farther than r_hat from every centre), bare and as channels of FusionART / A-side of SimpleARTMAP:
    the prediction is still the first arg-max of the public activation function"""
    from .. import specs
    from ..impl import make
    cov = ctx.cov
    for i in range(ctx.scale(60, 1200)):
        r = gen.rng_for(ctx.seed, "C08-neg", i)
        host = ["bare", "FusionART", "FusionART", "SimpleARTMAP", "DualVigilanceART", "TopoART"][i % 6]
        k = r.randint(1, 2) if host == "FusionART" else 1
        chans = [r.choice(["HypersphereART", "EllipsoidART"]) for _ in range(k)]
        ds = [r.randint(1, 3) for _ in range(k)]
        sp = []
        for c, dd in zip(chans, ds):
            q = specs.elem_spec(r, c, dd)
            q["r_hat"] = r.choice([0.125, 0.25, 0.5])
            q["rho"] = r.choice([0.5, 0.75, 0.875])
            sp.append(q)
        n = r.randint(3, 10)
        # training rows in one corner of the cube, queries in the opposite corner
        Xtr = np.hstack([specs.elem_data(r, c, n, dd) * 0.25 for c, dd in zip(chans, ds)])
        m = r.randint(2, 6)
        Xq = np.hstack([1.0 - specs.elem_data(r, c, m, dd) * 0.25 for c, dd in zip(chans, ds)])
        if host == "bare":
            spec = sp[0]
        elif host == "FusionART":
            spec = {"cls": "FusionART", "modules": sp, "gamma_values": [1.0] if k == 1 else r.choice([[0.5, 0.5], [0.25, 0.75]]),
                    "channel_dims": ds}
        elif host == "DualVigilanceART":
            spec = {"cls": "DualVigilanceART", "base_module": sp[0], "rho_lower_bound": r.choice([0.125, 0.25])}
        elif host == "TopoART":
            spec = {"cls": "TopoART", "base_module": sp[0], "beta_lower": sp[0]["beta"] / 2, "tau": 1000, "phi": 1}
        else:
            spec = {"cls": "SimpleARTMAP", "module_a": sp[0]}
        rep = {"spec": spec, "X": Xtr.tolist(), "query": Xq.tolist()}
        try:
            est = make(spec)
            with quiet():
                if host == "SimpleARTMAP":
                    est.fit(Xtr, gen.labels(r, n, 2))
                else:
                    est.fit(Xtr)
                p = np.asarray(est.predict_ab(Xq)[0] if host == "SimpleARTMAP" else est.predict(Xq))
                owner = est.module_a if host == "SimpleARTMAP" else (est.base_module if host in ("DualVigilanceART", "TopoART") else est)
                allneg = 0
                for j, x in enumerate(Xq):
                    T = [float(owner.category_choice(x, w, params=owner.params)[0]) for w in owner.W]
                    if max(T) < 0:
                        allneg += 1
                    want_ = int(np.argmax(T))
                    if host == "DualVigilanceART":
                        want_ = int(est.map[want_])
                    if int(p[j]) != want_:
                        ctx.issue("violation", f"{host}({'+'.join(chans)}).predict:not-first-argmax",
                                  f"row {j}: predicted {int(p[j])}, expected {want_} (arg-max of the activations {T}"
                                  f"{', through the cluster map' if host == 'DualVigilanceART' else ''})", rep)
                        break
            cov.hit("all-activations-negative" if allneg else "some-activation-nonnegative")
            cov.case(("neg", spec, rep["X"], rep["query"]), allneg > 0 and len(owner.W) >= 2)
        except Exception as e:
            ctx.issue("violation", f"{host}({'+'.join(chans)}).fit-or-predict:{exc_enum(e)}", repr(e), rep)


def tiny_covariance(ctx):
    """BayesianART categories whose covariance determinant is below machine epsilon (tight clusters in moderate
    dimension), bare and as A-side of SimpleARTMAP: predict leaves every stored weight bit-identical, is repeatable,
    and gives identical rows the same label"""
    from .. import specs
    from ..impl import make
    cov = ctx.cov
    for i in range(ctx.scale(16, 200)):
        r = gen.rng_for(ctx.seed, "C08-tinycov", i)
        d = r.randint(3, 7)
        sp = {"cls": "BayesianART", "rho": 2.0, "cov_init": (np.eye(d) * r.choice([2.0 ** -18, 2.0 ** -12, 1e-3])).tolist()}
        host = ["bare", "SimpleARTMAP"][i % 2]
        spec = sp if host == "bare" else {"cls": "SimpleARTMAP", "module_a": sp}
        n = r.randint(4, 10)
        X = specs.elem_data(r, "BayesianART", n, d)
        Q = np.vstack([X[[r.randrange(n) for _ in range(4)]], np.repeat(X[:1], 6, axis=0)])
        rep = {"spec": spec, "X": X.tolist(), "query": Q.tolist()}
        try:
            est = make(spec)
            with quiet():
                if host == "bare":
                    est.fit(X)
                else:
                    est.fit(X, gen.labels(r, n, 2))
            owner = est if host == "bare" else est.module_a
            W0 = [np.array(w, dtype=float).copy() for w in owner.W]
            with quiet():
                p1 = np.asarray(est.predict(Q))
                W1 = [np.array(w, dtype=float).copy() for w in owner.W]
                p2 = np.asarray(est.predict(Q))
            if not all(np.array_equal(a, b, equal_nan=True) for a, b in zip(W0, W1)):
                drift = max(float(np.max(np.abs(a - b))) for a, b in zip(W0, W1))
                ctx.issue("violation", f"{host}(BayesianART).predict:mutates-weights", f"stored weights changed during predict (max drift {drift:.3e})", rep)
            elif not np.array_equal(p1, p2):
                ctx.issue("violation", f"{host}(BayesianART).predict:not-repeatable", "second identical call differs", rep)
            elif len(set(p1[4:].tolist())) != 1:
                ctx.issue("violation", f"{host}(BayesianART).predict:identical-rows-differ", f"labels {p1[4:].tolist()} for six copies of one row", rep)
            cov.hit("tiny-covariance-predict")
            cov.case(("tinycov", spec, rep["X"]), len(owner.W) >= 2)
        except Exception as e:
            cov.hit(f"tiny-covariance:raised:{exc_enum(e)}")


NB_FAMS = [f for f in families.ELEM if f != "ART1"] + ["FusionART", "SimpleARTMAP", "ARTMAP", "DualVigilanceART",
                                                        "TopoART", "CVIART", "iCVIFuzzyART"]
NB_OFFSETS = (0.0, 1e-13, 1e-12, 1e-11, 1e-10, 1e-9, 1e-8)


def _nb_owner(name, est):
    """(module whose public activation function decides, label carried by category c)"""
    if name in ("SimpleARTMAP", "ARTMAP"):
        return est.module_a, (lambda c: int(est.map[c]))
    if name == "DualVigilanceART":
        return est.base_module, (lambda c: int(est.map[c]))
    if name in ("TopoART", "CVIART"):
        return est.base_module, int
    return est, int


def _nb_acts(owner, x):
    return [float(owner.category_choice(x, w, params=owner.params)[0]) for w in list(owner.W)]


def _nb_first_argmax(T):
    """oldest category of maximal activation (None when an activation is NaN)"""
    if any(t != t for t in T):
        return None
    return int(np.argmax(T))


def near_boundary(ctx):
    """queries a hair away from a decision boundary, on either side of it.  Two rows (training rows or fresh rows) whose
    categories of maximal activation differ are joined by a segment; bisection on the public activation function
    narrows the segment down to two neighbouring points with different winners; the query batch holds points at
    distances 0 .. 1e-8 (in the segment's parameter) on both sides of that boundary, where the two best activations
    agree to a relative 1e-9 and better without being equal.  Each such row must still receive the oldest category of
    *maximal* activation (through the label map where there is one): a strictly smaller activation never wins,
    however close it is, whether the runner-up is the older or the newer category."""
    cov = ctx.cov
    for i in range(ctx.scale(140, 3000)):
        r = gen.rng_for(ctx.seed, "C08-boundary", i)
        name = NB_FAMS[i % len(NB_FAMS)]
        fam, rows = families.build(r, name, r.randint(3, ctx.scale(14, 40)), floats=r.random() < 0.4)
        if any(c == "ART1" for c, _ in fam.groups):
            cov.hit("near-boundary:skipped-binary-channel")       # no segment between two binary rows
            continue
        n = len(rows)
        desc = dict(fam.describe(), rows=rows.tolist())
        est = fam.make()
        try:
            if fam.has_pfit and r.random() < 0.3:
                k = r.randint(1, n)
                fam.pfit(est, rows.sl(0, k))
                fam.pfit(est, rows.sl(k, n) if k < n else rows.sl(0, max(1, k // 2)))
                desc["batches"] = [k]
            else:
                fam.fit(est, rows)
        except Exception as e:
            cov.hit(f"near-boundary:train-raised:{name}:{exc_enum(e)}")
            continue
        owner, label_of = _nb_owner(name, est)
        if len(owner.W) < 2:
            cov.hit("near-boundary:fewer-than-two-categories")
            cov.case(("boundary", name, fam.spec, desc["rows"]), False)
            continue
        # end points: training rows and rows never trained on
        P = np.asarray(rows.arrs["X"], dtype=float)
        if getattr(fam, "fresh", None) is not None:
            P = np.vstack([P, np.asarray(fam.fresh(r, 8, floats2=r.random() < 0.5).arrs["X"], dtype=float)])
        with quiet():
            win = [_nb_first_argmax(_nb_acts(owner, x)) for x in P]
        pairs = [(a, b) for a in range(len(P)) for b in range(len(P))
                 if win[a] is not None and win[b] is not None and win[a] != win[b]]
        if not pairs:
            cov.hit("near-boundary:all-rows-one-winner")
            cov.case(("boundary", name, fam.spec, desc["rows"]), False)
            continue
        r.shuffle(pairs)
        Q, segs = [], []
        for a, b in pairs[:3]:
            xa, xb = P[a], P[b]

            def at(t):
                return np.clip((1.0 - t) * xa + t * xb, np.minimum(xa, xb), np.maximum(xa, xb))
            lo, hi = 0.0, 1.0
            with quiet():
                for _ in range(64):
                    mid = 0.5 * (lo + hi)
                    if mid <= lo or mid >= hi:
                        break
                    if _nb_first_argmax(_nb_acts(owner, at(mid))) == win[a]:
                        lo = mid
                    else:
                        hi = mid
            segs.append({"from": P[a].tolist(), "to": P[b].tolist(), "t_lo": lo, "t_hi": hi})
            for dlt in NB_OFFSETS:
                Q.append(at(max(0.0, lo - dlt)))
                Q.append(at(min(1.0, hi + dlt)))
        Q = np.array(Q)
        rep = dict(desc, segments=segs, query=Q.tolist())
        try:
            with quiet():
                p = as_cols(est.predict(Q))[:, 0]
                pa = np.asarray(est.predict_ab(Q)[0]) if name in ("SimpleARTMAP", "ARTMAP") else None
                Ts = [_nb_acts(owner, x) for x in Q]
        except Exception as e:
            cov.hit(f"near-boundary:predict-raised:{name}:{exc_enum(e)}")
            ctx.issue("violation", f"{name}.predict:{exc_enum(e)}", f"predict raised {e!r} on rows between two valid rows", rep)
            continue
        newer_side = False
        for k, T in enumerate(Ts):
            best = _nb_first_argmax(T)
            if best is None:
                cov.hit("near-boundary:nan-activation")
                continue
            tol = 1e-9 * abs(T[best])
            close_older = [j for j in range(best) if T[j] < T[best] and T[best] - T[j] <= tol]
            close_newer = [j for j in range(best + 1, len(T)) if T[j] < T[best] and T[best] - T[j] <= tol]
            if close_older:
                newer_side = True
                cov.hit("near-boundary:newer-wins-older-within-1e-9")
            if close_newer:
                cov.hit("near-boundary:older-wins-newer-within-1e-9")
            if any(T[j] == T[best] for j in range(best + 1, len(T))):
                cov.hit("near-boundary:exact-tie")
            how = ("an older category is within a relative 1e-9 but strictly smaller" if close_older else
                   "a newer category is within a relative 1e-9 but strictly smaller" if close_newer else "no near tie")
            if pa is not None and int(pa[k]) != best:
                ctx.issue("violation", f"{name}.predict_ab:not-first-argmax:near-boundary",
                          f"row {k}: A-side category {int(pa[k])} (activation {T[int(pa[k])]!r}) but the maximal activation "
                          f"{T[best]!r} belongs to category {best} ({how}); activations {T}", dict(rep, row=k))
                break
            if int(p[k]) != label_of(best):
                ctx.issue("violation", f"{name}.predict:not-first-argmax:near-boundary",
                          f"row {k}: predicted {int(p[k])}, expected {label_of(best)} = label of category {best}, the oldest "
                          f"category of maximal activation {T[best]!r} ({how}); activations {T}", dict(rep, row=k))
                break
        cov.hit(f"near-boundary:{'hosted' if owner is not est else 'bare'}")
        cov.case(("boundary", name, fam.spec, desc["rows"], [s["t_lo"] for s in segs]), newer_side)


# classes whose activation passes through exp / sqrt / division (the probabilistic kernels weigh it with the share
# n_j / sum n of the samples each category absorbed) come up more often than the piecewise-linear ones
ULP_CLASSES = ["GaussianART", "BayesianART", "HypersphereART", "GaussianART", "BayesianART", "EllipsoidART", "GaussianART",
               "BayesianART", "QuadraticNeuronART", "GaussianART", "FuzzyART"]          # 11 and 6 hosts: all pairs in 66 cases
ULP_HOSTS = ["bare", "SimpleARTMAP", "bare", "SimpleARTMAP", "ARTMAP", "DualVigilanceART"]
ULP_EACH_SIDE = 100          # first segment of a model
ULP_EACH_SIDE_MORE = 16      # its further segments
ULP_SEGMENTS = 6
ULP_BUDGET = 3000
ULP_TOTALS = [3, 5, 6, 7, 9, 10, 11, 12, 13, 4, 8]         # mostly NOT a power of two


def _ulp_walk(v, steps, towards):
    out = []
    for _ in range(steps):
        v = float(np.nextafter(v, towards))
        out.append(v)
    return out


def _ulp_trained(r, cls, host):
    """one draw: (spec, replay, d, estimator, deciding module, label of a category, end points, their winners, pairs of
    end points with different winners), or the reason why this draw has no decision boundary"""
    from .. import specs
    from ..impl import make
    d = r.choice([1, 1, 1, 2, 3])
    sp = specs.elem_spec(r, cls, d)
    # vigilance on the side that founds several categories
    if cls == "GaussianART":
        sp["rho"] = r.choice([0.5, 0.75, 0.9375, 1.0])
    elif cls == "BayesianART":
        sp["rho"] = r.choice([2.0 ** -12, 2.0 ** -6, 0.0625]) ** d
    elif sp.get("rho", 1.0) < 0.5:
        sp["rho"] = r.choice([0.5, 0.75, 0.875])
    n = r.choice(ULP_TOTALS)
    X = specs.elem_data(r, cls, n, d, floats=r.random() < 0.4)
    if r.random() < 0.5 and n >= 3:
        # repeated rows: the categories absorb different numbers of samples
        for _ in range(r.randint(1, n // 2)):
            X[r.randrange(n)] = X[r.randrange(n)]
    if host == "bare":
        spec = sp
    elif host == "SimpleARTMAP":
        spec = {"cls": "SimpleARTMAP", "module_a": sp}
    elif host == "ARTMAP":
        spec = {"cls": "ARTMAP", "module_a": sp, "module_b": specs.elem_spec(r, "FuzzyART", 1)}
    else:
        spec = {"cls": "DualVigilanceART", "base_module": sp, "rho_lower_bound": r.choice([0.0, 0.125, 0.25])}
    y = None
    if host == "SimpleARTMAP":
        y = gen.labels(r, n, r.randint(2, 4))
    elif host == "ARTMAP":
        y = specs.elem_data(r, "FuzzyART", n, 1, style="coarse")
    rep = {"spec": spec, "X": X.tolist(), "y": None if y is None else y.tolist()}
    try:
        est = make(spec)
        with quiet():
            est.fit(X) if y is None else est.fit(X, y)
    except Exception as e:
        return f"train-raised:{exc_enum(e)}"
    owner, label_of = _nb_owner(host, est)
    if len(owner.W) < 2:
        return "fewer-than-two-categories"
    P = np.vstack([X, specs.elem_data(r, cls, 6, d, floats=r.random() < 0.5)])
    with quiet():
        win = [_nb_first_argmax(_nb_acts(owner, x)) for x in P]
    pairs = [(a, b) for a in range(len(P)) for b in range(len(P))
             if win[a] is not None and win[b] is not None and win[a] != win[b]]
    if not pairs:
        return "all-rows-one-winner"
    return spec, rep, d, est, owner, label_of, P, win, pairs


def ulp_near_ties(ctx):
    """query rows on which the two best activations are EQUAL or ONE ULP APART.  A model with >= 2 categories (bare, or
    as A-side of SimpleARTMAP / ARTMAP, or as base module of DualVigilanceART; total number of absorbed samples mostly
    not a power of two, unequal shares) is trained; two rows with different winners are joined by a segment and
    bisection on the public activation function finds two neighbouring floats with different winners (as in
    `near_boundary`).  Then EVERY one of the ~100 consecutive floating-point numbers on each side of that boundary is
    a query row (16 on each side for up to five further boundaries of the same model): consecutive floats of the
    coordinate itself for 1-d data (in higher dimension: of one coordinate of the boundary point, chosen at random, or
    of the segment parameter).  Around the
    crossing the two leading activations move by about one unit in the last place per step, so the scan holds rows with
    an exact tie, rows where the leader is ahead by a single ulp, and both orders of age.  Each row must receive the
    label of the OLDEST category of MAXIMAL activation, the activation being what the public `category_choice`
    returns: a lead of one ulp is a lead, and an exact tie goes to the older category.  predict must also leave the
    stored weights bit-identical."""
    cov = ctx.cov
    for i in range(ctx.scale(66, 1320)):
        r = gen.rng_for(ctx.seed, "C08-ulp", i)
        cls = ULP_CLASSES[i % len(ULP_CLASSES)]
        host = ULP_HOSTS[i % len(ULP_HOSTS)]
        if host == "DualVigilanceART" and cls == "BayesianART":
            host = "bare"
        sig = f"{host}({cls})"
        # up to three draws of (hyper-parameters, training rows) for a model with two different winners
        got = None
        for attempt in range(3):
            got = _ulp_trained(r, cls, host)
            if isinstance(got, tuple):
                break
            cov.hit(f"ulp-scan:{got}:{cls}")
        if not isinstance(got, tuple):
            cov.case(("ulp", sig, i), False)
            continue
        spec, rep, d, est, owner, label_of, P, win, pairs = got
        # several segments, between different pairs of winners where there are that many
        r.shuffle(pairs)
        chosen, seen_pairs = [], set()
        for a, b in pairs:
            key = frozenset((win[a], win[b]))
            if key not in seen_pairs:
                seen_pairs.add(key)
                chosen.append((a, b))
            if len(chosen) == ULP_SEGMENTS:
                break
        # further crossings of pairs of winners already taken (another place of the same boundary in dimension > 1)
        for a, b in pairs:
            if len(chosen) >= ULP_SEGMENTS or len(P[a]) == 1:
                break
            if (a, b) not in chosen:
                chosen.append((a, b))
        Qs, segs = [], []
        for s_no, (a, b) in enumerate(chosen):
            each_side = ULP_EACH_SIDE if s_no == 0 else ULP_EACH_SIDE_MORE
            xa, xb = P[a], P[b]
            lo_box, hi_box = np.minimum(xa, xb), np.maximum(xa, xb)

            def at(t):
                return np.clip((1.0 - t) * xa + t * xb, lo_box, hi_box)
            lo, hi = 0.0, 1.0
            with quiet():
                for _ in range(64):
                    mid = 0.5 * (lo + hi)
                    if mid <= lo or mid >= hi:
                        break
                    if _nb_first_argmax(_nb_acts(owner, at(mid))) == win[a]:
                        lo = mid
                    else:
                        hi = mid
            # FuzzyART rows are complement coded: the raw coordinate and its complement move together
            raw = len(xa) // 2 if cls == "FuzzyART" else len(xa)
            axis = r.randrange(raw)     # walking along an axis nearly parallel to the boundary keeps many rows near the tie
            by_coordinate = raw == 1 or r.random() < 0.5
            if by_coordinate:
                x0 = at(lo)
                v0 = float(x0[axis])
                vs = _ulp_walk(v0, each_side, -np.inf)[::-1] + [v0] + _ulp_walk(v0, each_side, np.inf)
                vs = [v for v in vs if lo_box[axis] <= v <= hi_box[axis]]
                Q = np.repeat(x0[None, :], len(vs), axis=0)
                Q[:, axis] = vs
                if cls == "FuzzyART":
                    Q[:, raw + axis] = 1.0 - Q[:, axis]
                cov.hit("ulp-scan:consecutive-floats-of-a-coordinate" + (":1-d" if raw == 1 else ""))
            else:
                ts = _ulp_walk(lo, each_side, -np.inf)[::-1] + [lo] + _ulp_walk(lo, each_side, np.inf)
                Q = np.array([at(t) for t in ts if 0.0 <= t <= 1.0])
                cov.hit("ulp-scan:consecutive-floats-of-the-segment-parameter")
            segs.append({"from": xa.tolist(), "to": xb.tolist(), "t_lo": lo, "t_hi": hi, "rows": len(Q),
                         "scan": "coordinate %d" % axis if by_coordinate else "segment parameter"})
            Qs.append(Q)
            # quick-tier budget in evaluations of the activation function (BayesianART inverts a matrix in each)
            if sum(len(q) for q in Qs) * len(owner.W) * (2 if cls == "BayesianART" else 1) > ULP_BUDGET:
                break
        Q = np.vstack(Qs)
        rep = dict(rep, segments=segs, query=Q.tolist())
        W0 = [np.array(w, dtype=float).copy() for w in owner.W]
        try:
            with quiet():
                p = as_cols(est.predict(Q))[:, 0]
                pa = np.asarray(est.predict_ab(Q)[0]) if host in ("SimpleARTMAP", "ARTMAP") else None
                Ts = [_nb_acts(owner, x) for x in Q]
        except Exception as e:
            cov.hit(f"ulp-scan:predict-raised:{sig}:{exc_enum(e)}")
            ctx.issue("violation", f"{sig}.predict:{exc_enum(e)}", f"predict raised {e!r} on rows between two valid rows", rep)
            continue
        if len(W0) != len(owner.W) or not all(np.array_equal(u, np.asarray(v, dtype=float), equal_nan=True) for u, v in zip(W0, owner.W)):
            ctx.issue("violation", f"{sig}.predict:mutates-weights", "stored weights changed during predict", rep)
        if cls in ("GaussianART", "BayesianART"):
            tot = sum(float(w[-1]) for w in owner.W)
            shares = set(float(w[-1]) for w in owner.W)
            cov.hit("ulp-scan:total-sample-count-%s" % ("power-of-two" if tot > 0 and np.frexp(tot)[0] == 0.5 else "not-a-power-of-two"))
            if len(shares) > 1:
                cov.hit("ulp-scan:unequal-sample-shares")
        tight = False
        for k, T in enumerate(Ts):
            best = _nb_first_argmax(T)
            if best is None:
                cov.hit("ulp-scan:nan-activation")
                continue
            top = T[best]
            below = float(np.nextafter(top, -np.inf))
            tied = [j for j in range(best + 1, len(T)) if T[j] == top]
            one_older = [j for j in range(best) if T[j] == below]
            one_newer = [j for j in range(best + 1, len(T)) if T[j] == below]
            if tied:
                tight = True
                cov.hit("ulp-scan:exact-tie-of-the-two-best")
            if one_older:
                tight = True
                cov.hit("ulp-scan:newer-leads-older-by-one-ulp")
            if one_newer:
                tight = True
                cov.hit("ulp-scan:older-leads-newer-by-one-ulp")
            how = ("an exact tie with newer category %d" % tied[0] if tied else
                   "older category %d is one ulp behind" % one_older[0] if one_older else
                   "newer category %d is one ulp behind" % one_newer[0] if one_newer else "no tie within one ulp")
            if pa is not None and int(pa[k]) != best:
                ctx.issue("violation", f"{sig}.predict_ab:not-first-argmax:ulp-near-tie",
                          f"row {k} = {Q[k].tolist()!r}: A-side category {int(pa[k])} (activation {float(T[int(pa[k])]).hex()}) "
                          f"but the oldest category of maximal activation {float(top).hex()} is {best} ({how}); "
                          f"activations {[float(t).hex() for t in T]}", dict(rep, row=k))
                break
            if int(p[k]) != label_of(best):
                ctx.issue("violation", f"{sig}.predict:not-first-argmax:ulp-near-tie",
                          f"row {k} = {Q[k].tolist()!r}: predicted {int(p[k])}, expected {label_of(best)} = label of category "
                          f"{best}, the oldest category of maximal activation {float(top).hex()} ({how}); "
                          f"activations {[float(t).hex() for t in T]}", dict(rep, row=k))
                break
        cov.hit(f"ulp-scan:{'bare' if host == 'bare' else 'hosted:' + host}:{cls}")
        cov.case(("ulp", spec, rep["X"], lo), tight)


# ---------------------------------------------------------------------------------------------------------------
# hosts whose inner module changed behind their back

BB_HOSTS = ["SimpleARTMAP", "ARTMAP", "SimpleARTMAP", "DeepARTMAP-sup", "SMART", "DualVigilanceART", "ARTMAP",
            "DeepARTMAP-unsup"]
BB_WAYS = ["module-partial_fit-unlabelled", "shallow-copy-refitted", "second-host-same-module", "module-partial_fit-unlabelled",
           "module-refitted-unlabelled"]          # 8 hosts x 5 ways: all pairs in 40 cases


def _bb_sharpen(r, sp):
    """vigilance of the module that will be touched, on the side that founds a new category for a new row (otherwise the
    module only ever owns the categories its host mapped)"""
    cls = sp["cls"]
    if cls == "GaussianART":
        sp["rho"] = r.choice([0.75, 0.9375, 1.0])
    elif cls == "BayesianART":
        d = len(sp["cov_init"])
        sp["rho"] = r.choice([2.0 ** -12, 2.0 ** -6]) ** d
    elif cls == "QuadraticNeuronART":
        sp["rho"] = r.choice([0.75, 0.9])
    elif cls == "ART1":
        sp["rho"] = r.choice([0.75, 1.0])
    else:
        sp["rho"] = r.choice([0.75, 0.875, 1.0])


def _bb_parts(name, est):
    """(the estimator that owns the label map consulted last by predict, the module whose arg-max it maps)"""
    if name in ("SimpleARTMAP", "ARTMAP"):
        return est, est.module_a
    if name == "DualVigilanceART":
        return est, est.base_module
    return est.layers[-1], est.layers[-1].module_a      # DeepARTMAP / SMART: the last layer


def _bb_module_rows(name, rows):
    """the array the touched module is trained on / queried with"""
    return rows.arrs["Xs"][-1] if "Xs" in rows.arrs else rows.arrs["X"]


def behind_the_back(ctx):
    """A trained host (SimpleARTMAP, ARTMAP, DeepARTMAP, SMART, DualVigilanceART) carries the arg-max of its inner module
    through ITS OWN label map.  The inner module is a public, fully functional estimator and can change after the host
    was trained without the host taking part:
      * `host.module_a.partial_fit(unlabelled rows)` / `.fit(unlabelled rows)` (the module keeps adapting),
      * `copy.copy(host)` (shares the module) is re-fitted on more rows and more classes,
      * a second host is built around the same module object and fitted on more rows and more classes.
    The module may then own categories for which the host has no map entry.  The property still speaks about the first
    host's predict: every label it RETURNS is the host's map of the oldest category of maximal activation (activation
    = the module's public `category_choice` on the module's current weights) and is one of the labels the host was
    trained with.  A host that cannot label a row may refuse (any exception is accepted and recorded); what it may not
    do is hand out a label that is not the map of the arg-max / was never trained.  Rows are predicted one at a time
    (a refusal for one row does not hide the others) and as one batch (which must agree with the single rows); the
    module's weights and the host's map are bit-identical after predict."""
    import copy
    cov = ctx.cov
    for i in range(ctx.scale(80, 1600)):
        r = gen.rng_for(ctx.seed, "C08-behind", i)
        name = BB_HOSTS[i % len(BB_HOSTS)]
        way = BB_WAYS[i % len(BB_WAYS)]
        fam, rows = families.build(r, name, r.randint(2, ctx.scale(10, 30)), floats=r.random() < 0.3)
        if fam.fresh is None:
            continue
        # the touched module's vigilance
        sp = fam.spec
        if name in ("SimpleARTMAP", "ARTMAP"):
            _bb_sharpen(r, sp["module_a"])
        elif name == "DualVigilanceART":
            if r.random() < 0.7 and sp["base_module"]["cls"] != "GaussianART":
                _bb_sharpen(r, sp["base_module"])
                if not sp["base_module"]["rho"] > sp["rho_lower_bound"]:       # the constructor's own requirement
                    sp["base_module"]["rho"] = 1.0 if sp["base_module"]["cls"] != "QuadraticNeuronART" else 0.9
        elif name == "SMART":
            sp["rho_values"][-1] = max(sp["rho_values"][-1], r.choice([0.875, 1.0]))
        else:
            _bb_sharpen(r, sp["modules"][-1])
        n = len(rows)
        more = fam.fresh(r, r.randint(1, 6), floats2=r.random() < 0.3)
        if "y" in more.arrs and name in ("SimpleARTMAP", "DeepARTMAP-sup"):
            top = int(np.max(rows.arrs["y"]))
            more.arrs["y"] = np.array([top + 1 + r.randrange(2) for _ in range(len(more))], dtype=int)   # classes the host never saw
        desc = dict(fam.describe(), rows=rows.tolist(), way=way, more_rows=more.tolist())
        try:
            est = fam.make()
            if fam.has_pfit and r.random() < 0.3 and n >= 2:
                k = r.randint(1, n - 1)
                fam.pfit(est, rows.sl(0, k))
                fam.pfit(est, rows.sl(k, n))
                desc["batches"] = [k]
            else:
                fam.fit(est, rows)
            host, mod = _bb_parts(name, est)
            trained = set(int(v) for v in host.map.values())        # every trained label is the image of some category
            n_before = len(mod.W)
        except Exception as e:
            cov.hit(f"behind-the-back:train-raised:{name}:{exc_enum(e)}")
            continue
        # --- the change behind the host's back
        try:
            with quiet():
                if way == "module-partial_fit-unlabelled":
                    mod.partial_fit(_bb_module_rows(name, more))
                elif way == "module-refitted-unlabelled":
                    mod.fit(np.concatenate([_bb_module_rows(name, rows), _bb_module_rows(name, more)]))
                elif way == "second-host-same-module" and name in ("SimpleARTMAP", "ARTMAP", "DualVigilanceART"):
                    if name == "SimpleARTMAP":
                        other = type(est)(mod)
                    elif name == "ARTMAP":
                        other = type(est)(mod, copy.deepcopy(est.module_b))
                    else:
                        other = type(est)(mod, rho_lower_bound=est.rho_lower_bound)
                    fam.fit(other, rows.concat(more))
                else:
                    way = "shallow-copy-refitted"
                    desc["way"] = way
                    other = copy.copy(est)
                    fam.fit(other, rows.concat(more))
        except Exception as e:
            cov.hit(f"behind-the-back:change-raised:{name}:{way}:{exc_enum(e)}")
            continue
        host2, mod2 = _bb_parts(name, est)
        if host2 is not host or mod2 is not mod:
            cov.hit(f"behind-the-back:host-rebuilt:{name}:{way}")      # not the situation: the first host itself changed
            continue
        if set(int(v) for v in host.map.values()) != trained:
            cov.hit(f"behind-the-back:map-changed:{name}:{way}")       # the host's own map took part: another situation
            continue
        unmapped = [c for c in range(len(mod.W)) if c not in host.map]
        cov.hit(f"behind-the-back:{name}:{way}")
        cov.hit("behind-the-back:module-owns-unmapped-categories" if unmapped else "behind-the-back:every-category-mapped")
        if len(mod.W) < n_before:
            cov.hit("behind-the-back:module-lost-categories")
        if len(mod.W) == 0:
            cov.case(("behind", name, way, fam.spec, desc["rows"], desc["more_rows"]), False)
            continue
        # --- query: the rows the module met behind the host's back, training rows, rows nobody saw
        q = more.concat(rows.take(np.array([r.randrange(n) for _ in range(r.randint(1, 4))])))
        q = q.concat(fam.fresh(r, r.randint(1, 3), floats2=r.random() < 0.3))
        nq = len(q)
        Xq = np.asarray(_bb_module_rows(name, q), dtype=float)
        rep = dict(desc, query=q.tolist(), trained_labels=sorted(trained), host_map={int(a): int(b) for a, b in host.map.items()})
        W0 = [np.array(w, dtype=float).copy() for w in mod.W]
        map0 = {int(a): int(b) for a, b in host.map.items()}
        with quiet():
            Ts = [_nb_acts(mod, x) for x in Xq]
        singles, refused = [], 0
        for k in range(nq):
            try:
                singles.append(as_cols(fam.predict(est, q.sl(k, k + 1)))[0])
            except Exception as e:
                singles.append(None)
                refused += 1
                cov.hit(f"behind-the-back:predict-refused:{name}:{exc_enum(e)}")
        try:
            batch = as_cols(fam.predict(est, q))
        except Exception as e:
            batch = None
        if len(W0) != len(mod.W) or not all(np.array_equal(u, np.asarray(v, dtype=float), equal_nan=True) for u, v in zip(W0, mod.W)) \
                or {int(a): int(b) for a, b in host.map.items()} != map0:
            ctx.issue("violation", f"{name}.predict:mutates-model:behind-the-back", "module weights / label map changed during predict", rep)
        if batch is None and refused == 0:
            ctx.issue("violation", f"{name}.predict:batch-dependent:behind-the-back",
                      "the batch is refused although every one of its rows is labelled when asked alone", rep)
        elif batch is not None and (refused or not np.array_equal(batch, np.vstack(singles))):
            ctx.issue("violation", f"{name}.predict:batch-dependent:behind-the-back",
                      f"batch {batch.tolist()} vs row by row {[None if t is None else t.tolist() for t in singles]}", rep)
        hit_unmapped = False
        for k in range(nq):
            best = _nb_first_argmax(Ts[k])
            if best is None:
                cov.hit("behind-the-back:nan-activation")
                continue
            if best not in map0:
                hit_unmapped = True
                cov.hit("behind-the-back:row-won-by-unmapped-category")
            if singles[k] is None:
                continue
            # DeepARTMAP / SMART: last column = the module's category, the one before = the last layer's map of it
            deep = name.startswith("DeepARTMAP") or name == "SMART"
            label = int(singles[k][-2]) if deep else int(singles[k][0])
            what = None
            if deep and int(singles[k][-1]) != best:
                what = ("not-first-argmax", f"A-side category {int(singles[k][-1])}, the oldest category of maximal activation is {best}")
            elif best not in map0:
                what = ("label-for-unmapped-category",
                        f"predicted {label} although the winning category {best} has no entry in the host's label map {map0}")
            elif int(map0[best]) != label:
                what = ("not-map-of-argmax", f"predicted {label}, the host maps the winning category {best} to {map0[best]}")
            elif label not in trained:
                what = ("class-never-trained", f"predicted {label}, the host was trained with {sorted(trained)}")
            if what is not None:
                ctx.issue("violation", f"{name}.predict:{what[0]}:behind-the-back",
                          f"after {way}: row {k}: {what[1]} (labels the host was trained with: {sorted(trained)}; "
                          f"activations {Ts[k]})", dict(rep, row=k))
                break
        cov.case(("behind", name, way, fam.spec, desc["rows"], desc["more_rows"]), hit_unmapped)


# ---------------------------------------------------------------------------------------------------------------
# label batches of mixed dtypes, class ids that float64 cannot hold

ML_BIG = [2 ** 53 + 1, 2 ** 53 + 3, 2 ** 53 + 1, 2 ** 53 + 3, 2 ** 53 + 2, 2 ** 53 + 5, 2 ** 60 + 1, 2 ** 62 + 12345678901,
          -(2 ** 53 + 1)]
ML_SMALL = [0, 1, 2, 3, 7, 100, 255]
ML_DTYPES = ["int64", "int64", "float64", "float64", "uint64", "uint64", "float32", "int32", "uint8"]
ML_WIDE = ("int64", "uint64")                 # dtypes that hold a class id above 2^53 exactly
ML_HOSTS = ["SimpleARTMAP", "DeepARTMAP-1", "SimpleARTMAP", "DeepARTMAP-sup"]


def _ml_fits(v, dt):
    """class id v is exactly representable in dtype dt"""
    if dt in ML_WIDE:
        return -(2 ** 63) <= v < 2 ** 63 if dt == "int64" else 0 <= v < 2 ** 63
    if dt == "uint8":
        return 0 <= v <= 255
    return abs(v) < 2 ** 24                   # float32 / float64 / int32: integral values this small are exact


def _ml_label_state(layers):
    """what predict may not touch of the label side: every layer's map (key, type and exact value of each entry) and
    the stored label vector (dtype and bytes)"""
    out = []
    for L in layers:
        out.append((sorted((int(a), type(b).__name__, int(b)) for a, b in L.map.items()),
                    str(np.asarray(L.labels_).dtype), np.asarray(L.labels_).tobytes()))
    return out


def mixed_label_dtypes(ctx):
    """A supervised host (SimpleARTMAP; DeepARTMAP trained with labels, one module = its only layer is the labelled
    one, or several) is trained incrementally from several sources, and the sources type their class labels
    differently: int64 in one batch (`fit` or `partial_fit`), uint64 or float-typed integral labels (float64 /
    float32), or a narrow integer type, in another.  Class ids above 2^53 (hashed ids; adjacent odd ones such as
    2^53+1, 2^53+3) sit next to small ones; every label is exactly representable in the dtype of ITS batch, so every
    batch is a valid label batch on its own.  numpy promotes the concatenation of such batches (int64 + float64,
    int64 + uint64) to float64, which cannot hold the big ids: the dtype / content of the stored label vector
    `labels_` is then no guide to the labels.  The property does not care: for every query row (training rows of
    every batch, fresh rows) `predict` / `predict_ab` return exactly map[oldest category of maximal activation]
    (activation = the A-side module's public `category_choice`; compared as Python ints, through every layer's map
    for DeepARTMAP), which is one of the labels the host was trained with; batch and row-by-row agree; maps and stored
    labels are untouched.  ARTMAP and SMART (and DeepARTMAP without labels) take no class labels from the caller
    - their B-side labels are category numbers of a module, always int - so this situation does not reach them."""
    from ..impl import make
    cov = ctx.cov
    for i in range(ctx.scale(72, 1500)):
        r = gen.rng_for(ctx.seed, "C08-mixed-labels", i)
        host = ML_HOSTS[i % len(ML_HOSTS)]
        n = r.randint(4, ctx.scale(14, 40))
        if host == "DeepARTMAP-sup":
            fam, rows = families.build(r, "DeepARTMAP-sup", n, floats=r.random() < 0.3)
            spec, Xs = fam.spec, [np.asarray(t) for t in rows.arrs["Xs"]]
            fresh = fam.fresh(r, r.randint(1, 4), floats2=r.random() < 0.3).arrs["Xs"] if fam.fresh is not None else None
        else:
            fam, rows = families.build(r, "SimpleARTMAP", n, floats=r.random() < 0.3)
            Xs = [np.asarray(rows.arrs["X"])]
            fresh = [fam.fresh(r, r.randint(1, 4), floats2=r.random() < 0.3).arrs["X"]] if fam.fresh is not None else None
            spec = fam.spec if host == "SimpleARTMAP" else {"cls": "DeepARTMAP", "modules": [fam.spec["module_a"]]}
        deep = spec["cls"] == "DeepARTMAP"
        n = len(Xs[0])
        kw = dict(match_tracking=fam.mode, epsilon=fam.eps)
        # --- classes and batches
        nbig = r.choice([0, 1, 2, 2, 2, 3])
        classes = r.sample(sorted(set(ML_BIG)), nbig) + r.sample(ML_SMALL, r.randint(1, 3))
        nb = r.randint(2, min(4, n))
        cuts = sorted(r.sample(range(1, n), nb - 1))
        bounds = list(zip([0] + cuts, cuts + [n]))
        dts = [r.choice(ML_DTYPES) for _ in bounds]
        if r.random() < 0.8:
            # the sources that matter: one wide integer batch and one batch that makes numpy promote to float64
            a, b = r.sample(range(nb), 2)
            dts[a] = "int64"
            dts[b] = r.choice(["float64", "float64", "uint64", "float32"])
        batches, trained = [], set()
        for (lo, hi), dt in zip(bounds, dts):
            allowed = [c for c in classes if _ml_fits(c, dt)]
            if not allowed:
                allowed = [r.choice([0, 1, 2])]
            wide = [c for c in allowed if abs(c) > 2 ** 53]
            ys = [r.choice(wide) if wide and r.random() < 0.6 else r.choice(allowed) for _ in range(lo, hi)]
            trained.update(ys)
            batches.append({"rows": [lo, hi], "dtype": dt, "y": ys})
        first_by_fit = r.random() < 0.4
        rep = {"family": host, "spec": spec, "mode": fam.mode, "eps": fam.eps, "Xs": [t.tolist() for t in Xs],
               "label_batches": batches, "first_batch_by": "fit" if first_by_fit else "partial_fit"}
        try:
            est = make(spec)
            with quiet():
                for bno, bt in enumerate(batches):
                    lo, hi = bt["rows"]
                    yb = np.array(bt["y"], dtype=bt["dtype"])
                    assert [int(v) for v in yb] == bt["y"]            # the batch holds its labels exactly
                    Xb = [t[lo:hi] for t in Xs] if deep else Xs[0][lo:hi]
                    if bno == 0 and first_by_fit:
                        est.fit(Xb, yb, **kw)
                    else:
                        est.partial_fit(Xb, yb, **kw)
        except Exception as e:
            # contradictory labels on identical rows etc.: training is other properties' business
            cov.hit(f"mixed-label-dtypes:train-raised:{host}:{exc_enum(e)}")
            continue
        layers = list(est.layers) if deep else [est]
        mod = layers[-1].module_a
        stored = str(np.asarray(layers[0].labels_).dtype)
        exact = sorted(int(v) for v in np.asarray(layers[0].labels_)) == sorted(y for bt in batches for y in bt["y"])
        cov.hit(f"mixed-label-dtypes:{host}:stored-labels-{stored}")
        cov.hit("mixed-label-dtypes:batch-dtypes:" + "+".join(sorted(set(dts))))
        cov.hit("mixed-label-dtypes:stored-label-vector-" + ("holds-every-label" if exact else "cannot-hold-the-labels"))
        if len(layers) > 1:
            cov.hit("mixed-label-dtypes:labelled-layer-below-the-predicting-layer")
        # --- query: training rows of every batch, duplicates, fresh rows
        idx = [r.randrange(lo, hi) for lo, hi in bounds] + [r.randrange(n) for _ in range(r.randint(1, 6))]
        Q = [t[idx] for t in Xs]
        if fresh is not None and r.random() < 0.6:
            Q = [np.concatenate([a, np.asarray(b, dtype=a.dtype)]) for a, b in zip(Q, fresh)]
        nq = len(Q[0])
        Xq = np.asarray(Q[-1], dtype=float)
        rep = dict(rep, query=[t.tolist() for t in Q], stored_labels_dtype=stored, trained_labels=sorted(trained),
                   maps=[{int(a): int(b) for a, b in L.map.items()} for L in layers])
        with quiet():
            Ts = [_nb_acts(mod, x) for x in Xq]
        before = _ml_label_state(layers)
        W0 = [np.array(w, dtype=float).copy() for w in mod.W]

        def ask(lo, hi):
            """columns of Python ints: [class label, ... , A-side category of the last module]"""
            with quiet():
                if deep:
                    out = est.predict([t[lo:hi] for t in Q])
                    return [[int(v) for v in np.asarray(c)] for c in out], [str(np.asarray(c).dtype) for c in out]
                yb = est.predict(Q[0][lo:hi])
                ya, yb2 = est.predict_ab(Q[0][lo:hi])
                return [[int(v) for v in yb], [int(v) for v in yb2], [int(v) for v in ya]], [str(np.asarray(yb).dtype)]
        try:
            cols, out_dt = ask(0, nq)
            singles = [ask(k, k + 1)[0] for k in range(nq)]
        except Exception as e:
            cov.hit(f"mixed-label-dtypes:predict-raised:{host}:{exc_enum(e)}")
            ctx.issue("violation", f"{host}.predict:{exc_enum(e)}:mixed-label-dtypes",
                      f"predict raised {e!r} on a model trained from label batches of dtypes {dts}", rep)
            continue
        cov.hit(f"mixed-label-dtypes:predict-returns-{out_dt[0]}")
        if _ml_label_state(layers) != before or len(W0) != len(mod.W) or \
                not all(np.array_equal(u, np.asarray(v, dtype=float), equal_nan=True) for u, v in zip(W0, mod.W)):
            ctx.issue("violation", f"{host}.predict:mutates-model:mixed-label-dtypes",
                      "label maps / stored labels / module weights changed during predict", rep)
        rowwise = [[s[c][0] for s in singles] for c in range(len(cols))]
        if rowwise != cols:
            ctx.issue("violation", f"{host}.predict:batch-dependent:mixed-label-dtypes", f"batch {cols} vs row by row {rowwise}", rep)
        big_won = False
        for k in range(nq):
            best = _nb_first_argmax(Ts[k])
            if best is None:
                cov.hit("mixed-label-dtypes:nan-activation")
                continue
            # the chain category -> ... -> class label through every layer's own map
            chain = [best]
            for L in layers[::-1]:
                chain.append(int(L.map[chain[-1]]))
            want = chain[::-1]                       # [class label, ..., A-side category]
            if deep:
                got, names = [c[k] for c in cols], ["predict"]
            else:
                got, names = None, ["predict", "predict_ab"]
            if abs(want[0]) > 2 ** 53:
                big_won = True
                cov.hit("mixed-label-dtypes:row-won-by-a-class-above-2^53" + ("" if exact else ":stored-labels-cannot-hold-it"))
            what = None
            if deep:
                if got[-1] != best:
                    what = ("predict:not-first-argmax", f"A-side category {got[-1]}, the oldest category of maximal activation is {best}")
                elif got != want:
                    what = ("predict:not-map-of-argmax", f"predicted {got} (class label first), the layers' maps carry the winning category {best} to {want}")
                elif got[0] not in trained:
                    what = ("predict:class-never-trained", f"predicted class {got[0]}")
            else:
                p1, p2, pa = cols[0][k], cols[1][k], cols[2][k]
                if pa != best:
                    what = ("predict_ab:not-first-argmax", f"A-side category {pa}, the oldest category of maximal activation is {best}")
                elif p2 != want[0]:
                    what = ("predict_ab:not-map-of-argmax", f"predict_ab gives class {p2}, the map carries the winning category {best} to {want[0]}")
                elif p1 != want[0]:
                    what = ("predict:not-map-of-argmax", f"predicted class {p1}, the map carries the winning category {best} to {want[0]}")
                elif p1 not in trained:
                    what = ("predict:class-never-trained", f"predicted class {p1}")
            if what is not None:
                ctx.issue("violation", f"{host}.{what[0]}:mixed-label-dtypes",
                          f"label batches of dtypes {dts} (stored label vector: {stored}, returned: {out_dt[0]}): row {k}: {what[1]}; "
                          f"labels the host was trained with: {sorted(trained)}", dict(rep, row=k))
                break
        cov.case(("mixed-labels", host, spec, rep["Xs"], [(bt["dtype"], bt["y"]) for bt in batches], idx), big_won and not exact)
