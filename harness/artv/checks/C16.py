"""C16 — FALCON / TD-FALCON.

Oracle (implementation alone), on grid trajectories of length 1-30 with Fuzzy
channels prepared with identity column bounds: after every fit / partial_fit the
inner `fusion_art` equals a FusionART trained directly on the joined
state|action|reward rows; `get_rewards` = reward-channel centre of the category
predicted with the reward channel withheld; `get_action` = first arg-max (arg-min)
over the supplied / default action space of the scalar from `get_rewards`;
`calculate_SARSA` = the closed formula clip(Q + a (r + l Q' - Q), 0, 1), complement
coded, for every transition but the last (Q = 0 before training, `r` for a single
transition), and its rows pass the reward module's validator; TD-FALCON's
`partial_fit` = FusionART `partial_fit` on the joined SARSA rows.  alpha / lambda in the
formula are the values the model REPORTS (`est.td_alpha`, `est.td_lambda`) at the time of
the call: half of the TD-FALCON cases follow a schedule that re-assigns one or both by plain
attribute assignment before an episode / before the final query (a learning-rate schedule),
and the targets of every training episode (not only of the final fresh trajectory) are
compared with the closed formula for the values reported at that moment.

Caller-held modules (`reconfigured_modules_block`): the caller builds the three channel modules himself, passes them to the
constructor, keeps the objects and re-configures them afterwards (rho / beta / alpha annealing with the modules' set_params or
attribute assignment: before the first episode, between episodes, before the final queries).  Reference = a FusionART over
identically configured modules that receives the same re-configuration and the same joined rows: the agent's fusion_art must
equal it after every episode, TD targets = closed formula with Q read from the reference, get_rewards / get_action = reward
centres / first greedy member computed from the reference.

Plotting calls inside the history (`drawn_modules_block`): one channel module of a live agent is drawn once
(`agent.fusion_art.modules[k].visualize(...)` / `.plot_cluster_bounds(ax, colors)`) between training and acting or between two
episodes; the agent is then judged against a FusionART trained on the same joined rows and never drawn (equal state right after
the drawing and after the next episode, get_rewards / get_action from the reference's reward map, TD targets = closed formula
with Q from the reference, valid reward inputs).

Tie: `artdrv fusion hist` on the joined rows (model `fusionKernel`), `falcon rew`,
`falcon act`, `falcon sarsa` (models `getRewards`, `getAction`, `calcSarsa`)."""
from __future__ import annotations

from copy import deepcopy
from fractions import Fraction

import numpy as np

from .. import gen, specs
from ..common import q2s, mat_q, vec_q, run_driver, parse_kv, parse_mat_q, parse_vec_q
from ..impl import make, quiet, exc_enum
from .e2e import cmp_W, close
from .C10 import chans_str, snap_fusion, compare_state, same_W, fusion_spec, ActLog, ambiguous_rows

RULE = ("cases = (FALCON or TD_FALCON, channel widths, gammas, Fuzzy hyper-parameters, td_alpha, td_lambda, schedule of "
        "td_alpha / td_lambda re-assignments between episodes, earlier "
        "episodes, re-configurations (rho / alpha / beta per channel, set_params or attribute assignment, before which episode "
        "/ before the queries) of the module objects the caller passed to the constructor, "
        "one plotting call (which channel module, visualize / plot_cluster_bounds variant, between training and acting / "
        "between two episodes), "
        "trajectory, action space, optimality); a case is non-trivial when the trajectory has >= 2 "
        "transitions and the model >= 2 categories; distinct by hash of the whole tuple")

GAM3 = [[0.25, 0.25, 0.5], [0.5, 0.25, 0.25], [0.375, 0.375, 0.25], [0.5, 0.5, 0.0], [0.25, 0.5, 0.25]]
TDV = [0.0, 0.25, 0.5, 1.0]


def build(r, name, widths=None):
    ds_, da = widths or (r.randint(1, 2), r.randint(1, 2))
    sp = [specs.elem_spec(r, "FuzzyART", d) for d in (ds_, da, 1)]
    dims = [2 * ds_, 2 * da, 2]
    gam = list(r.choice(GAM3))
    spec = {"cls": name, "state_art": sp[0], "action_art": sp[1], "reward_art": sp[2],
            "gamma_values": gam, "channel_dims": dims}
    if name == "TD_FALCON":
        spec["td_alpha"] = r.choice(TDV)
        spec["td_lambda"] = r.choice(TDV)
    return spec, sp, dims, gam, ds_, da


def with_bounds(est, ds_, da):
    with quiet():
        est.prepare_data(np.array([[0.0] * ds_, [1.0] * ds_]), np.array([[0.0] * da, [1.0] * da]),
                         np.array([[0.0], [1.0]]))
    return est


def fusion_twin(sp, dims, gam, ds_, da):
    f = make(fusion_spec(sp, dims, gam))
    with quiet():
        for m, d in zip(f.modules, (ds_, da, 1)):
            m.prepare_data(np.array([[0.0] * d, [1.0] * d]))
    return f


def trajectory(r, n, ds_, da):
    S = gen.cc(gen.grid_rows(r, n, ds_))
    A = gen.cc(gen.grid_rows(r, n, da, style=r.choice(["coarse", "dups", "coarse"])))
    R = gen.cc(gen.grid_rows(r, n, 1, style=r.choice(["coarse", "uniform", "corners"])))
    return S, A, R


def eq_fusion(a, b) -> bool:
    sa, sb = snap_fusion(a), snap_fusion(b)
    return (sa["labels"] == sb["labels"] and sa["cnts"] == sb["cnts"] and same_W(sa["W"], sb["W"])
            and all(same_W(x, y) for x, y in zip(sa["chW"], sb["chW"])))


def centre_of(w):
    w = np.asarray(w, dtype=float)
    d = len(w) // 2
    return (w[:d] + (1 - w[d:])) / 2


def expected_rewards(fa, S, A):
    """centres of the categories predicted with the reward channel withheld (public predict)"""
    n = len(S)
    J = np.hstack([S, A, 0.5 * np.ones((n, 2))])
    with quiet():
        C = fa.predict(J, skip_channels=[2])
    return np.array([centre_of(fa.modules[2].W[c]) for c in C]), [int(c) for c in C]


def sarsa_closed(al, la, Q, rdcc):
    out = []
    for i in range(len(Q) - 1):
        q, q2, rr = Fraction(float(Q[i])), Fraction(float(Q[i + 1])), Fraction(float(rdcc[i]))
        t = q + Fraction(al) * (rr + Fraction(la) * q2 - q)
        t = max(min(t, Fraction(1)), Fraction(0))
        out.append([t, 1 - t])
    return out

def reassign_td(est, sr, when, sched):
    """a step of a hyper-parameter schedule: plain attribute assignment of td_alpha and/or td_lambda on the live
    estimator (drawn from its own generator so the other draws of the case are unchanged); records what was assigned"""
    which = sr.choice(["alpha", "lambda", "both", "both"])
    step = {"before": when}
    if which in ("alpha", "both"):
        est.td_alpha = sr.choice([v for v in TDV if v != est.td_alpha])
        step["td_alpha"] = est.td_alpha
    if which in ("lambda", "both"):
        est.td_lambda = sr.choice([v for v in TDV if v != est.td_lambda])
        step["td_lambda"] = est.td_lambda
    sched.append(step)
    return which


def sarsa_expected(est, trained, S, A, R, ssr):
    """the property's right-hand side from public quantities only: alpha, lambda = what the model reports now,
    Q = get_rewards (0 before training); returns (expected target rows as Fractions, alpha, lambda, Q)"""
    al, la = float(est.td_alpha), float(est.td_lambda)
    L = len(S)
    if L > 1:
        if trained:
            with quiet():
                Q = np.asarray(est.get_rewards(S, A), dtype=float).reshape(-1)
        else:
            Q = np.zeros(L)
        rdcc = (R[:, 0] + (1 - R[:, 1])) / 2
        return sarsa_closed(al, la, Q, rdcc), al, la, Q
    if ssr is None:
        return [[Fraction(float(v)) for v in R[0]]], al, la, None
    return [[Fraction(ssr), 1 - Fraction(ssr)]], al, la, None


def targets_equal(S, A, Sf, Af, T, expT):
    T = np.asarray(T, dtype=float)
    L = len(S)
    keep = slice(None, -1) if L > 1 else slice(None)
    if T.shape != (len(expT), 2) or not (np.array_equal(Sf, S[keep]) and np.array_equal(Af, A[keep])):
        return False
    return all(Fraction(float(T[j, c_])) == expT[j][c_] for j in range(len(expT)) for c_ in (0, 1))



# ------------------------------------------------------------------ rewards that are distinct but closer than the float
# grid near 1 resolves (0.1 vs 0.3-0.2, a few ulps apart, costs of order 1e-17 ...)
ARITH_PAIRS = [(0.1, 0.3 - 0.2), (0.2, 0.6 - 0.4), (0.3, 0.1 + 0.2), (0.3, 0.9 - 0.6), (0.4, 0.7 - 0.3),
               (0.15, 0.45 - 0.3), (0.05, 0.15 - 0.1), (0.45, 0.15 * 3), (0.7, 0.8 - 0.1), (0.9, 0.3 * 3)]
TINY_UNITS = [1e-17, 2.0 ** -60, 1e-30, 1e-300, 5e-324]


def near_tie_values(r, m):
    """m scalars in [0,1]: a cluster of 2-3 values that are (mostly) distinct doubles less than 1e-16 apart, filled up with
    well separated grid values, in random order"""
    kind = r.choice(["arith", "ulps", "tiny", "ulps", "arith", "tiny"])
    if kind == "arith":
        a, b = r.choice(ARITH_PAIRS)
        pool = [a, b] + ([float(np.nextafter(a, r.choice([0.0, 1.0])))] if r.random() < 0.3 else [])
    elif kind == "ulps":
        b = r.choice([r.uniform(0.01, 0.5), r.uniform(0.01, 0.5), r.uniform(0.01, 0.25), r.uniform(0.5, 0.99),
                      r.randint(1, 15) / 16])
        pool = []
        for k in r.sample(range(-3, 4), r.randint(2, 3)):
            v = b
            for _ in range(abs(k)):
                v = float(np.nextafter(v, 1.0 if k > 0 else 0.0))
            pool.append(v)
    else:
        u = r.choice(TINY_UNITS)
        pool = [u * k for k in r.sample(range(0, 8), r.randint(2, 3))]
    pool = pool[:m]
    while len(pool) < m:
        pool.append(r.randint(0, 16) / 16 if r.random() < 0.7 else r.choice(pool))
    r.shuffle(pool)
    return kind, [min(1.0, max(0.0, float(v))) for v in pool]


def distinct_actions(r, m):
    """m distinct raw action rows: one-hot (width m) or distinct grid points (width 1-2)"""
    if r.random() < 0.5:
        return np.eye(m)[r.sample(range(m), m)].reshape(m, m)
    da = r.randint(1, 2)
    pts = r.sample([(i / 16, j / 16) for i in range(17) for j in range(17)] if da == 2 else [(i / 16,) for i in range(17)], m)
    return np.array(pts, dtype=float).reshape(m, da)


def near_tie_block(ctx):
    """get_action on reward maps whose predicted rewards are distinct doubles less than 1e-16 apart (and exact ties, and
    well separated values) carried by different categories: the property's statement, executed on the implementation --
    the returned member is the FIRST member of the action space whose get_rewards value is the exact maximum / minimum"""
    cov = ctx.cov
    for i in range(ctx.scale(80, 800)):
        r = gen.rng_for(ctx.seed, "C16-neartie", i)
        name = "TD_FALCON" if i % 2 else "FALCON"
        m = r.randint(2, 5)
        kind, vals = near_tie_values(r, m)
        Araw = distinct_actions(r, m)
        da, ds_ = Araw.shape[1], r.randint(1, 2)
        sp = [specs.elem_spec(r, "FuzzyART", d) for d in (ds_, da, 1)]
        own_category = r.random() < 0.75
        if own_category:
            sp[1]["rho"] = 1.0                      # every distinct action is learned by a category of its own
        dims = [2 * ds_, 2 * da, 2]
        gam = list(r.choice(GAM3))
        spec = {"cls": name, "state_art": sp[0], "action_art": sp[1], "reward_art": sp[2],
                "gamma_values": gam, "channel_dims": dims}
        if name == "TD_FALCON":
            spec["td_alpha"], spec["td_lambda"] = r.choice(TDV), r.choice(TDV)
        same_state = r.random() < 0.7
        Sraw = gen.grid_rows(r, 1 if same_state else m, ds_)
        S = gen.cc(np.repeat(Sraw, m, axis=0) if same_state else Sraw)
        A = gen.cc(Araw)
        R = gen.cc(np.array(vals, dtype=float).reshape(-1, 1))
        rep = {"spec": spec, "near_tie_kind": kind, "S": S, "A": A, "R": R, "reward_values": vals}
        try:
            est = with_bounds(make(spec), ds_, da)
            with quiet():
                if name == "FALCON":
                    how = r.choice(["fit", "partial_fit", "rowwise"])
                    if how == "fit":
                        est.fit(S, A, R)
                    elif how == "partial_fit":
                        est.partial_fit(S, A, R)
                    else:
                        for k in range(m):
                            est.partial_fit(S[k:k + 1], A[k:k + 1], R[k:k + 1])
                else:
                    # single-transition episodes: the learning target is r itself (given as the reward row or as
                    # single_sample_reward)
                    how = r.choice(["reward-row", "single_sample_reward"])
                    for k in range(m):
                        est.partial_fit(S[k:k + 1], A[k:k + 1], R[k:k + 1],
                                        single_sample_reward=None if how == "reward-row" else vals[k])
            rep["trained_by"] = how
        except Exception as e:
            ctx.issue("violation", f"{name}.partial_fit:{exc_enum(e)}:near-tie-rewards", f"training raised {e!r}", rep)
            continue
        fa = est.fusion_art
        ncat = len(fa.W)
        cov.case((spec, S.tolist(), A.tolist(), vals, how), ncat >= 2)
        # get_rewards = reward-channel centre of the predicted category, also for rewards of extreme magnitude
        try:
            with quiet():
                got = est.get_rewards(S, A)
            exp, C = expected_rewards(fa, S, A)
            if got.shape != (m, 1) or not np.array_equal(got, exp):
                ctx.issue("violation", f"{name}.get_rewards:!=reward-centre-of-predicted-category",
                          f"get_rewards {got.tolist()} expected {exp.tolist()} (categories {C})", rep)
            else:
                cov.hit("near-tie:get_rewards==centre")
        except Exception as e:
            ctx.issue("violation", f"{name}.get_rewards:{exc_enum(e)}", f"raised {e!r}", rep)
            continue
        for t in range(3):
            state = S[r.randrange(m)]
            default = t == 2 and r.random() < 0.5
            if default:
                space = None
            else:
                order = r.sample(range(m), m)
                space = Araw[order]
                if r.random() < 0.25:                # a member may be listed twice
                    space = np.vstack([space, space[r.randrange(m)][None, :]])
            for opt in ("min", "max"):
                rp = dict(rep, state=state, space=space, optimality=opt)
                try:
                    with quiet():
                        act = est.get_action(state, action_space=None if default else space.copy(), optimality=opt)
                        sp_used = np.array(fa.get_channel_centers(1)) if default else space
                        prepared = gen.cc(sp_used)
                        srep = np.repeat(state.reshape(1, -1), len(sp_used), axis=0)
                        rew = np.asarray(est.get_rewards(srep, prepared), dtype=float).reshape(-1)
                        cats = [int(c) for c in fa.predict(np.hstack([srep, prepared, 0.5 * np.ones((len(sp_used), 2))]),
                                                           skip_channels=[2])]
                except Exception as e:
                    ctx.issue("violation", f"{name}.get_action:{exc_enum(e)}", f"raised {e!r}", rp)
                    continue
                rew_l = [float(v) for v in rew]
                best = max(rew_l) if opt == "max" else min(rew_l)          # exact comparison of doubles
                idx = rew_l.index(best)
                close_before = [j for j in range(idx) if rew_l[j] != best and abs(rew_l[j] - best) < 1e-16]
                close_after = [j for j in range(idx + 1, len(rew_l)) if rew_l[j] != best and abs(rew_l[j] - best) < 1e-16]
                if not np.array_equal(np.asarray(act), sp_used[idx]):
                    ctx.issue("violation", f"{name}.get_action:not-first-greedy"
                              + (":rewards-distinct-but-<1e-16-apart" if close_before or close_after else ""),
                              f"get_action(optimality={opt!r}) returned {np.asarray(act).tolist()} but the first {opt} of the "
                              f"predicted rewards {[repr(v) for v in rew_l]} is member {idx} = {sp_used[idx].tolist()} "
                              f"(categories {cats})", rp)
                    continue
                cov.hit(f"near-tie:get_action-{opt}-{'default' if default else 'explicit'}")
                if rew_l.count(best) > 1:
                    cov.hit(f"near-tie:get_action-{opt}-exact-tie")
                for tag, js in (("listed-before", close_before), ("listed-after", close_after)):
                    if js:
                        cov.hit(f"near-tie:get_action-{opt}-runner-up-within-1e-16-{tag}")
                        if any(cats[j] != cats[idx] for j in js):
                            cov.hit(f"near-tie:get_action-{opt}-runner-up-within-1e-16-{tag}-other-category")
                        if best < 0.5:
                            cov.hit(f"near-tie:get_action-{opt}-runner-up-within-1e-16-{tag}-below-0.5")
                        if 0 < best < 1e-15:
                            cov.hit(f"near-tie:get_action-{opt}-rewards-of-order-1e-17")



# ------------------------------------------------------------------ modules re-configured by the caller after construction
def held_agent(name, sp, dims, gam, ds_, da, td):
    """the caller's workflow: he instantiates the three channel modules himself, hands them to the agent's constructor and
    KEEPS the objects (to anneal them later); returns (agent, the caller's module objects)"""
    from .. import impl
    with quiet():
        mods = [make(s) for s in sp]
        est = getattr(impl, name)(*mods, gamma_values=list(gam), channel_dims=list(dims), **td)
    return with_bounds(est, ds_, da), mods


def draw_reconfiguration(r, current, rho_was_zero, queries_only=False):
    """one annealing step: for 1-3 channels new values of a non-empty subset of rho / beta / alpha (accepted by
    validate_params, standing assumption alpha > 0 when rho = 0 kept), applied with set_params or attribute assignment"""
    step = []
    for k in sorted(r.sample(range(3), r.choice([1, 1, 2, 3]))):
        p = gen.fuzzy_params(r)
        # (prediction reads only the choice parameter alpha: a step taken just before the queries always moves it)
        keys = r.choice([["alpha"], ["alpha"], ["rho", "alpha", "beta"]] if queries_only else
                        [["rho"], ["rho"], ["beta"], ["rho", "beta"], ["rho", "beta"], ["alpha"], ["rho", "alpha", "beta"]])
        new = {key: p[key] for key in keys}
        after = dict(current[k], **new)
        # standing assumption, read over the module's whole life: alpha > 0 unless the channel's vigilance has ALWAYS been
        # > 0 (a channel that ever learned with rho = 0 may hold an all-zero weight, for which alpha = 0 divides 0 / 0)
        if after["alpha"] == 0.0 and (after["rho"] == 0.0 or rho_was_zero[k]):
            new["alpha"] = after["alpha"] = 2.0 ** -10
        if all(current[k][key] == v for key, v in new.items()):
            new = {"rho": r.choice([v for v in gen.DYADIC_RHO if v != current[k]["rho"] and (v > 0 or after["alpha"] > 0)])}
            after = dict(current[k], **new)
        rho_was_zero[k] = rho_was_zero[k] or after["rho"] == 0.0
        current[k] = after
        step.append({"channel": k, "how": r.choice(["set_params", "set_params", "setattr"]), "params": new})
    return step


def apply_reconfiguration(step, modules):
    for ch in step:
        m = modules[ch["channel"]]
        with quiet():
            if ch["how"] == "set_params":
                m.set_params(**ch["params"])
            else:
                for key, v in ch["params"].items():
                    setattr(m, key, v)


def reconfigured_modules_block(ctx):
    """The caller re-configures the module objects he passed to the constructor (rho / beta / alpha annealing between
    episodes, before the first episode, before the final queries) through the modules' own public set_params / attributes.
    The property's statement, executed against a reference FusionART over identically configured and identically
    re-configured modules: after every episode the agent's fusion_art equals the reference trained on the joined rows
    (for TD-FALCON: on the joined SARSA rows, whose targets are the closed formula with Q read from the REFERENCE map);
    get_rewards = reward centre of the category the reference predicts with the reward channel withheld; get_action =
    first arg-max / arg-min over the action space of those reference rewards."""
    cov = ctx.cov
    tag = ":modules-reconfigured-by-caller"
    for i in range(ctx.scale(160, 1600)):
        r = gen.rng_for(ctx.seed, "C16-reconf", i)
        name = "TD_FALCON" if i % 2 else "FALCON"
        spec, sp, dims, gam, ds_, da = build(r, name)
        td = {k: spec[k] for k in ("td_alpha", "td_lambda") if k in spec}
        n_ep = r.randint(1, 4)
        lens = [r.randint(1 if name == "TD_FALCON" else 2, 6) for _ in range(n_ep)]
        sched, episodes = [], []
        rep = {"spec": spec, "module_reconfiguration": sched, "episodes": episodes,
               "note": "the modules are built by the caller, passed to the constructor and re-configured on the caller's objects"}
        try:
            est, mods = held_agent(name, sp, dims, gam, ds_, da, td)
            twin = fusion_twin(sp, dims, gam, ds_, da)          # reference: receives the same re-configuration
            stale = fusion_twin(sp, dims, gam, ds_, da)         # never re-configured (coverage evidence only)
        except Exception as e:
            ctx.issue("violation", f"{name}.__init__:{exc_enum(e)}{tag}", repr(e), rep)
            continue
        current = [dict(rho=s["rho"], alpha=s["alpha"], beta=s["beta"]) for s in sp]
        rho_was_zero = [s["rho"] == 0.0 for s in sp]

        def reconfigure(when):
            step = draw_reconfiguration(r, current, rho_was_zero, queries_only=when == "final queries")
            sched.append({"before": when, "changes": step})
            apply_reconfiguration(step, mods)                   # the objects the caller holds
            apply_reconfiguration(step, twin.modules)
            for ch in step:
                cov.hit(f"caller-reconfigures-module:{ch['how']}:{'+'.join(sorted(ch['params']))}")
                cov.hit(f"caller-reconfigures-channel-{ch['channel']}")

        ok, changed_training = True, False
        for e_i, L in enumerate(lens):
            S, A, R = trajectory(r, L, ds_, da)
            episodes.append((S, A, R))
            trained = hasattr(twin.modules[0], "W")
            if (e_i > 0 and r.random() < 0.8) or (e_i == 0 and r.random() < 0.3):
                reconfigure(f"episode {e_i}")
                cov.hit("caller-reconfigures-before-" + ("first-episode" if e_i == 0 else "later-episode"))
            try:
                if name == "FALCON":
                    use_fit = e_i == 0 and r.random() < 0.4 or r.random() < 0.1
                    J = np.hstack([S, A, R])
                    with quiet():
                        (est.fit if use_fit else est.partial_fit)(S, A, R)
                else:
                    use_fit = False
                    ssr = r.choice([None, 0.25, 1.0]) if L == 1 else None
                    rep.setdefault("episode_ssr", []).append(ssr)
                    al, la = float(est.td_alpha), float(est.td_lambda)
                    if L > 1:
                        Q = expected_rewards(twin, S, A)[0].reshape(-1) if trained else np.zeros(L)
                        expT = sarsa_closed(al, la, Q, (R[:, 0] + (1 - R[:, 1])) / 2)
                    else:
                        expT = sarsa_expected(est, trained, S, A, R, ssr)[0]
                    with quiet():
                        Sf, Af, T = est.calculate_SARSA(S, A, R, single_sample_reward=ssr)
                    if not targets_equal(S, A, Sf, Af, T, expT):
                        ctx.issue("violation", "TD_FALCON.calculate_SARSA:!=closed-formula" + tag,
                                  f"episode {e_i}: targets {np.asarray(T).tolist()} expected "
                                  f"{[[float(v) for v in row] for row in expT]} = clip(Q+alpha(r+lambda Q'-Q)) with Q from a "
                                  f"FusionART over identically re-configured modules (alpha {al}, lambda {la}, trained {trained}; "
                                  f"re-configurations so far: {sched})", rep)
                        ok = False
                        break
                    cov.hit("reconf:td-episode-targets==closed-formula")
                    J = np.hstack([Sf, Af, np.asarray(T, dtype=float)])
                    with quiet():
                        est.partial_fit(S, A, R, single_sample_reward=ssr)
                with quiet():
                    (twin.fit if use_fit else twin.partial_fit)(J)
                    (stale.fit if use_fit else stale.partial_fit)(J)
            except Exception as e:
                ctx.issue("violation", f"{name}.partial_fit:{exc_enum(e)}{tag}", f"episode {e_i} raised {e!r}", rep)
                ok = False
                break
            if not eq_fusion(est.fusion_art, twin):
                sa, sb = snap_fusion(est.fusion_art), snap_fusion(twin)
                ctx.issue("violation", f"{name}.{'fit' if use_fit else 'partial_fit'}:!=FusionART-on-joined-rows{tag}",
                          f"after episode {e_i} the agent's fusion_art ({len(sa['W'])} categories, labels {sa['labels']}) differs "
                          f"from a FusionART over identically configured and identically re-configured modules trained on the "
                          f"same joined rows ({len(sb['W'])} categories, labels {sb['labels']}); re-configurations of the "
                          f"caller's module objects so far: {sched}", rep)
                ok = False
                break
            cov.hit("reconf:fusion_art==FusionART(joined, same re-configuration)")
            if sched and not eq_fusion(twin, stale):
                changed_training = True
        ncat = len(twin.W) if hasattr(twin.modules[0], "W") else 0
        cov.case((spec, [[x.tolist() for x in e_] for e_ in episodes], repr(sched)), bool(sched) and ncat >= 2)
        if not ok:
            continue
        if changed_training:
            cov.hit("reconf:re-configuration-changes-what-is-learned")
        # ------------------------------------------------ queries, possibly after one more re-configuration
        before_queries = None
        if r.random() < 0.6:
            before_queries = deepcopy(twin)
            reconfigure("final queries")
            cov.hit("caller-reconfigures-before-queries")
        if not sched:
            cov.hit("reconf:control-without-re-configuration")
        nq = r.randint(1, 4)
        Sq, Aq, _ = trajectory(r, nq, ds_, da)
        if r.random() < 0.5:
            Sq[0], Aq[0] = episodes[0][0][0], episodes[0][1][0]
        rq = dict(rep, S=Sq, A=Aq)
        try:
            with quiet():
                got = est.get_rewards(Sq, Aq)
            exp, C = expected_rewards(twin, Sq, Aq)
            if got.shape != (nq, 1) or not np.array_equal(got, exp):
                ctx.issue("violation", f"{name}.get_rewards:!=reward-centre-of-predicted-category{tag}",
                          f"get_rewards {got.tolist()} expected {exp.tolist()} (categories {C} of a FusionART over identically "
                          f"re-configured modules; re-configurations: {sched})", rq)
                continue
            cov.hit("reconf:get_rewards==centre")
            if before_queries is not None and not np.array_equal(expected_rewards(before_queries, Sq, Aq)[0], exp):
                cov.hit("reconf:re-configuration-changes-predicted-rewards")
        except Exception as e:
            ctx.issue("violation", f"{name}.get_rewards:{exc_enum(e)}{tag}", f"raised {e!r}", rq)
            continue
        for t in range(2):
            state = Sq[r.randrange(nq)]
            default = r.random() < 0.3
            space = None if default else gen.grid_rows(r, r.randint(1, 5), da, style=r.choice(["coarse", "dups", "uniform"]))
            opt = r.choice(["max", "min"])
            rp = dict(rep, state=state, space=space, optimality=opt)
            try:
                with quiet():
                    act = est.get_action(state, action_space=None if default else space.copy(), optimality=opt)
                    sp_used = np.array(twin.get_channel_centers(1)) if default else space
                rew = expected_rewards(twin, np.repeat(state.reshape(1, -1), len(sp_used), axis=0), gen.cc(sp_used))[0].reshape(-1)
            except Exception as e:
                ctx.issue("violation", f"{name}.get_action:{exc_enum(e)}{tag}", f"raised {e!r}", rp)
                continue
            rew_l = [float(v) for v in rew]
            idx = rew_l.index(max(rew_l) if opt == "max" else min(rew_l))
            if not np.array_equal(np.asarray(act), sp_used[idx]):
                ctx.issue("violation", f"{name}.get_action:not-first-greedy{tag}",
                          f"get_action(optimality={opt!r}) returned {np.asarray(act).tolist()} but the first {opt} of the rewards "
                          f"{rew_l} predicted by a FusionART over identically re-configured modules is member {idx} = "
                          f"{sp_used[idx].tolist()} (re-configurations: {sched})", rp)
            else:
                cov.hit(f"reconf:get_action-{opt}-{'default' if default else 'explicit'}")


# ------------------------------------------------------------------ a channel module of a live agent is drawn
DRAWINGS = ["visualize:fusion-labels", "visualize:labels-copy", "visualize:short-colors", "visualize:default-axes",
            "plot_cluster_bounds", "plot_cluster_bounds:short-colors"]


def draw_channel_module(plt, ax, module, X, fusion_labels, how):
    """ONE plotting call on a channel module (the inspection a user makes between training and acting); the arguments
    are the caller's own copies of the rows, the labels are the live label arrays"""
    ncat = len(module.W)
    if how.startswith("visualize"):
        # (channel modules of a FusionART carry no labels_ of their own: the labels are the host's)
        y = np.array(fusion_labels) if how == "visualize:labels-copy" else fusion_labels
        if how == "visualize:short-colors":
            module.visualize(X, y, ax=ax, colors=["r", "g"][: max(1, min(2, ncat - 1))])
        elif how == "visualize:default-axes":
            module.visualize(X, y)
        else:
            module.visualize(X, y, ax=ax)
    else:
        extra = -1 if how.endswith("short-colors") else 7
        module.plot_cluster_bounds(ax, [(0.1 * (k % 10), 0.5, 0.5, 1.0) for k in range(max(1, ncat + extra))])


def drawn_modules_block(ctx):
    """A plotting call is part of a history like any other call: a FuzzyART channel module of a live agent
    (`agent.fusion_art.modules[k]`) is drawn ONCE (visualize with the live labels / a short colour list / no axes,
    plot_cluster_bounds on the caller's axes with a long or a short colour list) between training and acting or between two
    partial_fit episodes.  The property's statement, executed against a reference FusionART that is trained on the same
    joined rows and never drawn: right after the drawing the agent's fusion_art still equals the reference; get_rewards
    = reward centre of the category the reference predicts with the reward channel withheld; get_action = first arg-max /
    arg-min of those rewards; the next episode's TD targets = closed formula with Q read from the reference, valid
    reward-channel inputs; after the next episode the agent equals the reference trained on the joined (SARSA) rows.  A
    drawing that raises is tolerated (the statement is still judged on the agent afterwards)."""
    cov = ctx.cov
    tag = ":channel-module-drawn"
    try:
        import matplotlib
        matplotlib.use("Agg")
        import matplotlib.pyplot as plt
    except Exception:   # noqa
        cov.hit("drawn:matplotlib-missing")
        return
    fig, ax = plt.subplots()
    try:
        for i in range(ctx.scale(60, 600)):
            r = gen.rng_for(ctx.seed, "C16-drawn", i)
            name = "TD_FALCON" if i % 2 else "FALCON"
            # mostly agents with a two-feature channel (FuzzyART draws the first two features; a one-feature module cannot
            # be drawn by the unchanged library: get_bounding_box asserts), some without
            spec, sp, dims, gam, ds_, da = build(r, name, r.choice([(2, 2), (2, 1), (1, 2), (2, 2), (2, 1), (1, 2), (1, 1)]))
            n_pre = r.randint(1, 2)                              # episodes before the drawing
            when = r.choice(["before-queries", "between-episodes", "between-episodes"])
            lens = [r.randint(2, 6) for _ in range(n_pre + 1)]
            two_d = [k for k, d in enumerate((ds_, da, 1)) if d == 2]
            channel = r.choice(two_d) if two_d and r.random() < 0.85 else r.randrange(3)
            how = DRAWINGS[(i // 2 + i // 12) % len(DRAWINGS)]
            episodes, joined = [], []
            drawing = {"channel": channel, "call": how, "after_episode": n_pre - 1, "lifecycle": when, "calls": 1}
            rep = {"spec": spec, "episodes": episodes, "drawing": drawing,
                   "note": "agent.fusion_art.modules[channel] is drawn once after episode `after_episode`; the reference "
                           "FusionART is trained on the same joined rows and never drawn"}
            try:
                est = with_bounds(make(spec), ds_, da)
                twin = fusion_twin(sp, dims, gam, ds_, da)
            except Exception as e:
                ctx.issue("violation", f"{name}.__init__:{exc_enum(e)}{tag}", repr(e), rep)
                continue

            def episode(e_i, L, after_drawing):
                """one training episode on agent and reference; -> False when a clause failed"""
                S, A, R = trajectory(r, L, ds_, da)
                episodes.append((S, A, R))
                trained = hasattr(twin.modules[0], "W")
                sfx = tag if after_drawing else ""
                try:
                    if name == "FALCON":
                        use_fit = e_i == 0 and r.random() < 0.4
                        J = np.hstack([S, A, R])
                        with quiet():
                            (est.fit if use_fit else est.partial_fit)(S, A, R)
                    else:
                        use_fit = False
                        al, la = float(est.td_alpha), float(est.td_lambda)
                        Q = expected_rewards(twin, S, A)[0].reshape(-1) if trained else np.zeros(L)
                        expT = sarsa_closed(al, la, Q, (R[:, 0] + (1 - R[:, 1])) / 2)
                        with quiet():
                            Sf, Af, T = est.calculate_SARSA(S, A, R)
                        T = np.asarray(T, dtype=float)
                        if not targets_equal(S, A, Sf, Af, T, expT):
                            ctx.issue("violation", "TD_FALCON.calculate_SARSA:!=closed-formula" + sfx,
                                      f"episode {e_i}: targets {T.tolist()} expected "
                                      f"{[[float(v) for v in row] for row in expT]} = clip(Q+alpha(r+lambda Q'-Q)) with Q from a "
                                      f"FusionART trained on the same joined rows (alpha {al}, lambda {la}, trained {trained}; "
                                      f"drawing: {drawing if after_drawing else None})", rep)
                            return False
                        valid = bool(np.all(T >= 0) and np.all(T <= 1) and np.all(np.abs(T.sum(axis=1) - 1.0) <= 1e-12))
                        try:
                            with quiet():
                                est.fusion_art.modules[2].validate_data(T)
                        except Exception:   # noqa
                            valid = False
                        if not valid:
                            ctx.issue("violation", "TD_FALCON.calculate_SARSA:target-not-valid-reward-input" + sfx,
                                      f"episode {e_i}: targets {T.tolist()} are not complement-coded values in [0,1]", rep)
                            return False
                        if after_drawing:
                            cov.hit("drawn:td-episode-targets==closed-formula-and-valid")
                        J = np.hstack([Sf, Af, T])
                        with quiet():
                            est.partial_fit(S, A, R)
                    with quiet():
                        (twin.fit if use_fit else twin.partial_fit)(J)
                    if use_fit:
                        joined.clear()
                    joined.append(J)
                    rep.setdefault("episode_calls", []).append("fit" if use_fit else "partial_fit")
                except Exception as e:
                    ctx.issue("violation", f"{name}.partial_fit:{exc_enum(e)}{sfx}", f"episode {e_i} raised {e!r}", rep)
                    return False
                if not eq_fusion(est.fusion_art, twin):
                    sa, sb = snap_fusion(est.fusion_art), snap_fusion(twin)
                    ctx.issue("violation", f"{name}.{'fit' if use_fit else 'partial_fit'}:!=FusionART-on-joined-rows{sfx}",
                              f"after episode {e_i} the agent's fusion_art ({len(sa['W'])} categories, labels {sa['labels']}) "
                              f"differs from a FusionART trained on the same joined rows ({len(sb['W'])} categories, labels "
                              f"{sb['labels']}; drawing: {drawing if after_drawing else None})", rep)
                    return False
                if after_drawing:
                    cov.hit("drawn:next-episode:fusion_art==FusionART(joined)")
                return True

            if not all(episode(e_i, lens[e_i], False) for e_i in range(n_pre)):
                continue
            # ------------------------------------------------ the drawing: one call on one channel module
            fa = est.fusion_art
            lo = sum(dims[:channel])
            Xc = np.vstack(joined)[:, lo:lo + dims[channel]].copy()
            ncat = len(fa.W)
            try:
                with quiet():
                    draw_channel_module(plt, ax, fa.modules[channel], Xc, fa.labels_, how)
                cov.hit(f"drawn:{how}")
            except Exception as e:
                drawing["raised"] = exc_enum(e)
                cov.hit(f"drawn:raised:{how}:{exc_enum(e)}:channel-width-{dims[channel]}")
            finally:
                for n_ in plt.get_fignums():
                    if n_ != fig.number:
                        plt.close(n_)
                ax.cla()
            cov.hit(f"drawn:channel-{channel}-width-{dims[channel]}")
            cov.hit(f"drawn:{name}:{when}")
            cov.case((spec, [[x.tolist() for x in e_] for e_ in episodes], channel, how, when), ncat >= 2)
            if ncat >= 2:
                cov.hit("drawn:module-with->=2-categories")
            # ------------------------------------------------ the agent still equals FusionART trained on the joined rows
            if not eq_fusion(fa, twin):
                sa, sb = snap_fusion(fa), snap_fusion(twin)
                moved = [k for k in range(3) if not same_W(sa["chW"][k], sb["chW"][k])]
                ctx.issue("violation", f"{name}.fusion_art:!=FusionART-on-joined-rows{tag}",
                          f"after {how} on fusion_art.modules[{channel}] (a read-only inspection) the agent's fusion_art no longer "
                          f"equals a FusionART trained on the same joined rows: channel weights {moved} differ, labels "
                          f"{sa['labels']} vs {sb['labels']}, counters {sa['cnts']} vs {sb['cnts']}; e.g. channel {channel} "
                          f"category 0: {np.asarray(sa['chW'][channel][0]).tolist()} vs "
                          f"{np.asarray(sb['chW'][channel][0]).tolist()}", rep)
            else:
                cov.hit("drawn:fusion_art==FusionART(joined)-after-drawing")
            # ------------------------------------------------ acting (between training and acting)
            if when == "before-queries" or r.random() < 0.5:
                nq = r.randint(1, 4)
                Sq, Aq, _ = trajectory(r, nq, ds_, da)
                if r.random() < 0.6:
                    Sq[0], Aq[0] = episodes[0][0][0], episodes[0][1][0]
                rq = dict(rep, S=Sq, A=Aq)
                try:
                    with quiet():
                        got = est.get_rewards(Sq, Aq)
                    exp, C = expected_rewards(twin, Sq, Aq)
                    if got.shape != (nq, 1) or not np.array_equal(got, exp):
                        ctx.issue("violation", f"{name}.get_rewards:!=reward-centre-of-predicted-category{tag}",
                                  f"after {how} on channel {channel}: get_rewards {got.tolist()} expected {exp.tolist()} "
                                  f"(reward centres of categories {C} of a FusionART trained on the same joined rows)", rq)
                    else:
                        cov.hit("drawn:get_rewards==centre")
                except Exception as e:
                    ctx.issue("violation", f"{name}.get_rewards:{exc_enum(e)}{tag}", f"raised {e!r}", rq)
                for t in range(2):
                    state = Sq[r.randrange(nq)]
                    default = r.random() < 0.3
                    space = None if default else gen.grid_rows(r, r.randint(2, 5), da, style=r.choice(["coarse", "dups", "uniform"]))
                    opt = r.choice(["max", "min"])
                    rp = dict(rep, state=state, space=space, optimality=opt)
                    try:
                        with quiet():
                            act = est.get_action(state, action_space=None if default else space.copy(), optimality=opt)
                            sp_used = np.array(twin.get_channel_centers(1)) if default else space
                        rew = expected_rewards(twin, np.repeat(state.reshape(1, -1), len(sp_used), axis=0),
                                               gen.cc(sp_used))[0].reshape(-1)
                    except Exception as e:
                        ctx.issue("violation", f"{name}.get_action:{exc_enum(e)}{tag}", f"raised {e!r}", rp)
                        continue
                    rew_l = [float(v) for v in rew]
                    idx = rew_l.index(max(rew_l) if opt == "max" else min(rew_l))
                    if not np.array_equal(np.asarray(act), sp_used[idx]):
                        ctx.issue("violation", f"{name}.get_action:not-first-greedy{tag}",
                                  f"after {how} on channel {channel}: get_action(optimality={opt!r}) returned "
                                  f"{np.asarray(act).tolist()} but the first {opt} of the rewards {rew_l} learned from the joined "
                                  f"rows (FusionART reference) is member {idx} = {sp_used[idx].tolist()}", rp)
                    else:
                        cov.hit(f"drawn:get_action-{opt}-{'default' if default else 'explicit'}")
            # ------------------------------------------------ the next episode (between two partial_fit episodes)
            episode(n_pre, lens[n_pre], True)
    finally:
        plt.close("all")


def prepare(ctx):
    """Translator tie (see gen_tie.py): the source of this slice is re-translated to Lean on every run
    (harness/artv/rtrans.py) and proved equal to the model the property theorems are about"""
    from .gen_tie import gen_prepare, extra_theorems
    from .. import rtrans, mtrans
    gen_prepare(ctx, extra_theorems("rtrans") + extra_theorems("mtrans"), rtrans.COVERS + "; " + mtrans.COVERS)

def run(ctx):
    cov = ctx.cov
    ctx.assumptions += [
        "modules are prepared with identity column bounds (documented workflow: prepare_data first)",
        "reward channel = one complement-coded scalar (width 2); wider reward channels (flat arg-max) are outside",
        "'r alone before any training' is read as Q = 0 in the formula, i.e. the target is clip(td_alpha * r)",
        "re-configuration of caller-held modules stays inside validate_params and inside the standing assumption alpha > 0 "
        "for rho = 0, read over the module's life: alpha = 0 only for a channel whose vigilance has always been > 0 (a "
        "channel trained at rho = 0 can hold an all-zero weight, and FuzzyART's choice function is 0 / 0 there for alpha = 0)",
    ]
    N = ctx.scale(700, 7000)
    lines, metas = [], []
    for i in range(N):
        r = gen.rng_for(ctx.seed, "C16", i)
        name = "TD_FALCON" if i % 2 else "FALCON"
        spec, sp, dims, gam, ds_, da = build(r, name)
        cls = ["FuzzyART"] * 3
        chs = chans_str(cls, sp, dims, gam)
        small_beta = any(s["beta"] != 1.0 for s in sp)
        n_ep = r.randint(0, 3) if name == "TD_FALCON" else r.randint(1, 3)
        lens = [r.randint(1, 6 if small_beta else 12) for _ in range(n_ep)]
        rep = {"spec": spec}
        try:
            est = with_bounds(make(spec), ds_, da)
            twin = fusion_twin(sp, dims, gam, ds_, da)
            log = ActLog(est.fusion_art)
        except Exception as e:
            ctx.issue("violation", f"{name}.__init__:{exc_enum(e)}", repr(e), rep)
            continue
        hist_calls, ok = [], True
        episodes = []
        # hyper-parameter schedule (TD-FALCON, every other TD case): td_alpha / td_lambda re-assigned on the live model
        sr = gen.rng_for(ctx.seed, "C16-sched", i)
        scheduled = name == "TD_FALCON" and (i // 2) % 2 == 1
        sched = []
        if scheduled:
            rep["td_schedule"] = sched
        # ------------------------------------------------ training history
        for e_i, L in enumerate(lens):
            S, A, R = trajectory(r, L, ds_, da)
            episodes.append((S, A, R))
            rep["episodes"] = episodes
            try:
                if name == "FALCON":
                    use_fit = e_i == 0 and r.random() < 0.5 or r.random() < 0.15
                    J = np.hstack([S, A, R])
                    with quiet():
                        (est.fit if use_fit else est.partial_fit)(S, A, R)
                        (twin.fit if use_fit else twin.partial_fit)(J)
                    hist_calls.append(("fit" if use_fit else "pfit", J))
                    cov.hit("falcon-fit" if use_fit else "falcon-partial_fit")
                else:
                    ssr = r.choice([None, 0.25, 1.0]) if L == 1 else None
                    rep.setdefault("episode_ssr", []).append(ssr)
                    trained = hasattr(est.fusion_art.modules[0], "W")
                    if scheduled and sr.random() < 0.7:
                        cov.hit("td-reassigned-before-episode:" + reassign_td(est, sr, f"episode {e_i}", sched))
                    expT, al_e, la_e, Q_e = sarsa_expected(est, trained, S, A, R, ssr)
                    with quiet():
                        Sf, Af, T = est.calculate_SARSA(S, A, R, single_sample_reward=ssr)
                    if not targets_equal(S, A, Sf, Af, T, expT):
                        ctx.issue("violation", "TD_FALCON.partial_fit:episode-targets!=closed-formula"
                                  + (":td-reassigned" if sched else ""),
                                  f"episode {e_i}: calculate_SARSA targets {np.asarray(T).tolist()} expected "
                                  f"{[[float(v) for v in row] for row in expT]} for the reported td_alpha {al_e}, td_lambda "
                                  f"{la_e} (constructor {spec['td_alpha']}, {spec['td_lambda']}; trained {trained})", rep)
                        ok = False
                        break
                    cov.hit("td-episode-targets==closed-formula" + ("-reassigned" if sched else ""))
                    if sched and L > 1 and (al_e, la_e) != (spec["td_alpha"], spec["td_lambda"]):
                        if sarsa_closed(spec["td_alpha"], spec["td_lambda"], Q_e, (R[:, 0] + (1 - R[:, 1])) / 2) != expT:
                            cov.hit("td-reassignment-changes-episode-targets")
                    with quiet():
                        est.partial_fit(S, A, R, single_sample_reward=ssr)
                        J = np.hstack([Sf, Af, T])
                        twin.partial_fit(J)
                    hist_calls.append(("pfit", J))
                    cov.hit("td-partial_fit" + ("-untrained" if not trained else "") + ("-single" if L == 1 else ""))
            except Exception as e:
                ctx.issue("violation", f"{name}.partial_fit:{exc_enum(e)}", f"episode {e_i} raised {e!r}", rep)
                ok = False
                break
            if not eq_fusion(est.fusion_art, twin):
                ctx.issue("violation", f"{name}.fit:!=FusionART-on-joined-rows",
                          f"after episode {e_i} the inner fusion_art differs from a FusionART trained on the joined rows", rep)
                ok = False
                break
            cov.hit("fusion_art==FusionART(joined)")
        if not ok:
            continue
        fa = est.fusion_art
        trained = hasattr(fa.modules[0], "W")
        ncat = len(fa.W) if trained else 0
        if hist_calls:
            total_rows = sum(len(J) for _, J in hist_calls)
            if log.min_gap < 1e-9:
                cov.hit("float-ambiguous-training(skipped)")
            elif total_rows <= (10 if small_beta else 40):
                lines.append(f"fusion hist MT+ 0 - {chs} # " + " # ".join(f"{op} {mat_q(J)}" for op, J in hist_calls))
                metas.append(("hist", i, snap_fusion(fa), dict(rep, joined=[J for _, J in hist_calls])))
        Wq = mat_q([np.asarray(w, dtype=float) for w in fa.W]) if trained else "-"
        # ------------------------------------------------ get_rewards / get_action
        if trained:
            nq = r.randint(1, 5)
            Sq, Aq, _ = trajectory(r, nq, ds_, da)
            if episodes and r.random() < 0.5:
                Sq[0], Aq[0] = episodes[0][0][0], episodes[0][1][0]
            try:
                with quiet():
                    got = est.get_rewards(Sq, Aq)
                exp, C = expected_rewards(fa, Sq, Aq)
                if got.shape != (nq, 1) or not np.array_equal(got, exp):
                    ctx.issue("violation", f"{name}.get_rewards:!=reward-centre-of-predicted-category",
                              f"get_rewards {got.tolist()} expected {exp.tolist()} (categories {C})", dict(rep, S=Sq, A=Aq))
                else:
                    cov.hit("get_rewards==centre")
                if ambiguous_rows(fa, np.hstack([Sq, Aq, 0.5 * np.ones((nq, 2))]), [2]):
                    cov.hit("float-ambiguous-query(skipped)")
                else:
                    lines.append(f"falcon rew {chs} {Wq} {mat_q(Sq)} {mat_q(Aq)}")
                    metas.append(("rew", i, got, dict(rep, S=Sq, A=Aq)))
            except Exception as e:
                ctx.issue("violation", f"{name}.get_rewards:{exc_enum(e)}", f"raised {e!r}", dict(rep, S=Sq, A=Aq))
            for t in range(2):
                state = Sq[r.randrange(nq)]
                default = r.random() < 0.4
                if default:
                    space = None
                else:
                    m = r.randint(1, 6)
                    space = gen.grid_rows(r, m, da, style=r.choice(["coarse", "dups", "uniform"]))
                opt = r.choice(["max", "min"])
                rp = dict(rep, state=state, space=space, optimality=opt)
                try:
                    with quiet():
                        act = est.get_action(state, action_space=None if default else space.copy(), optimality=opt)
                        sp_used = np.array(fa.get_channel_centers(1)) if default else space
                        prepared = gen.cc(sp_used)        # identity bounds: prepare_data = complement coding
                        rew = est.get_rewards(np.repeat(state.reshape(1, -1), len(sp_used), axis=0), prepared).reshape(-1)
                except Exception as e:
                    ctx.issue("violation", f"{name}.get_action:{exc_enum(e)}", f"raised {e!r}", rp)
                    continue
                best = max(rew) if opt == "max" else min(rew)
                idx = [j for j, v in enumerate(rew) if v == best][0]
                if not np.array_equal(np.asarray(act), sp_used[idx]):
                    ctx.issue("violation", f"{name}.get_action:not-first-greedy",
                              f"get_action {np.asarray(act).tolist()} but first {opt} of rewards {rew.tolist()} is member "
                              f"{idx} = {sp_used[idx].tolist()}", rp)
                else:
                    cov.hit(f"get_action-{opt}-{'default' if default else 'explicit'}")
                    if sum(1 for v in rew if v == best) > 1:
                        cov.hit("get_action-tie")
                qrows = np.hstack([np.repeat(state.reshape(1, -1), len(sp_used), axis=0), prepared,
                                   0.5 * np.ones((len(sp_used), 2))])
                if ambiguous_rows(fa, qrows, [2]):
                    cov.hit("float-ambiguous-query(skipped)")
                    continue
                lines.append(f"falcon act {chs} {'1' if opt == 'max' else '0'} {Wq} {vec_q(state)} "
                             f"{'default' if default else mat_q(space)}")
                metas.append(("act", i, (np.asarray(act, dtype=float), rew), rp))
        # ------------------------------------------------ TD-FALCON: SARSA targets on a fresh trajectory
        if name == "TD_FALCON":
            L = r.choice([1, 1, 2, 2, 3, 5, 8, 13, 30]) if not ctx.thorough else r.randint(1, 30)
            S, A, R = trajectory(r, L, ds_, da)
            ssr = r.choice([None, 0.25, 0.75]) if (L == 1 and r.random() < 0.5) else None
            if scheduled and (not sched or sr.random() < 0.6):
                cov.hit("td-reassigned-before-query:" + reassign_td(est, sr, "final calculate_SARSA", sched))
            # alpha, lambda of the formula (and of the model line) = what the model reports now
            al, la = float(est.td_alpha), float(est.td_lambda)
            rp = dict(rep, S=S, A=A, R=R, ssr=ssr)
            cov.case((spec, [e_[0].tolist() for e_ in episodes], S.tolist(), A.tolist(), R.tolist(), ssr, sched),
                     L >= 2 and ncat >= 2)
            try:
                with quiet():
                    Sf, Af, T = est.calculate_SARSA(S, A, R, single_sample_reward=ssr)
            except Exception as e:
                ctx.issue("violation", f"TD_FALCON.calculate_SARSA:{exc_enum(e)}", f"raised {e!r}", rp)
                continue
            T = np.asarray(T, dtype=float)
            rdcc = (R[:, 0] + (1 - R[:, 1])) / 2
            if L > 1:
                if trained:
                    with quiet():
                        Q = est.get_rewards(S, A).reshape(-1)
                else:
                    Q = np.zeros(L)
                expT = sarsa_closed(al, la, Q, rdcc)
                shape_ok = T.shape == (L - 1, 2) and np.array_equal(Sf, S[:-1]) and np.array_equal(Af, A[:-1])
                val_ok = shape_ok and all(Fraction(float(T[j, c_])) == expT[j][c_] for j in range(L - 1) for c_ in (0, 1))
                cov.hit("sarsa-" + ("trained" if trained else "untrained"))
                if any(Fraction(float(Q[j])) + Fraction(al) * (Fraction(float(rdcc[j])) + Fraction(la) * Fraction(float(Q[j + 1]))
                                                               - Fraction(float(Q[j]))) > 1 for j in range(L - 1)):
                    cov.hit("sarsa-clipped-at-1")
            else:
                expT = [[Fraction(float(v)) for v in R[0]]] if ssr is None else [[Fraction(ssr), 1 - Fraction(ssr)]]
                shape_ok = T.shape == (1, 2) and np.array_equal(Sf, S) and np.array_equal(Af, A)
                val_ok = shape_ok and [Fraction(float(v)) for v in T[0]] == expT[0]
                cov.hit("sarsa-single" + ("-ssr" if ssr is not None else ""))
            if not val_ok:
                ctx.issue("violation", "TD_FALCON.calculate_SARSA:!=closed-formula" + (":td-reassigned" if sched else ""),
                          f"targets {T.tolist()} expected {[[float(v) for v in row] for row in expT]} "
                          f"(reported alpha {al}, lambda {la}; constructor {spec['td_alpha']}, {spec['td_lambda']}; "
                          f"trained {trained})", rp)
            elif sched:
                cov.hit("sarsa==closed-formula-for-reported-td-after-reassignment")
                if L > 1 and sarsa_closed(spec["td_alpha"], spec["td_lambda"], Q, rdcc) != expT:
                    cov.hit("td-reassignment-changes-query-targets")
            valid = T.size > 0 and bool(np.all(T >= 0) and np.all(T <= 1) and np.all(np.abs(T.sum(axis=1) - 1.0) <= 1e-12))
            try:
                with quiet():
                    fa.modules[2].validate_data(T)
            except Exception:
                valid = False
            if L > 1 or ssr is not None or True:
                if not valid:
                    ctx.issue("violation", "TD_FALCON.calculate_SARSA:target-not-valid-reward-input",
                              f"targets {T.tolist()} are not complement-coded values in [0,1]", rp)
                else:
                    cov.hit("sarsa-valid")
            if trained and L > 1 and ambiguous_rows(fa, np.hstack([S, A, 0.5 * np.ones((L, 2))]), [2]):
                cov.hit("float-ambiguous-query(skipped)")
            else:
                lines.append(f"falcon sarsa {q2s(al)} {q2s(la)} {'1' if trained else '0'} {chs} {Wq} {mat_q(S)} {mat_q(A)} "
                             f"{mat_q(R)} {'none' if ssr is None else q2s(ssr)}")
                metas.append(("sarsa", i, (Sf, Af, T), rp))
        else:
            cov.case((spec, [e_[0].tolist() for e_ in episodes], [e_[1].tolist() for e_ in episodes],
                      [e_[2].tolist() for e_ in episodes]), ncat >= 2)
        if i < 2:
            cov.sample({"class": name, "spec": spec, "episodes": lens, "ncat": ncat})
    # ---------------------------------------------------- reward maps with distinct rewards < 1e-16 apart
    near_tie_block(ctx)
    # ---------------------------------------------------- modules re-configured by the caller after construction
    reconfigured_modules_block(ctx)
    # ---------------------------------------------------- a channel module of a live agent drawn inside the history
    drawn_modules_block(ctx)
    # ---------------------------------------------------- model tie
    outs = run_driver(lines)
    for line, out, (kind, i, exp, rp) in zip(lines, outs, metas):
        rp = dict(rp, line=line, model=out)
        if out == "bad-op":
            ctx.issue("diff", f"falcon-{kind}:protocol", f"case {i}: bad-op", rp)
            continue
        if kind == "hist":
            g = out.split(" # ")[-1]
            if compare_state(ctx, "falcon-hist", i, -1, g, exp, rp):
                cov.hit("model-hist-ok")
                cov.traces += 1
        elif kind == "rew":
            rows = out[len("r="):].split("|")
            if len(rows) != len(exp) or any(t == "none" or not all(close(float(a), b) for a, b in zip(e_, parse_vec_q(t)))
                                             or len(parse_vec_q(t)) != len(e_) for t, e_ in zip(rows, exp)):
                ctx.issue("diff", "falcon-rew", f"case {i}: impl {exp.tolist()} model {out[:120]}", rp)
            else:
                cov.hit("model-rew-ok")
                cov.traces += 1
        elif kind == "act":
            act, rew = exp
            kv = parse_kv(out)
            ma = None if kv["act"] == "none" else parse_vec_q(kv["act"])
            mr = [None if t == "none" else parse_vec_q(t) for t in kv["rewards"].split("|")]
            if ma is None or len(ma) != len(act) or any(Fraction(float(a)) != b for a, b in zip(act, ma)):
                ctx.issue("diff", "falcon-act:action", f"case {i}: impl {act.tolist()} model {kv['act']}", rp)
            elif len(mr) != len(rew) or any(m_ is None or len(m_) != 1 or not close(float(a), m_[0]) for a, m_ in zip(rew, mr)):
                ctx.issue("diff", "falcon-act:rewards", f"case {i}: impl {rew.tolist()} model {kv['rewards'][:120]}", rp)
            else:
                cov.hit("model-act-ok")
                cov.traces += 1
        else:
            Sf, Af, T = exp
            kv = parse_kv(out)
            if not (cmp_W(list(Sf), parse_mat_q(kv["S"])) and cmp_W(list(Af), parse_mat_q(kv["A"]))):
                ctx.issue("diff", "falcon-sarsa:rows", f"case {i}: states/actions kept differ; model {out[:120]}", rp)
            elif not (len(T) == len(parse_mat_q(kv["T"])) and all(
                    [Fraction(float(v)) for v in a] == b for a, b in zip(T, parse_mat_q(kv["T"])))):
                ctx.issue("diff", "falcon-sarsa:targets", f"case {i}: impl {T.tolist()} model {kv['T'][:160]}", rp)
            else:
                cov.hit("model-sarsa-ok")
                cov.traces += 1
