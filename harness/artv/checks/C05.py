"""C05 — labels, cluster count and per-category counters stay mutually
consistent.  Oracle: direct recomputation from the implementation's state after
every call of random fit / partial_fit histories, all BaseART-derived families
and the A/B sides of the ARTMAP family.  Tie: Lean histories (labels, counters)
end-to-end over Q for the exact kernels."""
from __future__ import annotations

import numpy as np

from .. import gen, families
from ..impl import quiet, exc_enum
from . import e2e

RULE = ("cases = (family, hyper-parameters, stream, history of fit/partial_fit calls with random batch sizes incl. "
        "size 1); checked after every call; non-trivial when >= 2 categories exist at the end; distinct by hash of "
        "(family spec, stream, history); plus histories whose caller-supplied match_reset_func re-enters the estimator "
        "being trained with partial_fit (rehearsal of earlier rows), non-trivial when an inner call happened and >= 2 "
        "categories exist; plus FusionART hosts built around channel modules that carry state from outside the host "
        "(trained standalone beforehand or taken over from an older FusionART), non-trivial when a pre-owned module held "
        "categories when the host was built and the host ends with >= 2 categories")

FAMS = families.ELEM + ["FusionART", "DualVigilanceART", "TopoART", "CVIART", "iCVIFuzzyART", "SimpleARTMAP", "ARTMAP"]


def label_objects(fam, est):
    """(name, object holding labels_/W, counters follow generic search?)"""
    n = fam.name
    if n == "SimpleARTMAP":
        return [("module_a", est.module_a, True)]
    if n == "ARTMAP":
        return [("module_a", est.module_a, True), ("module_b", est.module_b, True)]
    if n == "FusionART":
        return [("fusion", est, False)] + [(f"channel{k}", m, "chan") for k, m in enumerate(est.modules)]
    if n == "CVIART":
        return [("cviart", est, False), ("base_module", est.base_module, True)]
    if n in ("DualVigilanceART", "TopoART"):
        return [(n, est, False)]
    return [(n, est, True)]


def check_state(ctx, fam, est, expect_len, desc, where, positions_in_order=True, scenario=""):
    """`positions_in_order=False`: the position of a label in labels_ is not the rank of its sample in the order of
    presentation (re-entrant calls), so 'numbered in order of creation' cannot be read off first occurrences;
    `scenario` is appended to the class in the issue signatures"""
    name = fam.name
    for oname, o, counters in label_objects(fam, est):
        tag = (f"{name}.{oname}" if oname != name else name) + scenario
        if counters == "chan":
            # channel modules hold weights and counters; labels live on the fusion object
            labels = np.asarray(est.labels_)
        else:
            labels = np.asarray(o.labels_)
        W = o.W
        ncl = o.n_clusters
        rep = dict(desc, where=where, object=oname)
        if len(labels) != expect_len:
            ctx.issue("violation", f"{tag}:labels-length", f"{where}: len(labels_)={len(labels)}, samples since last fit={expect_len}", rep)
            return
        if name == "DualVigilanceART":
            # labels are cluster labels; n_clusters counts clusters, W holds the finer categories
            if len(labels) and (labels.min() < 0 or labels.max() >= ncl):
                ctx.issue("violation", f"{tag}:label-range", f"{where}: labels {labels.tolist()} n_clusters {ncl}", rep)
            if sorted(set(est.map.values())) != list(range(ncl)):
                ctx.issue("violation", f"{tag}:map-range", f"{where}: map values {sorted(set(est.map.values()))} n_clusters {ncl}", rep)
            # one counter per base category (labels are cluster labels, so only length and total can be compared)
            cnt = [int(t) for t in est.weight_sample_counter_]
            bcnt = [int(t) for t in est.base_module.weight_sample_counter_]
            if cnt != bcnt or len(cnt) != len(W) or sum(cnt) != expect_len:
                ctx.issue("violation", f"{tag}:counters", f"{where}: weight_sample_counter_ {cnt} (base module {bcnt}) for {len(W)} "
                          f"categories and {expect_len} samples presented since the last fit", rep)
            continue
        if ncl != len(W):
            ctx.issue("violation", f"{tag}:n_clusters", f"{where}: n_clusters={ncl} len(W)={len(W)}", rep)
        lo = -1 if fam.pruning else 0
        if len(labels) and (labels.min() < lo or labels.max() >= max(len(W), 1) and not (len(W) == 0 and labels.max() <= 0 and fam.pruning)):
            if not (fam.pruning and len(W) == 0 and set(labels.tolist()) <= {-1, 0}):
                ctx.issue("violation", f"{tag}:label-range", f"{where}: labels {labels.tolist()} |W|={len(W)}", rep)
        if not fam.pruning and len(labels):
            used = sorted(set(labels.tolist()))
            if used != list(range(len(W))):
                ctx.issue("violation", f"{tag}:empty-category", f"{where}: labels use {used}, |W|={len(W)}", rep)
            firsts = [labels.tolist().index(k) for k in used]
            if positions_in_order and firsts != sorted(firsts):
                ctx.issue("violation", f"{tag}:creation-order", f"{where}: first occurrences {firsts}", rep)
        if counters:
            cnt = [int(t) for t in o.weight_sample_counter_]
            hist = np.bincount(labels, minlength=len(W)).tolist() if len(labels) else [0] * len(W)
            if cnt != hist:
                ctx.issue("violation", f"{tag}:counters!=histogram", f"{where}: counters {cnt} histogram {hist}", rep)
            if counters is True and int(o.sample_counter_) != expect_len and name != "CVIART":
                ctx.issue("violation", f"{tag}:sample_counter", f"{where}: sample_counter_={o.sample_counter_} presented={expect_len}", rep)
            if sum(cnt) != expect_len:
                ctx.issue("violation", f"{tag}:counter-total", f"{where}: sum(counters)={sum(cnt)} presented={expect_len}", rep)


def prepare(ctx):
    """Translator tie (see gen_tie.py): the statements of BaseART.step_fit are regenerated from the source and the
    theorems about the generated definition are re-checked"""
    from .gen_tie import gen_prepare, extra_theorems
    from .. import gftrans
    gen_prepare(ctx, extra_theorems("gftrans") + ['Control.step_fit_refines', 'Control.step_fit_counts', 'Control.partial_fit_loop', 'Control.partial_fit_spec',
                      'Control.fit_spec', 'Control.fitEpochs_one', 'Control.scalar_gcontract', 'Control.scalar_fit',
                      'Control.scalar_partial_fit',
                      'Whole.dual_partial_fit_spec', 'Whole.dual_fit_spec', 'Whole.dual_partial_fit_map_total', 'Whole.dual_fit_map_total',
                      'Whole.topo_fit_spec', 'Whole.topo_partial_fit_spec', 'Whole.topo_fit_shape', 'Whole.topo_fit_labels'],
                "BaseART.step_fit / partial_fit / fit (translated statements): counters, labels vector, one epoch = the model fit; the same "
                "inherited loops re-translated for DualVigilanceART and TopoART receivers (wtrans -> ArtGen/Whole.lean): label counts, map "
                "totality, labels valid after pruning; " + gftrans.COVERS)


def run(ctx):
    cov = ctx.cov
    N = ctx.scale(360, 6000)
    nmax = ctx.scale(18, 60)
    for i in range(N):
        r = gen.rng_for(ctx.seed, "C05", i)
        name = FAMS[i % len(FAMS)]
        n = r.randint(1, nmax)
        fam, rows = families.build(r, name, n, floats=r.random() < 0.25)
        n = len(rows)
        desc = dict(fam.describe(), rows=rows.tolist())
        est = fam.make()
        # a history: optional first fit on a prefix, partial_fit batches, optional later fit
        calls = []
        parts = gen.compositions(r, n)
        j = 0
        for p in parts:
            op = "fit" if (not fam.has_pfit or (fam.has_fit and r.random() < 0.25)) else "pfit"
            calls.append((op, j, j + p))
            j += p
        since = 0
        ok = True
        for k, (op, a, b) in enumerate(calls):
            try:
                if op == "fit":
                    fam.fit(est, rows.sl(a, b))
                    since = b - a
                else:
                    fam.pfit(est, rows.sl(a, b))
                    since += b - a
            except Exception as e:
                cov.hit(f"train-raised:{name}:{exc_enum(e)}")
                ok = False
                break
            check_state(ctx, fam, est, since, dict(desc, calls=calls), f"after call {k} ({op} rows {a}:{b})")
        if not ok:
            cov.case((name, fam.spec, desc["rows"], calls), False)
            continue
        # fit_predict returns exactly labels_
        if hasattr(est, "fit_predict") and name in families.ELEM and r.random() < 0.4:
            try:
                e2 = fam.make()
                with quiet():
                    out = e2.fit_predict(rows.arrs["X"])
                if not np.array_equal(np.asarray(out), np.asarray(e2.labels_)):
                    ctx.issue("violation", f"{name}:fit_predict!=labels_", "fit_predict output differs from labels_", desc)
                cov.hit("fit_predict")
            except Exception as e:
                cov.hit(f"fit_predict-raised:{name}:{exc_enum(e)}")
        ncat = len(est.W) if hasattr(est, "W") else 0
        cov.case((name, fam.spec, desc["rows"], calls), ncat >= 2 or name in ("SimpleARTMAP", "ARTMAP"))
        if i < 3:
            cov.sample({"family": name, "spec": fam.spec, "calls": calls})
    label_dtypes(ctx)
    topo_emptied_then_partial(ctx)
    checkpoint_then_refit(ctx)
    reentrant_reset(ctx)
    fit_gif_histories(ctx)
    plotting_calls(ctx)
    preowned_channel_modules(ctx)
    e2e.base_histories(ctx, "C05", ctx.scale(150, 3000), ctx.scale(20, 80), fields=("labels", "cnt"))


def label_dtypes(ctx):
    """class targets need not be an int array (bool flags, float codes): the A-side labels_ are category indices all
    the same — integers that index W, with counters equal to their histogram — whichever call came first"""
    from .. import specs
    from ..impl import make
    cov = ctx.cov
    for i in range(ctx.scale(24, 300)):
        r = gen.rng_for(ctx.seed, "C05-ydtype", i)
        d = r.randint(1, 3)
        n = r.randint(4, 14)
        spec = {"cls": "SimpleARTMAP", "module_a": specs.elem_spec(r, "FuzzyART", d)}
        X = specs.elem_data(r, "FuzzyART", n, d)
        kind = ["bool", "float", "int32", "uint8"][i % 4]
        y0 = gen.labels(r, n, 2 if kind == "bool" else 3)
        y = y0.astype({"bool": bool, "float": float, "int32": np.int32, "uint8": np.uint8}[kind])
        first = r.choice(["partial_fit", "fit"])
        parts = gen.compositions(r, n)
        rep = {"spec": spec, "X": X.tolist(), "y": y0.tolist(), "y_dtype": kind, "first_call": first, "partition": parts}
        try:
            est = make(spec)
            with quiet():
                j = 0
                for k_, p in enumerate(parts):
                    fn = est.fit if (k_ == 0 and first == "fit") else est.partial_fit
                    if fn == est.fit:
                        j = 0
                    fn(X[j:j + p], y[j:j + p])
                    j += p
            seen = p if first == "fit" and len(parts) == 1 else (sum(parts) if first == "partial_fit" else sum(parts))
            m = est.module_a
            lab = np.asarray(m.labels_)
            if lab.dtype.kind not in "iu":
                ctx.issue("violation", "SimpleARTMAP.module_a:labels-dtype", f"A-side labels_ have dtype {lab.dtype} (targets were {kind}): "
                          f"{lab.tolist()[:8]}", rep)
            else:
                cnt = [int(t) for t in m.weight_sample_counter_]
                hist = np.bincount(lab.astype(int), minlength=len(m.W)).tolist()
                if len(lab) != n or lab.max() >= len(m.W) or cnt != hist:
                    ctx.issue("violation", "SimpleARTMAP.module_a:counters!=histogram", f"targets {kind}: labels {lab.tolist()} "
                              f"counters {cnt} |W|={len(m.W)}", rep)
            cov.hit(f"targets-dtype:{kind}")
            cov.case(("ydtype", spec, rep["X"], rep["y"], kind, first, parts), len(m.W) >= 2)
        except Exception as e:
            cov.hit(f"targets-dtype:{kind}:raised:{exc_enum(e)}")


def topo_emptied_then_partial(ctx):
    """a TopoART whose fit ended with a pruning round that removed every category (W == [], labels all -1) is still a
    trained model: partial_fit appends to labels_, one entry per sample presented since the fit"""
    cov = ctx.cov
    for i in range(ctx.scale(20, 300)):
        r = gen.rng_for(ctx.seed, "C05-topo-emptied", i)
        n = r.randint(2, 8)
        fam, rows = families.build(r, "TopoART", n)
        n = len(rows)
        fam.spec["tau"] = r.choice([n, n, n] + [t for t in range(2, n + 1) if n % t == 0])   # the last sample of fit triggers a round
        fam.spec["phi"] = fam.spec["tau"]              # phi <= tau is required; with >= 2 categories nobody reaches it
        desc = dict(fam.describe(), rows=rows.tolist())
        try:
            est = fam.make()
            fam.fit(est, rows)
            emptied = len(est.W) == 0
            check_state(ctx, fam, est, n, desc, "after fit ending in a pruning round")
            k = r.randint(1, n)
            fam.pfit(est, rows.sl(0, k))
            check_state(ctx, fam, est, n + k, dict(desc, then_partial_fit_rows=k), f"after fit (model emptied: {emptied}) then partial_fit rows 0:{k}")
            cov.hit("topo:emptied-then-partial_fit" if emptied else "topo:not-emptied-then-partial_fit")
        except Exception as e:
            cov.hit(f"topo-emptied:raised:{exc_enum(e)}")
        cov.case(("topo-emptied", fam.spec, desc["rows"]), True)


# estimators that keep their whole trained state (W, labels_, counters) in their own attributes: a shallow copy of one of
# these is a second estimator object in its own right.  Compound estimators (FusionART, DualVigilanceART, TopoART, CVIART,
# the ARTMAPs) keep that state in sub-estimators, which a shallow copy shares by definition, so a re-fit of one side is a
# re-fit of the other side's modules: they are outside this scenario.
OWN_STATE = families.ELEM + ["iCVIFuzzyART"]


def c05_state(o):
    """the attributes the property speaks about, detached from the estimator"""
    return {"labels": np.asarray(o.labels_).tolist(), "n_clusters": int(o.n_clusters), "nW": len(o.W),
            "counters": [int(t) for t in o.weight_sample_counter_], "sample_counter": int(o.sample_counter_)}


def checkpoint_then_refit(ctx):
    """two estimator objects that share state through a shallow copy (`copy.copy(model)`, the cheap check-point): one of
    them is trained further by a `fit` (which starts a new model: new W, new counters, new labels) on a data set that
    very often has the SAME number of rows as the one before, the other receives no call.  Both objects are estimators
    at a point of their own training history, so the property holds for each: the untouched one still has one label per
    sample presented to it, labels that index its categories and counters equal to the label histogram — its state is
    what it was — and the re-fitted one is consistent with the new data; the untouched one can then go on learning with
    partial_fit.  (partial_fit directly after the copy is not used: it appends to the W list the two objects share.)"""
    import copy
    cov = ctx.cov
    for i in range(ctx.scale(120, 2000)):
        r = gen.rng_for(ctx.seed, "C05-checkpoint", i)
        name = OWN_STATE[i % len(OWN_STATE)]
        floats = r.random() < 0.25
        fam, rows = families.build(r, name, r.randint(2, 14), floats=floats)
        n = len(rows)
        if fam.fresh is None:
            continue
        # first training history of the original (as in run)
        calls, j = [], 0
        for p in gen.compositions(r, n):
            op = "fit" if (not fam.has_pfit or (fam.has_fit and (j == 0 or r.random() < 0.25))) else "pfit"
            calls.append((op, j, j + p))
            j += p
        desc = dict(fam.describe(), rows=rows.tolist(), calls=calls)
        key = None
        try:
            est = fam.make()
            since = 0
            for op, a, b in calls:
                if op == "fit":
                    fam.fit(est, rows.sl(a, b))
                    since = b - a
                else:
                    fam.pfit(est, rows.sl(a, b))
                    since += b - a
            twin = copy.copy(est)
            refit = r.choice(["original", "copy"])
            trained, kept = (est, twin) if refit == "original" else (twin, est)
            kept_role = "copy" if refit == "original" else "original"
            m = since if r.random() < 0.65 else r.randint(1, 14)
            rows2 = fam.fresh(r, m, floats)
            m = len(rows2)
            desc.update(shallow_copy_after_call=len(calls) - 1, refit=refit, refit_rows=rows2.tolist())
            key = (name, fam.spec, desc["rows"], calls, refit, desc["refit_rows"])
            check_state(ctx, fam, kept, since, desc, f"{kept_role} right after copy.copy")
            before = c05_state(kept)
            fam.fit(trained, rows2)
            where = f"the {kept_role} (no call since copy.copy) after the {refit} was re-fitted on {m} rows (before: {since} rows)"
            after = c05_state(kept)
            if after != before:
                diff = {k_: (before[k_], after[k_]) for k_ in before if before[k_] != after[k_]}
                ctx.issue("violation", f"{name}:state-changed-without-call", f"{where}: (before, after) = {diff}",
                          dict(desc, where=where))
            check_state(ctx, fam, kept, since, desc, where)
            check_state(ctx, fam, trained, m, desc, f"the re-fitted {refit} ({m} rows; its twin keeps the {since}-row model)")
            cov.hit(f"checkpoint:refit-{refit}:{'same' if m == since else 'other'}-row-count")
            if fam.has_pfit and r.random() < 0.4:
                k = r.randint(1, 5)
                rows3 = fam.fresh(r, k, floats)
                desc = dict(desc, then_partial_fit_rows_on_untouched=rows3.tolist())
                fam.pfit(kept, rows3)
                check_state(ctx, fam, kept, since + len(rows3), desc, f"the {kept_role} after the {refit} was re-fitted, then partial_fit "
                            f"of {len(rows3)} rows on the {kept_role}")
                check_state(ctx, fam, trained, m, desc, f"the re-fitted {refit} after its twin went on with partial_fit")
                cov.hit("checkpoint:untouched-twin-then-partial_fit")
            cov.case(key, before["nW"] >= 2 and len(trained.W) >= 1)
        except Exception as e:
            cov.hit(f"checkpoint:raised:{name}:{exc_enum(e)}")
            if key is not None:
                cov.case(key, False)


# estimators whose fit / partial_fit accept a caller-supplied match_reset_func (the ARTMAPs install their own, CVIART and
# iCVIFuzzyART drive their base module with theirs)
REENTRANT = families.ELEM + ["FusionART", "DualVigilanceART", "TopoART"]


def reentrant_reset(ctx):
    """a RE-ENTRANT reset function: `match_reset_func` is a caller's callback, consulted in the middle of a sample's
    search; an interactive teacher doing experience replay answers it only after having presented one or two earlier
    samples to the very estimator being trained, through the public partial_fit (sometimes handing itself down as the
    reset function of that inner call too; sometimes it also vetoes a candidate).  Every sample presented — by the outer
    calls and by the inner ones — is a sample of the training history, so after every OUTER call the property reads:
    one label per sample presented since the last fit, every label indexes an existing category, no category without a
    label (non-pruning), n_clusters = stored categories, counters = label histogram with total = samples presented,
    sample_counter_ = samples presented.  Where in labels_ the inner samples' labels are kept is not prescribed, so the
    'order of creation' clause is not read off first occurrences here.  Then training goes on with a plain partial_fit."""
    cov = ctx.cov
    for i in range(ctx.scale(330, 2600)):
        r = gen.rng_for(ctx.seed, "C05-reentrant", i)
        name = REENTRANT[i % len(REENTRANT)]
        fam, rows = families.build(r, name, r.randint(3, 14), floats=r.random() < 0.25)
        n = len(rows)
        X = rows.arrs["X"]
        calls, j = [], 0
        for p in gen.compositions(r, n):
            op = "fit" if (fam.has_fit and r.random() < 0.2) else "pfit"
            calls.append((op, j, j + p))
            j += p
        # the teacher's plan: at which of its consultations (counted over the whole history) it rehearses, which earlier
        # rows (fractions of the rows handed over so far), whether the inner call is given the teacher as well, and
        # which consultations it answers with a veto
        plan = {"rehearse_at": {str(q): [r.random() for _ in range(r.randint(1, 2))]
                                for q in r.sample(range(0, n + 2), r.randint(1, min(3, n)))},
                "inner_gets_teacher": r.random() < 0.25,
                "veto": [r.random() < 0.3 for _ in range(16)] if r.random() < 0.5 else [False]}
        st = {"q": 0, "since": 0, "upto": 0, "depth": 0, "events": [], "op": None, "in_fit": False}
        est = fam.make()

        def teacher(x, w, c_, params=None, cache=None):
            q = st["q"]
            st["q"] += 1
            us = plan["rehearse_at"].get(str(q))
            if us is not None and st["depth"] < 3:
                idx = sorted({int(u * st["upto"]) for u in us})
                st["events"].append({"consultation": q, "category": int(c_), "rehearsed_rows": idx, "depth": st["depth"]})
                st["depth"] += 1
                st["in_fit"] = st["in_fit"] or st["op"] == "fit"
                try:
                    # counted before the call: a label per sample is owed as soon as the sample is handed over
                    st["since"] += len(idx)
                    est.partial_fit(X[idx], match_reset_func=teacher if plan["inner_gets_teacher"] else None, **fam.kw())
                finally:
                    st["depth"] -= 1
            return not plan["veto"][q % len(plan["veto"])]

        def scen():
            # the signature names the situation: an inner call made while the model of the last `fit` was being built
            # (fit's own per-epoch bookkeeping is in force), or only while partial_fit calls were running
            return "[reentrant-reset-func" + (",inner-call-during-fit]" if st["in_fit"] else "]")

        desc = dict(fam.describe(), rows=rows.tolist(), calls=calls, reset_func_plan=plan, inner_calls=st["events"])
        key = (name, fam.spec, desc["rows"], calls, sorted(plan["rehearse_at"].items()), plan["inner_gets_teacher"], plan["veto"])
        try:
            for k, (op, a, b) in enumerate(calls):
                st["upto"], st["op"] = b, op
                n_ev = len(st["events"])
                with families.quiet():
                    if op == "fit":
                        st["since"], st["in_fit"] = b - a, False
                        est.fit(X[a:b], match_reset_func=teacher, **fam.kw())
                    else:
                        st["since"] += b - a
                        est.partial_fit(X[a:b], match_reset_func=teacher, **fam.kw())
                inner = st["events"][n_ev:]
                check_state(ctx, fam, est, st["since"], desc,
                            f"after call {k} ({op} rows {a}:{b}) whose reset function called partial_fit {len(inner)} time(s) on the "
                            f"estimator being trained (rows {[e['rehearsed_rows'] for e in inner]})", positions_in_order=not st["events"], scenario=scen())
                if inner:
                    cov.hit(f"reentrant:{op}:inner-partial_fit")
                    cov.hit(f"reentrant:family:{name}")
                    if max(e["depth"] for e in inner) > 0:
                        cov.hit("reentrant:nested-inner-call")
            # and training simply goes on
            k = r.randrange(n)
            fam.pfit(est, rows.sl(k, k + 1))
            st["since"] += 1
            check_state(ctx, fam, est, st["since"], dict(desc, then_partial_fit_row=k),
                        f"plain partial_fit of row {k} after a history with {len(st['events'])} re-entrant inner call(s)",
                        positions_in_order=not st["events"], scenario=scen())
            if any(plan["veto"]) and st["events"]:
                cov.hit("reentrant:with-vetoes")
            cov.case(key, bool(st["events"]) and len(est.W) >= 2)
        except Exception as e:
            cov.hit(f"reentrant:raised:{name}:{exc_enum(e)}")
            cov.case(key, False)


GIF_FAMS = families.ELEM + ["DualVigilanceART", "TopoART"]


def fit_gif_histories(ctx):
    """`fit_gif` is a training entry point as well (BaseART's training loop with a frame drawn after every sample,
    inherited by every clustering estimator): a history that contains it — on a new estimator, after a `fit` on the same
    or on other data, followed by a `partial_fit` — leaves one label per sample presented since that call, labels that
    index the categories, and counters equal to the label histogram (defect F45: the counters of the previous model
    survived a `fit_gif`)."""
    import random
    import shutil
    import tempfile
    cov = ctx.cov
    try:
        import matplotlib
        matplotlib.use("Agg")
        import matplotlib.pyplot as plt
    except Exception:
        cov.hit("fit_gif:matplotlib-missing")
        return
    tmp = tempfile.mkdtemp(prefix="artv-gif-")
    try:
        for i in range(ctx.scale(10, 80)):
            r = gen.rng_for(ctx.seed, "C05-fit-gif", i)
            name = GIF_FAMS[i % len(GIF_FAMS)]
            n = r.randint(3, 7)
            for _ in range(24):
                fam, rows = families.build(random.Random(r.random()), name, n)
                if rows.arrs["X"].shape[1] >= 2 and (not fam.groups or fam.groups[0][1] == 2):
                    break
            else:
                cov.hit("fit_gif:no-2d-instance")
                continue
            n = len(rows)
            before = r.choice(["new", "fit-same", "fit-other", "fit-other"])
            desc = dict(fam.describe(), rows=rows.tolist(), before=before)
            X = rows.arrs["X"]
            try:
                est = fam.make()
                if before == "fit-same":
                    fam.fit(est, rows)
                elif before == "fit-other":
                    other = fam.fresh(r, r.randint(2, 9)) if fam.fresh else rows
                    desc["fit_rows"] = other.tolist()
                    fam.fit(est, other)
                with quiet():
                    est.fit_gif(X, filename=f"{tmp}/c{i}.gif", n_cluster_estimate=max(2 * n, 4), fps=50, **fam.kw())
                plt.close("all")
            except Exception as e:
                plt.close("all")
                cov.hit(f"fit_gif:raised:{name}:{exc_enum(e)}")
                continue
            cov.hit(f"fit_gif:{name}")
            cov.hit(f"fit_gif:before={before}")
            check_state(ctx, fam, est, n, desc, f"after fit_gif ({before})", scenario=":fit_gif")
            try:
                k = r.randint(1, n)
                fam.pfit(est, rows.sl(0, k))
                check_state(ctx, fam, est, n + k, dict(desc, then_partial_fit_rows=k), f"after fit_gif ({before}) then partial_fit rows 0:{k}",
                            scenario=":fit_gif")
                cov.hit("fit_gif:then-partial_fit")
            except Exception as e:
                cov.hit(f"fit_gif:partial_fit-raised:{exc_enum(e)}")
            cov.case(("fit-gif", fam.spec, desc["rows"], before), True)
    finally:
        shutil.rmtree(tmp, ignore_errors=True)


def preowned_channel_modules(ctx):
    """channel modules that carry state from OUTSIDE their host: a FusionART is a list of module objects the caller
    builds, and nothing says they are new — a module may have been trained on its own channel beforehand (a first look
    at that channel: it has W, weight_sample_counter_, sample_counter_, labels_) or be taken over from an older
    FusionART (which was fitted, so the module holds that host's categories and counters).  Any subset of the channels
    is pre-owned, very often NOT channel 0.  The new host's training history starts with its first `fit` / `fit_predict`
    (which starts a new model) or its first `partial_fit`; where the library accepts that call, the property reads as
    for every FusionART: one label per sample presented to the host since its last fit, labels index the host's
    categories, none empty, n_clusters = stored categories for the host and for every channel module, every module's
    per-category counters equal the label histogram and sum to the samples presented; fit_predict returns labels_.
    A call the library rejects (e.g. a first partial_fit on a host whose channel 0 is trained but which has no labels_
    yet) is recorded as such and ends the history."""
    from ..impl import make
    import artlib
    cov = ctx.cov
    for i in range(ctx.scale(90, 1500)):
        r = gen.rng_for(ctx.seed, "C05-preowned", i)
        for _ in range(8):
            fam, rows = families.build(r, "FusionART", r.randint(3, 14), floats=r.random() < 0.25)
            if len(fam.groups) >= 2:
                break
        else:
            continue
        n = len(rows)
        X = rows.arrs["X"]
        nch = len(fam.groups)
        dims = list(fam.spec["channel_dims"])
        bounds = np.concatenate([[0], np.cumsum(dims)]).tolist()
        # who is pre-owned and how: mostly channel 0 new and a later channel pre-owned
        origins = ["new"] * nch
        if r.random() < 0.7:
            ks = r.sample(range(1, nch), r.randint(1, nch - 1))
        else:
            ks = r.sample(range(nch), r.randint(1, nch))
        for k in ks:
            origins[k] = r.choice(["standalone-fit", "standalone-partial_fit", "older-fusion"])
        pre_rows = fam.fresh(r, r.randint(1, 12)) if fam.fresh is not None and r.random() < 0.6 else rows
        Xp = pre_rows.arrs["X"]
        first = r.choice(["fit", "fit", "fit_predict", "pfit", "pfit"])
        calls, j = [], 0
        for q, p in enumerate(gen.compositions(r, n)):
            op = first if q == 0 else ("fit" if r.random() < 0.2 else "pfit")
            calls.append((op, j, j + p))
            j += p
        desc = dict(fam.describe(), rows=rows.tolist(), channel_origins=origins, rows_seen_by_preowned_modules=pre_rows.tolist(),
                    calls=calls)
        key = ("preowned", fam.spec, desc["rows"], origins, desc["rows_seen_by_preowned_modules"], calls)
        scen = "[pre-owned-channel-module]"
        try:
            modules = [make(sp) for sp in fam.spec["modules"]]
            held = []
            with families.quiet():
                older = [k for k in range(nch) if origins[k] == "older-fusion"]
                if older:
                    # the older host: the modules taken over at their channel positions, modules of its own elsewhere
                    old_mods = [modules[k] if k in older else make(fam.spec["modules"][k]) for k in range(nch)]
                    old = artlib.FusionART(old_mods, gamma_values=list(fam.spec["gamma_values"])[::-1], channel_dims=dims)
                    old.fit(Xp, **fam.kw())
                for k in range(nch):
                    if origins[k] == "standalone-fit":
                        modules[k].fit(Xp[:, bounds[k]:bounds[k + 1]], **fam.kw())
                    elif origins[k] == "standalone-partial_fit":
                        m = len(Xp) // 2
                        modules[k].partial_fit(Xp[:m + 1, bounds[k]:bounds[k + 1]], **fam.kw())
                        if m + 1 < len(Xp):
                            modules[k].partial_fit(Xp[m + 1:, bounds[k]:bounds[k + 1]], **fam.kw())
                for k in range(nch):
                    if origins[k] != "new":
                        held.append(len(modules[k].W))
                est = artlib.FusionART(modules, gamma_values=list(fam.spec["gamma_values"]), channel_dims=dims)
        except Exception as e:
            cov.hit(f"preowned:setup-raised:{exc_enum(e)}")
            cov.case(key, False)
            continue
        desc["categories_held_by_preowned_modules"] = held
        since = 0
        done = True
        for q, (op, a, b) in enumerate(calls):
            try:
                with families.quiet():
                    if op == "fit":
                        est.fit(X[a:b], **fam.kw())
                        since = b - a
                    elif op == "fit_predict":
                        out = est.fit_predict(X[a:b], **fam.kw())
                        since = b - a
                        if not np.array_equal(np.asarray(out), np.asarray(est.labels_)):
                            ctx.issue("violation", f"FusionART{scen}:fit_predict!=labels_", f"fit_predict returned {np.asarray(out).tolist()}, "
                                      f"labels_ = {np.asarray(est.labels_).tolist()}", dict(desc, where=f"call {q}"))
                    else:
                        est.partial_fit(X[a:b], **fam.kw())
                        since += b - a
            except Exception as e:
                cov.hit(f"preowned:{'first' if q == 0 else 'later'}-{op}-raised:ch0={origins[0]}:{exc_enum(e)}")
                done = False
                break
            check_state(ctx, fam, est, since, desc, f"after call {q} ({op} rows {a}:{b}) of a FusionART host whose channel modules "
                        f"were {origins} when it was built (pre-owned ones held {held} categories)", scenario=scen)
            if q == 0:
                cov.hit(f"preowned:first-call={op}:ch0={'new' if origins[0] == 'new' else 'pre-owned'}")
                for o_ in set(origins) - {"new"}:
                    cov.hit(f"preowned:origin={o_}")
        if done and len(calls) > 1:
            cov.hit("preowned:history-continued")
        cov.case(key, done and any(h > 0 for h in held) and len(est.W) >= 2)


def plotting_calls(ctx):
    """a plotting call (visualize / plot_cluster_bounds with the estimator's own labels_, short and long colour lists; a
    fit_gif whose palette is smaller than the number of categories it creates) is part of a history like any other call:
    afterwards the labels still number one per sample presented, index the categories, and the counters equal their
    histogram — and a partial_fit can go on (shared generator harness/artv/plotpure.py)"""
    from .. import plotpure
    cov = ctx.cov
    for sc in plotpure.scenarios(ctx, "C05", quick=24, thorough=240):
        if sc.fam.name not in FAMS:
            continue
        where = f"after {sc.trained_by} then {sc.plot}" + (f" (drawing raised {sc.raised})" if sc.raised else "")
        desc = dict(sc.desc, trained_by=sc.trained_by, state_changed_by_plot=sc.changed[:12])
        try:
            if sc.raised is not None and sc.plot.startswith("fit_gif"):
                # fit_gif stopped in a frame: the samples presented so far are not a complete call; nothing to judge
                cov.hit("plot:fit_gif-stopped-in-a-frame")
                continue
            check_state(ctx, sc.fam, sc.est, sc.n_presented, desc, where, scenario=":plotting-call")
            k = 1 + (len(sc.rows) > 2)
            sc.fam.pfit(sc.est, sc.rows.sl(0, k))
            check_state(ctx, sc.fam, sc.est, sc.n_presented + k, dict(desc, then_partial_fit_rows=k), where + f" then partial_fit rows 0:{k}",
                        scenario=":plotting-call")
            cov.hit("plot:state-consistent-after-plotting")
        except Exception as e:
            cov.hit(f"plot:continuation-raised:{sc.fam.name}:{exc_enum(e)}")
        cov.case(("plot", sc.fam.spec, sc.desc["rows"], sc.plot, sc.trained_by), True)
