"""C17 — BARTMAP checkerboard.

Two streams of cases drive the *real* `BARTMAP.fit`:

* **real**: the estimator as shipped (Pearson-correlation reset function), on
  square and non-square block-structured matrices, all module pairs whose
  `prepare_data` accepts the matrix, eta in {-1, 0, .25, .5, .9};
* **patched**: the same `fit`, with the instance's `match_reset_func` replaced
  by a veto table (the model treats the correlation test as an oracle, so this
  is the same model instance); it reaches what the shipped reset function cannot
  (non-square matrices, column clusters of width 1, category-dependent vetoes).

Tie: `bartmap rc` (rows_/columns_/cell index from labels and cluster counts) and
`bartmap fit` (whole fit on table-driven kernels: recorded activations / match
values of both modules + recorded veto answers -> labels, counts, rows_, columns_).
Oracle (implementation alone): shapes, every cell in exactly one bicluster,
membership agrees with labels, column module == fresh copy fitted alone on
`prepare_data(X.T)`.  An exception on a matrix that `prepare_data`/`validate_data`
accepted is a violation ("after fit on any data matrix").
The fitted estimator is then *read* through its public read-only methods (get_shape / get_indices / get_submatrix,
visualize() on the Agg backend): labels, rows_, columns_ and the cluster counts must be what they were, the accessors must
return the label pre-images, and the membership oracle is run again (`after_reads`; every third case of the two main
streams, every case of the epochs / dual / topo-rows streams).
`layout_stream`: the caller's matrix in a memory layout other than C order (Fortran order, transposed / strided / reversed
views), BLAS-dot column modules, decimal-grid data with column pairs whose dot product is exactly the vigilance; the column
module alone is handed X.T of the very same array (oracle only).
`param_grid_stream`: the module pair installed the way sklearn's parameter grids do it — ONE `set_params` call that both
replaces a module and sets nested hyper-parameters of it (`module_b=FuzzyART(...), module_b__rho=0.7`; module_a, both,
plus plain eta / nested-only keys for the module that stays, keyword order shuffled), then fit: columns == the configured
module (nested values applied) alone on X.T, rows == the configured row module alone on X under a never-vetoing reset
function, shapes follow, partition, membership (oracle only).
`plot_calls_stream`: plotting calls between fit and the next use of the fitted estimator — on the host, on a row / column
module (elementary, TopoART with candidate nodes that still have members at the end of fit, DualVigilanceART) or on its base
module; returning or ending in an exception the caller catches (warnings as errors, colour list too short / empty / a dict
without the last cluster, axes failing midway, no axes) — then every clause of the statement that held right after fit,
again, with no training in between (oracle only).
"""
from __future__ import annotations

import traceback

import numpy as np

from .. import gen, specs
from ..common import f2hex, run_driver, parse_kv, vec_f, nats, parse_nats
from ..impl import make, Recorder, step_table, quiet, exc_enum, BARTMAP

RULE = ("cases = (stream real|patched, module_a spec, module_b spec, eta, data matrix[, veto table]); a case is "
        "non-trivial when fit returned with >= 2 row clusters or >= 2 column clusters, or raised; distinct by hash of "
        "(stream, specs, eta, matrix, veto table)")

ETAS = [-1.0, 0.0, 0.25, 0.5, 0.9]
CLASSES = ["FuzzyART", "HypersphereART", "ART2A", "EllipsoidART", "GaussianART", "BayesianART",
           "QuadraticNeuronART"]

SIG_NONSQUARE = "BARTMAP._average_pearson_corr:index:n_rows!=n_cols"
SIG_WIDTH1 = "BARTMAP._pearsonr:value:column-cluster-width-1"


# ------------------------------------------------------------------ data

def _groups(r, n, k, min_size):
    """assignment of n items to k groups, every group of size >= min_size, shuffled"""
    g = [t for t in range(k) for _ in range(min_size)]
    g += [r.randrange(k) for _ in range(n - len(g))]
    r.shuffle(g)
    return g


def block_matrix(r, nr, nc, kind, wide):
    """nr x nc matrix with correlated row blocks and column blocks.
    X[i][j] = level(rowgroup, colgroup) + slope(rowgroup) * offset(j) + noise;
    rows of one group correlate positively inside a column group, rows of groups
    with opposite slope negatively.  `wide`: every column group has >= 2 columns.
    No constant row or column (prepare_data would divide 0/0)."""
    for attempt in range(30):
        kc = r.randint(1, max(1, nc // 2)) if wide else r.randint(1, nc)
        kc = min(kc, 4)
        kr = r.randint(1, min(3, nr))
        cg = _groups(r, nc, kc, 2 if wide else 1)
        rg = _groups(r, nr, kr, 1)
        if wide:   # well separated block levels, small within-block slopes
            P = [r.sample([1, 4, 7, 10, 13], kc) for _ in range(kr)]
            a = [r.choice([1, -1, 1, -1, 0]) for _ in range(kr)]
            s = [r.randint(-1, 1) for _ in range(nc)]
        else:
            P = [[r.randint(2, 12) for _ in range(kc)] for _ in range(kr)]
            a = [r.choice([1, -1, 1, 2, -2, 0]) for _ in range(kr)]
            s = [r.randint(-2, 2) for _ in range(nc)]
        X = np.zeros((nr, nc))
        for i in range(nr):
            for j in range(nc):
                v = P[rg[i]][cg[j]] + a[rg[i]] * s[j]
                if kind == "float":
                    v += r.uniform(-0.6, 0.6) if not wide else r.uniform(-0.3, 0.3)
                elif kind == "grid":
                    v += r.choice([0, 0, 0, 1, -1])
                else:  # binary
                    v = 1.0 if v + r.choice([0, 0, 1, -1, 3, -3]) > 7 else 0.0
                X[i, j] = v
        if kind != "binary":
            X = X / 16.0
        if np.all(X.max(axis=0) > X.min(axis=0)) and np.all(X.max(axis=1) > X.min(axis=1)):
            return X, {"rg": rg, "cg": cg}
    X = np.array([[r.random() for _ in range(nc)] for _ in range(nr)])
    if kind == "binary":
        X = (X > 0.5).astype(float)
        for t in range(max(nr, nc)):   # a 0/1 diagonal makes every line non-constant
            X[t % nr, t % nc] = 1.0
            X[(t + 1) % nr, t % nc] = 0.0
    return X, {"rg": None, "cg": None}


def module_specs(r, nr, nc, kind, wide):
    if kind == "binary" and r.random() < 0.6:
        ca, cb = r.choice([("ART1", "ART1"), ("ART1", "FuzzyART"), ("FuzzyART", "ART1")])
    else:
        ca, cb = r.choice(CLASSES), r.choice(CLASSES)
        if r.random() < 0.3:
            cb = ca
    sa, sb = specs.elem_spec(r, ca, nc), specs.elem_spec(r, cb, nr)
    # moderate column vigilance on block data keeps the designed column groups together
    # (column clusters of width >= 2: the only inputs on which the shipped reset function can run)
    if wide and cb != "BayesianART" and r.random() < 0.6:
        sb["rho"] = r.choice([0.25, 0.5])
    return sa, sb


# ------------------------------------------------------------------ helpers

def bits(M):
    M = np.asarray(M)
    return "|".join("".join("1" if v else "0" for v in row) for row in M) if len(M) else "-"


def cells_of(rows, cols):
    """i-major: index of the unique bicluster containing (i,j), or '!n'"""
    rows, cols = np.asarray(rows, dtype=bool), np.asarray(cols, dtype=bool)
    nr, nc = rows.shape[1], cols.shape[1]
    out = []
    for i in range(nr):
        line = []
        for j in range(nc):
            ks = np.flatnonzero(rows[:, i] & cols[:, j])
            line.append(str(int(ks[0])) if len(ks) == 1 else f"!{len(ks)}")
        out.append(",".join(line) if line else "-")
    return "|".join(out) if out else "-"


def steps_field(rec, has_reset):
    parts = []
    for st in rec.steps:
        T, M = step_table(st, "MT+", has_reset)
        ms = ",".join("?" if mv is None else ":".join(f2hex(v) for v in mv) for mv in M) or "-"
        parts.append(vec_f(T) + "/" + ms)
    xs = ",".join(f"{i}:{st.ncat}" for i, st in enumerate(rec.steps)) or "-"
    return ";".join(parts) or "-", xs


def classify(e, X, bm):
    tb = traceback.extract_tb(e.__traceback__)
    fns = [f.name for f in tb if f.filename.endswith("BARTMAP.py")]
    nr, nc = X.shape
    if (isinstance(e, IndexError) and fns and fns[-1] == "_average_pearson_corr" and nr != nc
            and "boolean index did not match" in str(e)):
        return SIG_NONSQUARE
    if isinstance(e, ValueError) and fns and fns[-1] == "_pearsonr" and "length at least 2" in str(e):
        try:
            widths = np.bincount(np.asarray(bm.column_labels_, dtype=int))
        except Exception:
            widths = np.array([])
        if nr == nc and (widths == 1).any():
            return SIG_WIDTH1
    return f"BARTMAP.fit:{exc_enum(e)}:{fns[-1] if fns else '?'}"


# ------------------------------------------------------------------ read-only public methods on a fitted estimator

def _fitted_state(bm):
    """copies of what the property speaks about, as the estimator reports it now"""
    return {"row_labels_": np.array(bm.row_labels_, copy=True), "column_labels_": np.array(bm.column_labels_, copy=True),
            "rows_": np.array(bm.rows_, copy=True), "columns_": np.array(bm.columns_, copy=True),
            "n_row_clusters": int(bm.n_row_clusters), "n_column_clusters": int(bm.n_column_clusters)}


def _membership_holds(st, nr, nc):
    """the property's own clauses (shapes, one bicluster per cell, bicluster k=(a,b) == label pre-images) on a state"""
    na, nb = st["n_row_clusters"], st["n_column_clusters"]
    rl, cl, rows_, cols_ = st["row_labels_"], st["column_labels_"], st["rows_"], st["columns_"]
    if rows_.shape != (na * nb, nr) or cols_.shape != (na * nb, nc) or rl.shape != (nr,) or cl.shape != (nc,):
        return False
    if not np.all(rows_.astype(int).T @ cols_.astype(int) == 1):
        return False
    return all(np.array_equal(rows_[a * nb + b], rl == a) and np.array_equal(cols_[a * nb + b], cl == b)
               for a in range(na) for b in range(nb))


def after_reads(ctx, r, bm, X, rep, where):
    """"After BARTMAP.fit ... membership agrees with row_labels_ and column_labels_" is a statement about the fitted
    estimator, so it has to survive the public methods that only *read* it: sklearn's BiclusterMixin accessors
    (get_shape / get_indices / get_submatrix) and the plotting helper visualize() (Agg backend, nothing is shown).
    After each call the reported labels / rows_ / columns_ / cluster counts (and the caller's matrix) must be what
    they were, the accessors must return the label pre-images, and the membership oracle is run again at the end."""
    cov = ctx.cov
    nr, nc = X.shape
    before = _fitted_state(bm)
    pre_ok = _membership_holds(before, nr, nc)
    n_bic = before["rows_"].shape[0] if before["rows_"].ndim == 2 else 0
    if not pre_ok:
        # the caller's own oracle judges that state (e.g. rows a pruning row module labelled -1); the reads must still
        # leave it alone, only the comparisons with the label pre-images are dropped
        cov.hit(f"reads:{where}:membership-already-broken-before-the-reads")
        if n_bic == 0 or before["columns_"].shape[:1] != (n_bic,):
            return
    X0 = X.copy()
    na, nb = before["n_row_clusters"], before["n_column_clusters"]
    rl, cl = before["row_labels_"], before["column_labels_"]
    interleaved = bool(np.any(np.diff(rl) < 0) or np.any(np.diff(cl) < 0))
    rep = {**rep, "where": where, "row_labels": rl.tolist(), "column_labels": cl.tolist(), "na": na, "nb": nb}

    def unchanged(method, call):
        now = _fitted_state(bm)
        for name, old in before.items():
            new = now[name]
            same = (old == new) if isinstance(old, int) else \
                (old.shape == new.shape and old.dtype == new.dtype and np.array_equal(old, new))
            if not same:
                ctx.issue("violation", f"BARTMAP.{method}:mutates:{name}",
                          f"{where}: {name} of the fitted estimator changed during the read-only call {call}: "
                          f"{old.tolist() if hasattr(old, 'tolist') else old} -> "
                          f"{new.tolist() if hasattr(new, 'tolist') else new}"[:600],
                          {**rep, "call": call})
                return False
        if not np.array_equal(X0, X):
            ctx.issue("violation", f"BARTMAP.{method}:mutates:X", f"{where}: the caller's matrix changed during {call}",
                      {**rep, "call": call, "X_before": X0})
            return False
        return True

    ks = sorted({0, n_bic - 1, r.randrange(n_bic), r.randrange(n_bic)})
    ok = True
    for k in ks:
        a, b = divmod(k, max(nb, 1))
        want_r, want_c = np.flatnonzero(rl == a), np.flatnonzero(cl == b)
        for method, fn, want, eq in (
                ("get_shape", lambda: bm.get_shape(k), (len(want_r), len(want_c)), lambda g, w: tuple(g) == w),
                ("get_indices", lambda: bm.get_indices(k), (want_r, want_c),
                 lambda g, w: len(g) == 2 and np.array_equal(g[0], w[0]) and np.array_equal(g[1], w[1])),
                ("get_submatrix", lambda: bm.get_submatrix(k, X), X0[np.ix_(want_r, want_c)],
                 lambda g, w: np.asarray(g).shape == w.shape and np.array_equal(np.asarray(g), w))):
            call = f"{method}({k}" + (", X)" if method == "get_submatrix" else ")")
            try:
                with quiet():
                    got = fn()
            except Exception as e:
                ctx.issue("violation", f"BARTMAP.{method}:{exc_enum(e)}", f"{where}: {call} raised {e!r} on a fitted estimator",
                          {**rep, "call": call})
                ok = False
                continue
            cov.hit(f"reads:{method}")
            if pre_ok and not eq(got, want):
                ctx.issue("violation", f"BARTMAP.{method}:membership",
                          f"{where}: {call} of bicluster ({a},{b}) is not the pre-image of (row_labels_=={a}, "
                          f"column_labels_=={b})", {**rep, "call": call})
                ok = False
            ok = unchanged(method, call) and ok
    # the plotting helper, on the non-interactive backend; figures it opened are closed again
    import matplotlib
    if matplotlib.get_backend().lower() != "agg":
        matplotlib.use("Agg", force=True)
    import matplotlib.pyplot as plt
    figs = set(plt.get_fignums())
    cmap = r.choice([None, None, "viridis"])
    call = "visualize()" if cmap is None else f"visualize(cmap={cmap!r})"
    try:
        with quiet():
            bm.visualize() if cmap is None else bm.visualize(cmap=cmap)
        cov.hit("reads:visualize")
        if interleaved:
            cov.hit("reads:visualize:labels-not-ascending")
        ok = unchanged("visualize", call) and ok
    except Exception as e:
        ctx.issue("violation", f"BARTMAP.visualize:{exc_enum(e)}", f"{where}: {call} raised {e!r} on a fitted estimator",
                  {**rep, "call": call})
        ok = False
    finally:
        for f in set(plt.get_fignums()) - figs:
            plt.close(f)
    # the membership oracle again, on what the estimator reports now
    if pre_ok and not _membership_holds(_fitted_state(bm), nr, nc):
        ctx.issue("violation", "BARTMAP.fit+reads:membership",
                  f"{where}: after get_shape/get_indices/get_submatrix/{call} the biclusters rows_/columns_ no longer equal "
                  f"the pre-images of row_labels_ {np.asarray(bm.row_labels_).tolist()} / column_labels_ "
                  f"{np.asarray(bm.column_labels_).tolist()} (they did right after fit: {rl.tolist()} / {cl.tolist()})"[:700],
                  {**rep, "call": call})
        ok = False
    cov.hit(f"reads:{where}:" + ("state-kept" if ok else "state-changed"))
    if interleaved and na >= 2 and nb >= 2:
        cov.hit("reads:interleaved-row-and-column-clusters>=2")


# ------------------------------------------------------------------ one case

def run_case(ctx, idx, r, stream, lines, expect, stats):
    cov = ctx.cov
    square = r.random() < (0.75 if stream == "real" else 0.4)
    nr = r.randint(2, 10)
    nc = nr if square else r.choice([c for c in range(2, 11) if c != nr])
    kind = r.choice(["grid", "grid", "float", "float", "binary"])
    wide = r.random() < 0.7
    X, meta = block_matrix(r, nr, nc, kind, wide)
    sa, sb = module_specs(r, nr, nc, kind, wide)
    eta = ETAS[idx % len(ETAS)]
    vt = gen.veto_table(r, nr, nr + 1) if stream == "patched" else None
    key = (stream, sa, sb, eta, X.tolist(), vt)
    rep = {"stream": stream, "module_a": sa, "module_b": sb, "eta": eta, "X": X, "veto": vt}
    tag = f"{sa['cls']}/{sb['cls']}"
    preset = False
    try:
        with quiet():
            mb, alone = make(sb), make(sb)
            preset = r.random() < 0.3 and sb["cls"] != "ART1"      # ART1 needs 0/1 data: no room for wider bounds
            if preset:
                # the column module already carries normalisation bounds (a user who fixed the feature range, or an
                # earlier use): BARTMAP must cluster the columns exactly as THIS module would on its own
                lo, hi = X.T.min(axis=0) - 0.5, X.T.max(axis=0) + 0.25
                for m_ in (mb, alone):
                    m_.prepare_data(np.vstack([lo, hi]))
            bm = BARTMAP(make(sa), mb, eta)
    except Exception as e:
        ctx.issue("violation", f"BARTMAP.__init__:{exc_enum(e)}", f"constructor raised {e!r}", rep)
        return
    # would the modules accept the matrix at all?  (data preparation is C18's subject)
    try:
        with quiet():
            pa, pb = make(sa), make(sb)
            pa.validate_data(pa.prepare_data(X))
            pb.validate_data(pb.prepare_data(X.T))
    except Exception as e:
        cov.hit(f"prepare-rejects:{exc_enum(e)}")
        cov.case(key, False)
        return
    recA, recB = Recorder(bm.module_a), Recorder(bm.module_b)
    corr_log = []
    orig_corr = bm._average_pearson_corr

    def corr(Xm, k, c_b):
        v = orig_corr(Xm, k, c_b)
        corr_log.append((int(k), int(c_b), v))
        return v
    object.__setattr__(bm, "_average_pearson_corr", corr)
    if stream == "real":
        orig_reset = bm.match_reset_func

        def reset(i, w, cluster_a, params, extra, cache=None):
            ans = orig_reset(i, w, cluster_a, params=params, extra=extra, cache=cache)
            if recA.cur is not None:
                recA.cur.resets.append((int(cluster_a), bool(ans), float(params["rho"])))
            return ans
    else:
        def reset(i, w, cluster_a, params, extra, cache=None):
            ans = not vt[extra["k"]][cluster_a]
            if recA.cur is not None:
                recA.cur.resets.append((int(cluster_a), bool(ans), float(params["rho"])))
            return ans
    object.__setattr__(bm, "match_reset_func", reset)

    stats[stream + ":total"] += 1
    cov.hit(f"stream:{stream}")
    cov.hit("shape:square" if nr == nc else "shape:non-square")
    cov.hit(f"data:{kind}")
    cov.hit(f"eta:{eta}")
    cov.hit(f"pair:{tag}")
    try:
        with quiet():
            ret = bm.fit(X)
    except Exception as e:
        sig = classify(e, X, bm)
        try:
            widths = np.bincount(np.asarray(bm.column_labels_, dtype=int)).tolist()
        except Exception:
            widths = None
        ctx.issue("violation", sig,
                  f"BARTMAP({tag}, eta={eta}).fit raised {type(e).__name__}: {str(e)[:120]} on a finite "
                  f"{nr}x{nc} matrix accepted by prepare_data/validate_data (column-cluster widths {widths})",
                  {**rep, "column_cluster_widths": widths})
        cov.hit(f"raised:{sig}")
        stats[stream + ":raised"] += 1
        cov.case(key, True)
        return
    stats[stream + ":completed"] += 1
    if nr == nc:
        stats[stream + ":completed-square"] += 1
    cov.hit("fit-returned")

    # ------------------------------------------------ oracle on the implementation alone
    rl = [int(t) for t in bm.row_labels_]
    cl = [int(t) for t in bm.column_labels_]
    na, nb = int(bm.n_row_clusters), int(bm.n_column_clusters)
    rows_, cols_ = np.asarray(bm.rows_), np.asarray(bm.columns_)
    rep2 = {**rep, "row_labels": rl, "column_labels": cl, "na": na, "nb": nb}
    if ret is not bm:
        ctx.issue("violation", "BARTMAP.fit:return", "fit did not return the estimator", rep2)
    if rows_.shape != (na * nb, nr) or cols_.shape != (na * nb, nc) or rows_.dtype != bool or cols_.dtype != bool:
        ctx.issue("violation", "BARTMAP.fit:shapes",
                  f"rows_ {rows_.shape}/{rows_.dtype}, columns_ {cols_.shape}/{cols_.dtype}; expected "
                  f"({na}*{nb}, {nr}) and ({na}*{nb}, {nc}) bool", rep2)
    else:
        cover = rows_.astype(int).T @ cols_.astype(int)      # (nr, nc): number of biclusters per cell
        if not np.all(cover == 1):
            i, j = [int(t) for t in np.argwhere(cover != 1)[0]]
            ctx.issue("violation", "BARTMAP.fit:partition",
                      f"cell ({i},{j}) lies in {int(cover[i, j])} biclusters", rep2)
        if len(rl) != nr or len(cl) != nc or (rl and max(rl) >= na) or (cl and max(cl) >= nb):
            ctx.issue("violation", "BARTMAP.fit:label-range",
                      f"labels out of range or wrong length: rows {rl} (na={na}), cols {cl} (nb={nb})", rep2)
        else:
            ok = True
            for a in range(na):
                for b in range(nb):
                    k = a * nb + b
                    if not (np.array_equal(rows_[k], np.array(rl) == a) and np.array_equal(cols_[k], np.array(cl) == b)):
                        ok = False
                        ctx.issue("violation", "BARTMAP.fit:membership",
                                  f"bicluster {k}=({a},{b}) does not equal (row_labels_=={a}, column_labels_=={b})", rep2)
                        break
                if not ok:
                    break
            # sklearn's BiclusterMixin view must say the same
            try:
                ri, ci = bm.get_indices(na * nb - 1)
                if list(ri) != [i for i, t in enumerate(rl) if t == na - 1] or \
                        list(ci) != [j for j, t in enumerate(cl) if t == nb - 1]:
                    ctx.issue("violation", "BARTMAP.get_indices:membership",
                              "get_indices(last) differs from the label pre-images", rep2)
            except Exception as e:
                ctx.issue("violation", f"BARTMAP.get_indices:{exc_enum(e)}", f"get_indices raised {e!r}", rep2)
    # column module alone
    try:
        with quiet():
            alone.fit(alone.prepare_data(X.T))
        same = (list(map(int, alone.labels_)) == cl and len(alone.W) == nb and
                all(np.array_equal(np.asarray(u, dtype=float), np.asarray(v, dtype=float), equal_nan=True)
                    for u, v in zip(alone.W, bm.module_b.W)) and
                [int(t) for t in alone.weight_sample_counter_] == [int(t) for t in bm.module_b.weight_sample_counter_])
        if not same:
            ctx.issue("violation", "BARTMAP.fit:columns-alone",
                      f"column labels {cl} differ from the column module fitted alone {list(map(int, alone.labels_))} "
                      f"(or weights/counters differ)", rep2)
    except Exception as e:
        ctx.issue("violation", f"BARTMAP.fit:columns-alone:{exc_enum(e)}",
                  f"column module alone raised {e!r} although BARTMAP.fit returned", rep2)

    if preset:
        cov.hit("column-module-with-preset-bounds")
    # ------------------------------------------------ coverage of what the case exercised
    if na >= 2:
        cov.hit(f"{stream}:row-clusters>=2")
    if nb >= 2:
        cov.hit(f"{stream}:column-clusters>=2")
    if na >= 2 and nb >= 2:
        cov.hit(f"{stream}:row-and-column-clusters>=2")
    widths = np.bincount(cl, minlength=nb)
    if (widths == 1).any():
        cov.hit(f"{stream}:column-cluster-width-1:completed")
    elif nr == nc and stream == "real":
        stats["real:completed-square-wide"] += 1
    vetoed = [st for st in recA.steps if any(not a for (_, a, _) in st.resets)]
    if vetoed:
        cov.hit(f"{stream}:veto-met")
    if any(v != v for (_, _, v) in corr_log):
        cov.hit("nan-correlation")
        stats["nan-corr-cases"] += 1
        if eta == -1.0 and vetoed:
            # r >= -1 always holds for a number, so at eta = -1 only NaN (constant segment) can veto
            cov.hit("nan-correlation-vetoes-at-eta=-1")
    if any(st.ret == st.ncat and st.ncat > 0 and any(mb and not a for (_, mb, _), (_, a, _) in zip(st.Mseq, st.resets))
           for st in recA.steps):
        cov.hit("veto-forced-new-row-cluster")
    if stream == "real" and any(len({a for (_, a, _) in st.resets}) > 1 for st in recA.steps):
        cov.hit("veto-depends-on-category")   # never expected: cluster_a is unused by the shipped test
    cov.case(key, na >= 2 or nb >= 2)

    # ------------------------------------------------ model tie
    try:
        invA = "1" if specs.is_inverted(sa["cls"]) else "0"
        invB = "1" if specs.is_inverted(sb["cls"]) else "0"
        stepsA, xsA = steps_field(recA, True)
        stepsB, xsB = steps_field(recB, False)
        vrows = []
        for st in recA.steps:
            row = ["0"] * st.ncat
            for (c, ans, _) in st.resets:
                if not ans:
                    row[c] = "1"
            vrows.append("".join(row))
        vts = "|".join(vrows)
        if set(vts) <= {"|"}:
            vts = "-"
        fit_line = " ".join(["bartmap", "fit", "MT+", invA, f2hex(sa["rho"]), f2hex(0.0), stepsA, xsA, vts,
                             "MT+", invB, f2hex(sb["rho"]), f2hex(0.0), stepsB, xsB])
        rc_line = f"bartmap rc {na} {nb} {nats(rl)} {nats(cl)}"
    except Exception as e:   # recording incomplete — a machinery problem, surfaced as a diff
        ctx.issue("diff", "bartmap:record", f"could not build protocol lines: {e!r}", rep2)
        return
    want_rc = f"rows={bits(rows_)} cols={bits(cols_)} cells={cells_of(rows_, cols_)}"
    lines.append(rc_line)
    expect.append(("rc", want_rc, rep2))
    lines.append(fit_line)
    expect.append(("fit", f"la={nats(rl)} na={na} lb={nats(cl)} nb={nb} " + want_rc, rep2))
    cov.traces += 1
    if len(cov.samples) < 3:
        cov.sample({"stream": stream, "pair": tag, "eta": eta, "shape": [nr, nc], "row_labels": rl,
                    "column_labels": cl, "rows_": bits(rows_), "columns_": bits(cols_)})
    if idx % 3 == 0:
        after_reads(ctx, gen.rng_for(ctx.seed, "C17-reads/" + stream, idx), bm, X, rep, stream)


def synthetic_rc(ctx, r, lines, expect):
    """`rc` on label vectors that no fit produced (non-square, empty clusters,
    out-of-range labels): the numpy comprehension of BARTMAP.fit is replayed
    literally; pins the error marker and the a-major order of the model."""
    na, nb = r.randint(1, 4), r.randint(1, 4)
    nr, nc = r.randint(1, 9), r.randint(1, 9)
    bad = r.random() < 0.3
    rl = np.array([r.randrange(na + (1 if bad else 0)) for _ in range(nr)])
    cl = np.array([r.randrange(nb + (1 if bad else 0)) for _ in range(nc)])
    rows_ = np.vstack([rl == label for label in range(na) for _ in range(nb)])
    cols_ = np.vstack([cl == label for _ in range(na) for label in range(nb)])
    lines.append(f"bartmap rc {na} {nb} {nats(rl)} {nats(cl)}")
    expect.append(("rc-synthetic", f"rows={bits(rows_)} cols={bits(cols_)} cells={cells_of(rows_, cols_)}",
                   {"na": na, "nb": nb, "row_labels": rl, "column_labels": cl}))
    ctx.cov.hit("rc-synthetic" + (":out-of-range-label" if bad and (rl.max() >= na or cl.max() >= nb) else ""))


def multi_epoch(ctx):
    """several epochs (max_iter >= 2) with a correlation threshold high enough that rows change cluster between
    epochs: shapes, partition and membership must still hold (oracle only; the model covers one pass)"""
    from artlib import BARTMAP, FuzzyART
    cov = ctx.cov
    for i in range(ctx.scale(10, 120)):
        r = gen.rng_for(ctx.seed, "C17/epochs", i)
        n = r.choice([16, 24, 32])
        X = np.array([[r.random() for _ in range(n)] for _ in range(n)])
        eta = r.choice([0.1, 0.2, 0.3])
        k = r.choice([2, 3])
        rep = {"n": n, "eta": eta, "max_iter": k, "X": X.tolist()}
        bm = BARTMAP(FuzzyART(0.5, 0.01, 1.0), FuzzyART(0.3, 0.01, 1.0), eta)
        try:
            with quiet():
                bm.fit(X, max_iter=k)
        except Exception as e:
            cov.hit("epochs:raised:" + classify(e, X, bm))
            continue
        rl, cl = np.asarray(bm.row_labels_), np.asarray(bm.column_labels_)
        na, nb = int(bm.n_row_clusters), int(bm.n_column_clusters)
        rows_, cols_ = np.asarray(bm.rows_), np.asarray(bm.columns_)
        if rows_.shape != (na * nb, n) or cols_.shape != (na * nb, n):
            ctx.issue("violation", "BARTMAP.fit:shapes", f"max_iter={k}: rows_ {rows_.shape} columns_ {cols_.shape}, na*nb={na * nb}", rep)
            continue
        cover = rows_.astype(int).T @ cols_.astype(int)
        if not np.all(cover == 1):
            a, b = [int(t) for t in np.argwhere(cover != 1)[0]]
            ctx.issue("violation", "BARTMAP.fit:partition", f"max_iter={k}: cell ({a},{b}) lies in {int(cover[a, b])} biclusters", rep)
        elif any(not (np.array_equal(rows_[a * nb + b], rl == a) and np.array_equal(cols_[a * nb + b], cl == b))
                 for a in range(na) for b in range(nb)):
            ctx.issue("violation", "BARTMAP.fit:membership", f"max_iter={k}: a bicluster differs from the label pre-images", rep)
        after_reads(ctx, gen.rng_for(ctx.seed, "C17-reads/epochs", i), bm, X, rep, "epochs")
        cov.hit("epochs:fit-returned")
        cov.case(("epochs", n, eta, k, i), True)


def dual_modules(ctx):
    """row or column module = DualVigilanceART (several base categories merged into one cluster, so
    `n_clusters` differs from `len(W)`): shapes, partition and membership (oracle only)"""
    from artlib import BARTMAP, FuzzyART, DualVigilanceART
    cov = ctx.cov
    for i in range(ctx.scale(40, 400)):
        r = gen.rng_for(ctx.seed, "C17/dual", i)
        nr, nc = r.choice([(24, 24), (18, 24), (24, 15), (12, 12), (16, 16), (12, 12)])
        ga, gb = r.randint(2, 4), r.randint(2, 3)
        cen = [[r.random() for _ in range(gb)] for _ in range(ga)]
        X = np.array([[cen[a % ga][b % gb] + 0.08 * r.random() for b in range(nc)] for a in range(nr)])
        eta = r.choice([-1.0, -0.5, 0.0, 0.2])
        side = r.choice(["a", "b", "ab"])
        rho, lb = r.choice([(0.9, 0.5), (0.85, 0.6), (0.95, 0.7)])

        def mod(dual):
            f = FuzzyART(rho if dual else r.choice([0.5, 0.7]), 0.01, 1.0)
            return DualVigilanceART(f, lb) if dual else f
        rep = {"shape": [nr, nc], "eta": eta, "dual_side": side, "rho": rho, "rho_lower_bound": lb, "X": X.tolist()}
        bm = BARTMAP(mod("a" in side), mod("b" in side), eta)
        refit = i % 2 == 1
        try:
            with quiet():
                if refit:
                    # the same estimator fitted before: fit starts from scratch
                    # (the same matrix: both modules remember their column bounds from the first call, and any other matrix
                    # would have to match them row- and column-wise to be accepted)
                    X0 = X.copy()
                    bm.fit(X0)
                    rep["earlier_fit_on"] = X0.tolist()
                    cov.hit("dual:refit")
                bm.fit(X)
        except Exception as e:
            cov.hit("dual:raised:" + classify(e, X, bm))
            continue
        rl, cl = np.asarray(bm.row_labels_), np.asarray(bm.column_labels_)
        na, nb = len(set(rl.tolist())), len(set(cl.tolist()))
        rows_, cols_ = np.asarray(bm.rows_), np.asarray(bm.columns_)
        merged = any(len(m.base_module.W) > m.n_clusters for m in (bm.module_a, bm.module_b) if hasattr(m, "base_module"))
        if sorted(set(rl.tolist())) != list(range(na)) or sorted(set(cl.tolist())) != list(range(nb)):
            cov.hit("dual:labels-not-contiguous")
            if (rl.size and rl.max() >= int(bm.n_row_clusters)) or (cl.size and cl.max() >= int(bm.n_column_clusters)):
                ctx.issue("violation", "BARTMAP.fit:dual:label-range",
                          f"row labels {sorted(set(rl.tolist()))} with n_row_clusters={bm.n_row_clusters}, column labels "
                          f"{sorted(set(cl.tolist()))} with n_column_clusters={bm.n_column_clusters}: rows / columns with such a label belong to no bicluster"
                          + (" (second fit on the same estimator)" if refit else ""), rep)
            continue
        if (int(bm.n_row_clusters), int(bm.n_column_clusters)) != (na, nb):
            ctx.issue("violation", "BARTMAP.fit:dual:n_clusters", f"n_row/column_clusters {bm.n_row_clusters}/{bm.n_column_clusters}, labels say {na}/{nb}", rep)
        elif rows_.shape != (na * nb, nr) or cols_.shape != (na * nb, nc):
            ctx.issue("violation", "BARTMAP.fit:dual:shapes", f"rows_ {rows_.shape} columns_ {cols_.shape}; {na} row x {nb} column clusters on a {nr}x{nc} matrix", rep)
        else:
            cover = rows_.astype(int).T @ cols_.astype(int)
            if not np.all(cover == 1):
                a, b = [int(t) for t in np.argwhere(cover != 1)[0]]
                ctx.issue("violation", "BARTMAP.fit:dual:partition", f"cell ({a},{b}) lies in {int(cover[a, b])} biclusters", rep)
            elif any(not (np.array_equal(rows_[a * nb + b], rl == a) and np.array_equal(cols_[a * nb + b], cl == b))
                     for a in range(na) for b in range(nb)):
                ctx.issue("violation", "BARTMAP.fit:dual:membership", "a bicluster differs from the label pre-images", rep)
        after_reads(ctx, gen.rng_for(ctx.seed, "C17-reads/dual", i), bm, X, rep, "dual")
        cov.hit("dual:fit-returned" + (":merged-categories" if merged else ""))
        cov.case(("dual", nr, nc, eta, side, i), merged)


# ------------------------------------------------------------------ memory layout of the caller's matrix

LAYOUTS = ["fortran", "transposed-view", "row-strided-view", "column-strided-view", "reversed-view", "c-contiguous"]


def with_layout(D, layout):
    """the same numbers, held in memory another way (what a caller gets from np.asfortranarray, from D.T of a table kept
    features x samples, from slicing a bigger table, from flipping it)"""
    D = np.ascontiguousarray(D, dtype=float)
    nr, nc = D.shape
    if layout == "fortran":
        X = np.asfortranarray(D)
    elif layout == "transposed-view":
        X = np.ascontiguousarray(D.T).T
    elif layout == "row-strided-view":
        big = np.full((2 * nr, nc), 0.5, order="F")
        big[::2] = D
        X = big[::2]
    elif layout == "column-strided-view":
        big = np.full((nr, 2 * nc), 0.5)
        big[:, ::2] = D
        X = big[:, ::2]
    elif layout == "reversed-view":
        X = np.asfortranarray(D[::-1, ::-1])[::-1, ::-1]
    else:
        X = D
    assert np.array_equal(X, D)
    return X


def decimal_matrix(r, nr, nc, binary, planted=False):
    """nr x nc matrix of tenths (0/1 when `binary`); every row holds a 0 and a 1 (so the column module's min-max
    normalisation of X.T is the identity and the column vectors stay on the decimal grid), no column is constant.
    `planted`: a base column b and several dense columns a with a.b = R hundredths *exactly* (integer arithmetic), R <= 100,
    in shuffled positions; the other columns are sparse and carry the 0s and 1s the rows need.
    Returns (integer matrix in tenths, R or None) — the caller divides by 10."""
    def sparse():
        if binary:
            return [r.choice([0, 0, 10]) for _ in range(nr)]
        return [0 if r.random() < 0.5 else r.randint(1, 10) for _ in range(nr)]
    for _ in range(50):
        cols, R = [], None
        if planted and not binary and nc >= 5:
            hi = r.choice([3, 5, 6])
            g = np.random.default_rng(r.getrandbits(48))
            dense = lambda m: g.integers(1, hi + 1, size=(m, nr)) * (g.random((m, nr)) >= 0.1)
            b = dense(1)[0]
            R = r.choice([30, 40, 50, 60, 70, 80, 90, 100, r.randint(10, 100)])
            cand = dense(1500)
            cand = cand[cand @ b == R]
            cols = [b.tolist()] + cand[:r.randint(2, nc - 3)].tolist()
            if len(cols) < 3:
                continue
        free = [sparse() for _ in range(nc - len(cols))]
        for i in range(nr):
            row = [c[i] for c in cols + free]
            j0, j1 = r.sample(range(len(free)), 2)
            if 0 not in row:
                free[j0][i] = 0
            if 10 not in row:
                free[j1][i] = 10
        allc = cols + free
        r.shuffle(allc)
        Z = np.array(allc, dtype=int).T
        if np.all(Z.max(axis=0) > Z.min(axis=0)) and np.all(Z.min(axis=1) == 0) and np.all(Z.max(axis=1) == 10):
            return Z, R
    return None, None


def layout_stream(ctx):
    """"After BARTMAP.fit on any data matrix ... the column clustering equals what the column module alone produces on the
    transposed matrix": a data matrix is the numbers in it, however the caller's array holds them in memory.  Matrices
    that are not C-contiguous (Fortran order, a transposed view D.T, strided / reversed views) with a column module whose
    activation is a BLAS dot / matmul of the sample vector (ART2A, ART1, QuadraticNeuronART; >= 4 matrix rows, where the
    summation order of the kernel depends on the stride), decimal-grid data and a vigilance that is *exactly* the value of
    some column-by-column dot product (rho = 0.9 with a dot product of exactly 90 hundredths): whether 0.9 or
    0.8999999999999999 comes out decides the match.  The fresh column module is handed X.T of the very same array object
    (same memory layout for both), so on a correct BARTMAP the two computations are the same floating-point program.
    Oracle: the whole statement (shapes, partition, membership, columns == module alone incl. weights and counters)."""
    cov = ctx.cov
    n_exact = 0
    for i in range(ctx.scale(240, 2400)):
        r = gen.rng_for(ctx.seed, "C17/layout", i)
        layout = LAYOUTS[i % len(LAYOUTS)]
        cb = r.choice(["ART2A", "ART2A", "ART2A", "ART2A", "QuadraticNeuronART", "ART1"])
        nr = r.randint(4, 12)
        square = r.random() < 0.5
        nc = nr if square else r.choice([c for c in range(4, 13) if c != nr])
        Z, R = decimal_matrix(r, nr, nc, binary=(cb == "ART1"), planted=r.random() < 0.7)
        if Z is None:
            cov.hit("layout:no-matrix")
            continue
        X = with_layout(Z / 10.0, layout)
        # exact column-by-column dot products, in hundredths (integers): the vigilances some dot product hits exactly
        G = Z.T @ Z
        exact = sorted({int(v) for v in G[np.triu_indices(nc, 1)] if 0 < v <= 100})
        on_dot = bool(exact) and (R is not None or r.random() < 0.75)
        rho = ((R if R is not None else r.choice(exact)) / 100.0) if on_dot else r.choice([0.1, 0.3, 0.5, 0.7, 0.8, 0.9, 1.0])
        if cb == "ART2A":
            # beta = 1: the weight is the last matched column; beta = 0: the first one, for good
            sb = {"cls": cb, "rho": rho, "alpha": r.choice([1e-7, 0.0, 2.0 ** -6]), "beta": r.choice([1.0, 1.0, 0.0, 0.0, 0.5])}
        elif cb == "ART1":
            sb = {"cls": cb, "rho": r.choice([0.25, 0.5, 0.75, rho]), "L": r.choice([2.0, 1.5, 3.0, 1.1])}
        else:
            sb = {"cls": cb, "rho": r.choice([0.1, 0.3, 0.5, 0.7, 0.9]), "s_init": r.choice([0.5, 1.0, 2.0]),
                  "lr_b": r.choice([0.1, 0.5, 1.0]), "lr_w": r.choice([0.1, 0.3, 0.5]), "lr_s": r.choice([0.0, 0.1])}
        ca = "ART1" if cb == "ART1" and r.random() < 0.5 else r.choice(["FuzzyART", "FuzzyART", "HypersphereART", "ART2A"])
        sa = specs.elem_spec(r, ca, nc)
        real = square and r.random() < 0.4
        eta = r.choice(ETAS)
        vt = None if real else gen.veto_table(r, nr, nr + 1)
        rep = {"stream": "layout", "layout": layout, "flags": {"C_CONTIGUOUS": bool(X.flags.c_contiguous),
               "F_CONTIGUOUS": bool(X.flags.f_contiguous)}, "strides": list(X.strides),
               "module_a": sa, "module_b": sb, "eta": eta, "X": X.tolist(), "tenths": Z.tolist(), "veto": vt,
               "reset_function": "shipped" if real else "veto table"}
        try:
            with quiet():
                pa, pb = make(sa), make(sb)
                pa.validate_data(pa.prepare_data(X))
                pb.validate_data(pb.prepare_data(X.T))
                bm, alone = BARTMAP(make(sa), make(sb), eta), make(sb)
        except Exception as e:
            cov.hit(f"layout:prepare-rejects:{exc_enum(e)}")
            continue
        if not real:
            def reset(i_, w, cluster_a, params, extra, cache=None, _vt=vt):
                return not _vt[extra["k"]][cluster_a]
            object.__setattr__(bm, "match_reset_func", reset)
        cov.hit(f"layout:{layout}")
        cov.hit(f"layout:column-module:{cb}")
        cov.hit("layout:reset:" + ("shipped" if real else "veto-table"))
        if on_dot and cb == "ART2A":
            n_exact += 1
            cov.hit("layout:vigilance-equals-an-exact-column-dot-product")
            cov.hit(f"layout:column-pairs-exactly-on-the-vigilance:{min(int((np.triu(G, 1) == round(rho * 100)).sum()), 4)}{'+' if (np.triu(G, 1) == round(rho * 100)).sum() > 4 else ''}")
        flags0, strides0, X0 = (X.flags.c_contiguous, X.flags.f_contiguous), X.strides, X.copy()
        raised = None
        try:
            with quiet():
                bm.fit(X)
        except Exception as e:
            raised = classify(e, X, bm)
            if raised not in (SIG_NONSQUARE, SIG_WIDTH1) or not real:
                ctx.issue("violation", "BARTMAP.fit:layout:" + raised,
                          f"BARTMAP({ca}/{cb}, eta={eta}).fit raised {e!r} on a finite {nr}x{nc} {layout} matrix accepted by "
                          f"prepare_data/validate_data"[:500], rep)
                continue
            # the two known ways the shipped reset function fails (reported by the real stream); the column module was
            # fitted before the row pass, the column clause is still checked
            cov.hit("layout:row-pass-raised:" + raised)
        if (X.flags.c_contiguous, X.flags.f_contiguous) != flags0 or X.strides != strides0 or not np.array_equal(X, X0):
            ctx.issue("violation", "BARTMAP.fit:layout:mutates-X", f"the caller's {layout} matrix changed during fit", rep)
            continue
        # ---- column module alone, on the transpose of the very same array
        try:
            with quiet():
                alone.fit(alone.prepare_data(X.T))
                cl = [int(t) for t in bm.column_labels_]
                nb = int(bm.n_column_clusters)
                al = [int(t) for t in alone.labels_]
        except Exception as e:
            ctx.issue("violation", f"BARTMAP.fit:layout:columns-alone:{exc_enum(e)}",
                      f"column module alone raised {e!r} on X.T of a {layout} matrix BARTMAP.fit accepted", rep)
            continue
        rep2 = {**rep, "column_labels": cl, "nb": nb, "column_module_alone_labels": al,
                "column_module_alone_n_clusters": len(alone.W)}
        same_w = (len(alone.W) == len(bm.module_b.W) and
                  all(np.array_equal(np.asarray(u, dtype=float), np.asarray(v, dtype=float), equal_nan=True)
                      for u, v in zip(alone.W, bm.module_b.W)) and
                  [int(t) for t in alone.weight_sample_counter_] == [int(t) for t in bm.module_b.weight_sample_counter_])
        if al != cl or len(alone.W) != nb:
            ctx.issue("violation", "BARTMAP.fit:layout:columns-alone",
                      f"{layout} {nr}x{nc} matrix, column module {cb}(rho={sb['rho']}): BARTMAP column_labels_ {cl} "
                      f"({nb} clusters) but the column module alone on X.T (same array, same layout) gives {al} "
                      f"({len(alone.W)} clusters)", rep2)
        elif not same_w:
            ctx.issue("violation", "BARTMAP.fit:layout:columns-alone:weights",
                      f"{layout} {nr}x{nc} matrix, column module {cb}: same column labels {cl} but the weights / sample "
                      f"counters of BARTMAP's column module differ from the module fitted alone on X.T", rep2)
        else:
            cov.hit("layout:columns-equal-module-alone")
        if len(alone.W) >= 2:
            cov.hit("layout:column-clusters>=2")
        if raised is not None:
            continue
        # ---- the rest of the statement
        st = _fitted_state(bm)
        na = st["n_row_clusters"]
        rep2 = {**rep2, "row_labels": st["row_labels_"].tolist(), "na": na}
        if st["rows_"].shape != (na * nb, nr) or st["columns_"].shape != (na * nb, nc):
            ctx.issue("violation", "BARTMAP.fit:layout:shapes",
                      f"rows_ {st['rows_'].shape} columns_ {st['columns_'].shape}; {na} row x {nb} column clusters on a "
                      f"{layout} {nr}x{nc} matrix", rep2)
        elif not np.all(st["rows_"].astype(int).T @ st["columns_"].astype(int) == 1):
            ctx.issue("violation", "BARTMAP.fit:layout:partition", f"{layout} matrix: some cell is not in exactly one bicluster", rep2)
        elif not _membership_holds(st, nr, nc):
            ctx.issue("violation", "BARTMAP.fit:layout:membership",
                      f"{layout} matrix: a bicluster differs from the pre-images of row_labels_ / column_labels_", rep2)
        else:
            cov.hit("layout:checkerboard-ok")
        cov.hit("layout:fit-returned")
        cov.case(("layout", layout, repr(sa), repr(sb), eta, Z.tobytes(), repr(vt)), na >= 2 or nb >= 2)
    cov.branches["layout:cases-with-vigilance-on-an-exact-dot-product"] = n_exact



# ------------------------------------------------------------------ module pair configured through ONE set_params call

def _scalar_keys(spec):
    return [k for k, v in spec.items() if k != "cls" and isinstance(v, (int, float)) and not isinstance(v, bool)]


def _mix_ok(cfg):
    """the generators' standing assumptions on hyper-parameter combinations (see specs.elem_spec / gen.fuzzy_params)"""
    if cfg["cls"] == "ART1":
        return not (cfg["rho"] == 0.0 and cfg["L"] == 1.0)
    if cfg["cls"] in ("FuzzyART", "HypersphereART", "EllipsoidART"):
        return not (cfg["rho"] == 0.0 and cfg["alpha"] == 0.0)
    return True


def _candidate(r, cls, d):
    """(spec the module is constructed with, nested hyper-parameters given in the same set_params call, resulting
    configuration): two draws of the class's hyper-parameters that differ in a scalar one; a non-empty subset of the
    differing ones travels as `module_x__key=value`"""
    init = specs.elem_spec(r, cls, d)
    for _ in range(20):
        final = specs.elem_spec(r, cls, d)
        diff = [k for k in _scalar_keys(init) if final[k] != init[k]]
        if diff:
            break
    else:
        return None
    if "rho" in diff and r.random() < 0.7:
        keys = ["rho"] + [k for k in diff if k != "rho" and r.random() < 0.3]
    else:
        keys = [k for k in diff if r.random() < 0.5] or [r.choice(diff)]
    cfg = {**init, **{k: final[k] for k in keys}}
    if not _mix_ok(cfg):
        keys = diff
        cfg = {**init, **{k: final[k] for k in keys}}
    return init, {k: final[k] for k in keys}, cfg


def _same_module(alone, mod, labels):
    return (list(map(int, alone.labels_)) == [int(t) for t in labels] and len(alone.W) == len(mod.W) and
            all(np.array_equal(np.asarray(u, dtype=float), np.asarray(v, dtype=float), equal_nan=True)
                for u, v in zip(alone.W, mod.W)) and
            [int(t) for t in alone.weight_sample_counter_] == [int(t) for t in mod.weight_sample_counter_])


def param_grid_stream(ctx):
    """"for all module pairs": the module pair of a BARTMAP is the one its public configuration interface installed.
    sklearn's parameter grids (GridSearchCV / Pipeline / ParameterGrid candidates) configure an estimator with ONE
    `set_params` call that both installs a new module and sets hyper-parameters of that module
    (`set_params(module_b=FuzzyART(...), module_b__rho=0.7)`; the same for module_a, for both at once, together with
    a plain `eta=` and with nested-only keys for the module that stays; keyword order shuffled), then `fit`.
    Oracle (the statement, on the implementation alone): the column clustering (labels, weights, counters, number of
    clusters) equals a fresh module *with the configuration the call describes* (constructor arguments of the installed
    module overridden by the nested keys) fitted alone on X.T; when the row module was installed and the reset function
    never vetoes (an accept-all table in place of the correlation test) the row pass is the row module's own training
    loop, so the row clustering equals the configured row module alone on X; rows_/columns_ have (row clusters of that
    module) x (column clusters of that module) rows, widths n_rows / n_cols; partition; membership.
    A `set_params` call the library rejects is not judged here (the statement starts "after fit"): counted only."""
    cov = ctx.cov
    sides = ["b", "a", "ab", "b"]
    n_rejected = 0
    for i in range(ctx.scale(160, 1600)):
        r = gen.rng_for(ctx.seed, "C17/param-grid", i)
        side = sides[i % len(sides)]
        nr = r.randint(3, 10)
        square = r.random() < 0.6
        nc = nr if square else r.choice([c for c in range(3, 11) if c != nr])
        kind = r.choice(["grid", "grid", "float", "float", "binary"])
        X, _meta = block_matrix(r, nr, nc, kind, wide=r.random() < 0.7)
        pool = ["ART1", "FuzzyART", "ART1", "FuzzyART"] + CLASSES if kind == "binary" else CLASSES + ["FuzzyART", "FuzzyART"]
        dim = {"a": nc, "b": nr}
        old = {s: specs.elem_spec(r, r.choice(pool), dim[s]) for s in "ab"}
        inst, nested, cfg = {}, {}, dict(old)
        bad = False
        for s in side:
            cls = old[s]["cls"] if r.random() < 0.4 else r.choice(pool)    # same class as the replaced module: 40 %
            c = _candidate(r, cls, dim[s])
            if c is None:
                bad = True
                break
            inst[s], nested[s], cfg[s] = c
        if bad:
            cov.hit("param-grid:no-two-configurations")
            continue
        # nested-only keys for the module that stays (always meant that module)
        for s in "ab":
            if s not in side and r.random() < 0.3:
                c = _candidate(r, old[s]["cls"], dim[s])
                if c is not None and _mix_ok({**old[s], **c[1]}):
                    nested[s] = c[1]
                    cfg[s] = {**old[s], **c[1]}
        eta0 = r.choice(ETAS)
        eta = r.choice(ETAS) if r.random() < 0.4 else eta0
        # would the configured modules exist and accept the matrix at all?
        try:
            with quiet():
                alone = {s: make(cfg[s]) for s in "ab"}
                pa, pb = make(cfg["a"]), make(cfg["b"])
                pa.validate_data(pa.prepare_data(X))
                pb.validate_data(pb.prepare_data(X.T))
        except Exception as e:
            cov.hit(f"param-grid:configuration-or-data-rejected:{exc_enum(e)}")
            continue
        # the reset function: never vetoing when the row clause is to be judged against the row module alone
        accept_all = "a" in side and r.random() < 0.7
        shipped = not accept_all and square and r.random() < 0.5
        vt = None if (accept_all or shipped) else gen.veto_table(r, nr, nr + 1)
        reset_kind = "accept-all" if accept_all else "shipped" if shipped else "veto table"
        # the ONE call, keyword order shuffled
        items = [(f"module_{s}", "install", inst[s]) for s in side]
        items += [(f"module_{s}__{k}", "value", v) for s in nested for k, v in nested[s].items()]
        if eta != eta0:
            items.append(("eta", "value", eta))
        order = r.choice(["module-first", "nested-first", "shuffled"])
        if order == "nested-first":
            items.reverse()
        elif order == "shuffled":
            r.shuffle(items)
        rep = {"stream": "param-grid", "constructed_with": {"module_a": old["a"], "module_b": old["b"], "eta": eta0},
               "set_params_call": [[k, v] for k, _, v in items], "configured": {"module_a": cfg["a"], "module_b": cfg["b"], "eta": eta},
               "reset_function": reset_kind, "veto": vt, "X": X}
        try:
            with quiet():
                bm = BARTMAP(make(old["a"]), make(old["b"]), eta0)
                kw = {k: (make(v) if how == "install" else v) for k, how, v in items}
        except Exception as e:
            ctx.issue("violation", f"BARTMAP.__init__:{exc_enum(e)}", f"constructor raised {e!r}", rep)
            continue
        cov.hit(f"param-grid:side:{side}")
        cov.hit(f"param-grid:keyword-order:{order}")
        for s in side:
            cov.hit("param-grid:installed-class:" + ("same-as-replaced" if inst[s]["cls"] == old[s]["cls"] else "other"))
            cov.hit(f"param-grid:install+nested:{inst[s]['cls']}")
            cov.hit("param-grid:nested-keys:" + "+".join((["rho"] if "rho" in nested[s] else []) +
                                                        (["other"] if set(nested[s]) - {"rho"} else [])))
        if any(s not in side for s in nested):
            cov.hit("param-grid:nested-only-for-the-module-that-stays")
        if eta != eta0:
            cov.hit("param-grid:plain-eta-in-the-same-call")
        try:
            with quiet():
                ret = bm.set_params(**kw)
        except Exception as e:
            # not constrained by the statement ("after fit"); the unchanged library accepts every such call
            cov.hit(f"param-grid:set_params-raised:{exc_enum(e)}")
            n_rejected += 1
            if n_rejected <= 2:
                ctx.log.append(f"param-grid case {i}: set_params({', '.join(k for k, _, _ in items)}) raised {e!r}"[:300])
            continue
        if accept_all:
            object.__setattr__(bm, "match_reset_func", lambda i_, w, cluster_a, params, extra, cache=None: True)
        elif vt is not None:
            def reset(i_, w, cluster_a, params, extra, cache=None, _vt=vt):
                return not _vt[extra["k"]][cluster_a]
            object.__setattr__(bm, "match_reset_func", reset)
        cov.hit(f"param-grid:reset:{reset_kind}")
        raised = None
        try:
            with quiet():
                bm.fit(X)
        except Exception as e:
            raised = classify(e, X, bm)
            if raised not in (SIG_NONSQUARE, SIG_WIDTH1) or not shipped:
                ctx.issue("violation", "BARTMAP.set_params+fit:" + raised,
                          f"fit raised {e!r} on a finite {nr}x{nc} matrix accepted by prepare_data/validate_data of the "
                          f"configured modules ({cfg['a']['cls']}/{cfg['b']['cls']}, installed by one set_params call)"[:500], rep)
                continue
            # the two known ways the shipped reset function fails (reported by the real stream); the column module was
            # fitted before the row pass, the column clause is still checked
            cov.hit("param-grid:row-pass-raised:" + raised)
        # ---- column clause: the configured column module alone on X.T
        try:
            with quiet():
                alone["b"].fit(alone["b"].prepare_data(X.T))
                cl = [int(t) for t in bm.column_labels_]
                nb = int(bm.n_column_clusters)
        except Exception as e:
            ctx.issue("violation", f"BARTMAP.set_params+fit:columns-alone:{exc_enum(e)}",
                      f"the configured column module alone raised {e!r} on X.T although BARTMAP.fit went through its column pass", rep)
            continue
        al_b = [int(t) for t in alone["b"].labels_]
        rep2 = {**rep, "column_labels": cl, "nb": nb, "column_module_alone_labels": al_b,
                "column_module_alone_n_clusters": len(alone["b"].W)}
        what_b = (f"installed {inst['b']} with nested {nested.get('b')} in the same call" if "b" in side else
                  f"kept {old['b']}" + (f" with nested-only {nested['b']}" if "b" in nested else ""))
        ok = True
        if al_b != cl or len(alone["b"].W) != nb or not _same_module(alone["b"], bm.module_b, cl):
            ok = False
            ctx.issue("violation", "BARTMAP.set_params+fit:columns-alone",
                      f"{nr}x{nc} matrix; column module {what_b}: BARTMAP column_labels_ {cl} ({nb} clusters) but a fresh "
                      f"{cfg['b']} fitted alone on X.T gives {al_b} ({len(alone['b'].W)} clusters) (or weights / counters "
                      f"differ); set_params keywords in call order: {[k for k, _, _ in items]}"[:900], rep2)
        else:
            cov.hit("param-grid:columns-equal-configured-module-alone")
            if "b" in side:
                # would the constructor arguments alone (nested keys ignored) have clustered the columns differently?
                with quiet():
                    try:
                        ign = make(inst["b"])
                        ign.fit(ign.prepare_data(X.T))
                        if [int(t) for t in ign.labels_] != cl:
                            cov.hit("param-grid:nested-key-decides-the-column-clustering")
                    except Exception:
                        pass
        if raised is not None:
            continue
        # ---- row clause, when the installed row module trained without any veto
        st = _fitted_state(bm)
        na = st["n_row_clusters"]
        rl = st["row_labels_"].tolist()
        rep2 = {**rep2, "row_labels": rl, "na": na}
        na_want, nb_want = na, len(alone["b"].W)
        if accept_all:
            try:
                with quiet():
                    alone["a"].fit(alone["a"].prepare_data(X))
                al_a = [int(t) for t in alone["a"].labels_]
                rep2 = {**rep2, "row_module_alone_labels": al_a, "row_module_alone_n_clusters": len(alone["a"].W)}
                na_want = len(alone["a"].W)
                if al_a != rl or len(alone["a"].W) != na or not _same_module(alone["a"], bm.module_a, rl):
                    ok = False
                    ctx.issue("violation", "BARTMAP.set_params+fit:rows-alone",
                              f"{nr}x{nc} matrix, reset function that never vetoes; row module installed {inst['a']} with nested "
                              f"{nested.get('a')} in the same call: BARTMAP row_labels_ {rl} ({na} clusters) but a fresh "
                              f"{cfg['a']} fitted alone on X gives {al_a} ({len(alone['a'].W)} clusters) (or weights / "
                              f"counters differ); set_params keywords in call order: {[k for k, _, _ in items]}"[:900], rep2)
                else:
                    cov.hit("param-grid:rows-equal-configured-module-alone")
                    with quiet():
                        try:
                            ign = make(inst["a"])
                            ign.fit(ign.prepare_data(X))
                            if [int(t) for t in ign.labels_] != rl:
                                cov.hit("param-grid:nested-key-decides-the-row-clustering")
                        except Exception:
                            pass
            except Exception as e:
                ok = False
                ctx.issue("violation", f"BARTMAP.set_params+fit:rows-alone:{exc_enum(e)}",
                          f"the configured row module alone raised {e!r} on X although BARTMAP.fit returned", rep2)
        # ---- shapes follow the configured modules; partition; membership
        if ret is not bm:
            ctx.issue("violation", "BARTMAP.set_params:return", "set_params did not return the estimator", rep2)
        if st["rows_"].shape != (na_want * nb_want, nr) or st["columns_"].shape != (na_want * nb_want, nc):
            ok = False
            ctx.issue("violation", "BARTMAP.set_params+fit:shapes",
                      f"rows_ {st['rows_'].shape} columns_ {st['columns_'].shape}; the configured modules give {na_want} row x "
                      f"{nb_want} column clusters on a {nr}x{nc} matrix", rep2)
        elif not np.all(st["rows_"].astype(int).T @ st["columns_"].astype(int) == 1):
            ok = False
            ctx.issue("violation", "BARTMAP.set_params+fit:partition", "some cell is not in exactly one bicluster", rep2)
        elif not _membership_holds(st, nr, nc):
            ok = False
            ctx.issue("violation", "BARTMAP.set_params+fit:membership",
                      "a bicluster differs from the pre-images of row_labels_ / column_labels_", rep2)
        if ok:
            cov.hit("param-grid:checkerboard-ok")
        cov.hit("param-grid:fit-returned")
        cov.case(("param-grid", side, repr(old), repr(inst), repr(nested), eta0, eta, X.tobytes(), repr(vt), reset_kind),
                 na >= 2 or nb >= 2)
    cov.branches["param-grid:set_params-calls-the-library-rejected"] = n_rejected


# ------------------------------------------------------------------ plotting calls on the fitted host and on its modules

TOPO_BASES = ["ART2A", "ART2A", "FuzzyART", "HypersphereART", "EllipsoidART"]      # TopoART needs a base with `beta`
DUAL_BASES = ["FuzzyART", "FuzzyART", "HypersphereART", "ART2A"]
PLAIN_POOL = ["FuzzyART", "HypersphereART", "ART2A", "EllipsoidART", "QuadraticNeuronART", "FuzzyART"]
WRAPS = [("plain", "topo"), ("topo", "plain"), ("plain", "dual"), ("plain", "topo"), ("topo", "topo"), ("plain", "plain"),
         ("dual", "topo"), ("plain", "topo")]
PLOT_CALLS = ["plot_cluster_bounds", "plot_cluster_bounds", "visualize", "host.visualize"]
PLOT_COLOURS = ["one-per-cluster", "long", "short", "empty", "dict-without-the-last-cluster", "default"]
PLOT_MODES = ["plain", "warnings-as-errors", "warnings-as-errors", "axes-fail-midway", "no-axes"]


def _side_spec(r, wrap, d, n):
    """spec of one BARTMAP module clustering n samples of d features: an elementary module, a TopoART over a base that
    learns with `beta` (pruning every tau samples; with tau not dividing n the nodes created since the last round are
    still candidates, not permanent, at the end of fit), or a DualVigilanceART"""
    if wrap == "topo":
        base = specs.elem_spec(r, r.choice(TOPO_BASES), d)
        base["rho"] = r.choice([0.5, 0.75, 0.9, 0.9, 0.95]) if base["cls"] != "FuzzyART" else r.choice([0.5, 0.7, 0.8, 0.9])
        taus = [t for t in range(2, n) if n % t] or [max(2, n - 1)]
        tau = r.choice(taus + [n, n + 3])
        return {"cls": "TopoART", "base_module": base, "beta_lower": r.choice([base["beta"], base["beta"] / 2]),
                "tau": tau, "phi": r.choice([1, 1, 1, min(2, tau)])}
    if wrap == "dual":
        base = specs.elem_spec(r, r.choice(DUAL_BASES), d)
        base["rho"], lb = r.choice([(0.9, 0.5), (0.85, 0.6), (0.95, 0.7), (0.75, 0.25)])
        return {"cls": "DualVigilanceART", "base_module": base, "rho_lower_bound": lb}
    return specs.elem_spec(r, r.choice(PLAIN_POOL), d)


class _FailingAxes:
    """a caller's axes whose drawing primitive fails at the k-th call (a backend error, an interrupted session):
    everything else is the real Axes"""

    def __init__(self, ax, k):
        object.__setattr__(self, "_ax", ax)
        object.__setattr__(self, "_left", k)

    def __getattr__(self, name):
        real = getattr(self._ax, name)
        if name in ("add_patch", "add_artist", "plot", "add_line", "add_collection", "scatter", "fill"):
            def call(*a, **kw):
                if self._left <= 0:
                    raise RuntimeError("the axes cannot draw any more")
                object.__setattr__(self, "_left", self._left - 1)
                return real(*a, **kw)
            return call
        return real


def _c17_clauses(bm, nr, nc, alone_labels, alone_n):
    """the statement, clause by clause, on what the estimator reports NOW -> {clause: None | what is wrong}"""
    out = {"shapes": None, "label-range": None, "partition": None, "membership": None, "columns-alone": None}
    st = _fitted_state(bm)
    na, nb = st["n_row_clusters"], st["n_column_clusters"]
    rl, cl, rows_, cols_ = st["row_labels_"], st["column_labels_"], st["rows_"], st["columns_"]
    if rows_.shape != (na * nb, nr) or cols_.shape != (na * nb, nc):
        out["shapes"] = (f"rows_ {rows_.shape} columns_ {cols_.shape}, but the estimator reports {na} row clusters x {nb} "
                         f"column clusters on a {nr}x{nc} matrix: one row per pair would be ({na * nb}, {nr}) / ({na * nb}, {nc})")
    if rl.shape != (nr,) or cl.shape != (nc,) or (rl.size and (rl.min() < 0 or rl.max() >= na)) or \
            (cl.size and (cl.min() < 0 or cl.max() >= nb)):
        out["label-range"] = (f"row_labels_ {rl.tolist()} with n_row_clusters={na}, column_labels_ {cl.tolist()} with "
                              f"n_column_clusters={nb}: a row / column with a label outside range(n) belongs to no "
                              f"(row-cluster, column-cluster) pair")
    # membership computed from the labels and the cluster counts reported now: every cell in exactly one pair
    if rl.shape == (nr,) and cl.shape == (nc,):
        mr = np.array([rl == a for a in range(na) for _ in range(nb)], dtype=bool).reshape(na * nb, nr)
        mc = np.array([cl == b for _ in range(na) for b in range(nb)], dtype=bool).reshape(na * nb, nc)
        cover = mr.astype(int).T @ mc.astype(int)
        if rows_.shape == mr.shape and cols_.shape == mc.shape:
            cover2 = rows_.astype(int).T @ cols_.astype(int)
            if not np.all(cover2 == 1):
                cover = cover2
            if not (np.array_equal(rows_, mr) and np.array_equal(cols_, mc)):
                out["membership"] = "rows_ / columns_ differ from the pre-images of row_labels_ / column_labels_"
        if not np.all(cover == 1):
            i, j = [int(t) for t in np.argwhere(cover != 1)[0]]
            out["partition"] = (f"{int(np.sum(cover != 1))} of {nr * nc} cells are not in exactly one bicluster of the "
                                f"{na}x{nb} checkerboard (cell ({i},{j}) lies in {int(cover[i, j])})")
    if alone_labels is not None and (cl.tolist() != alone_labels or nb != alone_n):
        out["columns-alone"] = (f"column_labels_ {cl.tolist()} / n_column_clusters {nb}, the column module alone on X.T: "
                                f"{alone_labels} / {alone_n} clusters")
    return out


def plot_calls_stream(ctx):
    """"After BARTMAP.fit ..." speaks about the fitted estimator until the next training call.  A plotting call lies in
    between for most users: `bartmap.visualize()`, `bartmap.module_b.plot_cluster_bounds(ax, colors)`,
    `bartmap.module_a.visualize(X, labels, ax=ax, colors=...)`, on the host, on a row / column module, or on the base module
    of a wrapped one.  Module pairs: elementary modules, TopoART over ART2A / FuzzyART / HypersphereART / EllipsoidART (tau
    not dividing the number of samples: candidate nodes that still have members at the end of fit), DualVigilanceART.
    The call may return or END IN AN EXCEPTION that the caller catches — a session that runs with
    `warnings.simplefilter("error")` and a base module that only warns 'does not support plotting cluster bounds', a colour
    list that is too short / empty / a dict without the last cluster, axes that fail in the middle of the drawing, no axes
    at all.  An exception of the plotting call is tolerated (not the property's business).  Oracle: with no training in
    between, every clause of the statement that held right after fit still holds on what the estimator reports now —
    rows_/columns_ have one row per (row-cluster, column-cluster) pair and widths n_rows / n_cols; labels inside
    range(n_row_clusters) / range(n_column_clusters); every cell in exactly one bicluster; membership == label pre-images;
    column clustering (labels and number of clusters) == the column module alone on X.T."""
    import warnings
    import matplotlib
    if matplotlib.get_backend().lower() != "agg":
        matplotlib.use("Agg", force=True)
    import matplotlib.pyplot as plt
    cov = ctx.cov
    for i in range(ctx.scale(96, 960)):
        r = gen.rng_for(ctx.seed, "C17/plot-calls", i)
        wa, wb = WRAPS[i % len(WRAPS)]
        nr = r.randint(5, 12)
        square = r.random() < 0.5
        nc = nr if square else r.choice([c for c in range(5, 13) if c != nr])
        kind = r.choice(["grid", "float", "float"])
        X, _meta = block_matrix(r, nr, nc, kind, wide=r.random() < 0.6)
        if r.random() < 0.5:      # an outlier column / row presented last: a node of its own after the last pruning round
            X[:, -1] = [r.random() for _ in range(nr)]
        if r.random() < 0.3:
            X[-1, :] = [r.random() for _ in range(nc)]
        sa, sb = _side_spec(r, wa, nc, nr), _side_spec(r, wb, nr, nc)
        shipped = square and r.random() < 0.3
        accept_all = not shipped and r.random() < 0.5
        vt = None if (shipped or accept_all) else gen.veto_table(r, nr, nr + 1)
        eta = r.choice(ETAS)
        rep = {"stream": "plot-calls", "module_a": sa, "module_b": sb, "eta": eta, "X": X,
               "reset_function": "shipped" if shipped else "accept-all" if accept_all else "veto table", "veto": vt}
        try:
            with quiet():
                pa, pb = make(sa), make(sb)
                Xa, Xb = pa.prepare_data(X), pb.prepare_data(X.T)        # what the modules were trained on (fresh copies)
                pa.validate_data(Xa)
                pb.validate_data(Xb)
                bm, alone = BARTMAP(make(sa), make(sb), eta), make(sb)
        except Exception as e:
            cov.hit(f"plot-calls:configuration-or-data-rejected:{exc_enum(e)}")
            continue
        if accept_all:
            object.__setattr__(bm, "match_reset_func", lambda i_, w, cluster_a, params, extra, cache=None: True)
        elif vt is not None:
            def reset(i_, w, cluster_a, params, extra, cache=None, _vt=vt):
                return not _vt[extra["k"]][cluster_a]
            object.__setattr__(bm, "match_reset_func", reset)
        try:
            with quiet():
                bm.fit(X)
        except Exception as e:
            cov.hit("plot-calls:fit-raised:" + classify(e, X, bm))          # judged by the other streams
            continue
        try:
            with quiet():
                alone.fit(alone.prepare_data(X.T))
            alone_labels, alone_n = [int(t) for t in alone.labels_], int(alone.n_clusters)
        except Exception as e:
            cov.hit(f"plot-calls:column-module-alone-raised:{exc_enum(e)}")
            alone_labels, alone_n = None, None
        pre = _c17_clauses(bm, nr, nc, alone_labels, alone_n)
        for clause, bad in pre.items():
            if bad is not None:
                cov.hit(f"plot-calls:clause-already-broken-right-after-fit:{clause}")     # judged by the other streams
        cov.hit(f"plot-calls:modules:{wa}/{wb}")
        candidates = {}
        for side, m in (("a", bm.module_a), ("b", bm.module_b)):
            if m.__class__.__name__ == "TopoART":
                pm = np.asarray(m._permanent_mask, dtype=bool).reshape(-1)
                lab = np.asarray(m.labels_, dtype=int)
                cand = [k for k in range(len(m.W)) if k < len(pm) and not pm[k] and (lab == k).any()]
                candidates[side] = cand
                if cand:
                    cov.hit(f"plot-calls:topo-module-{side}:candidate-node-with-members-at-the-end-of-fit"
                            + (":and-a-permanent-node" if pm.any() else ""))
                cov.hit(f"plot-calls:topo-module-{side}:base:{m.base_module.__class__.__name__}")
        st0 = _fitted_state(bm)
        fit_reported = {"row_labels": st0["row_labels_"].tolist(), "column_labels": st0["column_labels_"].tolist(),
                        "na": st0["n_row_clusters"], "nb": st0["n_column_clusters"]}
        calls = []
        for j in range(r.randint(1, 3)):
            what = r.choice(PLOT_CALLS)
            side = r.choice([s for s, w in (("a", wa), ("b", wb)) if w != "plain"] * 3 + ["a", "b"])
            mode = r.choice(PLOT_MODES)
            colours = r.choice(PLOT_COLOURS)
            on_base = what != "host.visualize" and (wa if side == "a" else wb) != "plain" and r.random() < 0.25
            m = bm.module_a if side == "a" else bm.module_b
            target = f"module_{side}" + (".base_module" if on_base else "")
            if on_base:
                m = m.base_module
            Xm = Xa if side == "a" else Xb
            own = r.random() < 0.6
            call = {"call": what, "on": "host" if what == "host.visualize" else target, "mode": mode,
                    "colours": None if what == "host.visualize" else colours,
                    "labels_argument": None if what != "visualize" else ("the module's own labels_ array" if own else "a copy")}
            figs = set(plt.get_fignums())
            raised = None
            try:
                with quiet():
                    with warnings.catch_warnings():
                        if mode == "warnings-as-errors":
                            warnings.simplefilter("error")
                        if what == "host.visualize":
                            bm.visualize() if r.random() < 0.6 else bm.visualize(cmap="viridis")
                        else:
                            n_cl = int(m.n_clusters)
                            if colours == "one-per-cluster":
                                cols = plt.cm.rainbow(np.linspace(0, 1, max(n_cl, 1)))
                            elif colours == "long":
                                cols = [(0.1 * (k % 10), 0.5, 0.5, 1.0) for k in range(n_cl + 12)]
                            elif colours == "short":
                                cols = ["r", "g", "b"][: max(0, min(3, n_cl - 1))]
                            elif colours == "empty":
                                cols = []
                            elif colours == "dict-without-the-last-cluster":
                                cols = {k: "k" for k in range(max(n_cl - 1, 0))}
                            else:
                                cols = None
                            fig, ax = plt.subplots()
                            if mode == "axes-fail-midway":
                                ax = _FailingAxes(ax, r.randint(0, 2))
                            elif mode == "no-axes":
                                ax = None
                            if what == "plot_cluster_bounds":
                                m.plot_cluster_bounds(ax, cols if cols is not None else plt.cm.rainbow(np.linspace(0, 1, max(n_cl, 1))))
                            else:
                                y = m.labels_ if own and hasattr(m, "labels_") else np.array(getattr(m, "labels_", np.zeros(len(Xm), dtype=int)))
                                m.visualize(Xm, y, ax=ax, colors=cols)
            except Exception as e:
                raised = exc_enum(e)
                call["raised"] = f"{type(e).__name__}: {str(e)[:100]}"
            finally:
                for f in set(plt.get_fignums()) - figs:
                    plt.close(f)
            calls.append(call)
            cov.hit(f"plot-calls:{what}:" + ("ended-in-an-exception" if raised else "returned"))
            cov.hit(f"plot-calls:mode:{mode}:" + ("ended-in-an-exception" if raised else "returned"))
            if what != "host.visualize":
                cov.hit(f"plot-calls:on:{'base-module-of-' if on_base else ''}{wa if side == 'a' else wb}-module:"
                        + ("ended-in-an-exception" if raised else "returned"))
                cov.hit(f"plot-calls:colours:{colours}")
                if raised and candidates.get(side):
                    cov.hit("plot-calls:failed-plot-on-a-topo-module-with-a-candidate-node-that-has-members")
            # ---- the clauses again, no training in between
            post = _c17_clauses(bm, nr, nc, alone_labels, alone_n)
            broke = [c for c in post if post[c] is not None and pre[c] is None]
            if broke:
                c = broke[0]
                seq = "; ".join(f"{q['on']}.{q['call'].split('.')[-1]}(colours={q['colours']}, {q['mode']})"
                                + (f" -> raised {q['raised']}" if q.get("raised") else " -> returned") for q in calls)
                ctx.issue("violation", f"BARTMAP.fit+plot:{c}",
                          f"BARTMAP({sa['cls']}{'/' + sa['base_module']['cls'] if 'base_module' in sa else ''}, "
                          f"{sb['cls']}{'/' + sb['base_module']['cls'] if 'base_module' in sb else ''}, eta={eta}) on a {nr}x{nc} "
                          f"matrix: the clause held right after fit (row_labels_ {fit_reported['row_labels']}, column_labels_ "
                          f"{fit_reported['column_labels']}, {fit_reported['na']}x{fit_reported['nb']} clusters); after the plotting "
                          f"call(s) [{seq}] and no training in between: {post[c]}"[:1100],
                          {**rep, "reported_after_fit": fit_reported, "plotting_calls": calls,
                           "clauses_broken_after_the_plotting_calls": {q: post[q] for q in broke}})
                cov.hit("plot-calls:clause-broken-by-a-plotting-call")
                break
        else:
            cov.hit("plot-calls:clauses-intact-after-the-plotting-calls")
        cov.hit("plot-calls:fit-returned")
        cov.case(("plot-calls", repr(sa), repr(sb), eta, X.tobytes(), repr(vt), repr(calls)),
                 st0["n_row_clusters"] >= 2 or st0["n_column_clusters"] >= 2)


def prepare(ctx):
    """Translator tie (see gen_tie.py): the source of this slice is re-translated to Lean on every run
    (harness/artv/btrans.py) and proved equal to the model the property theorems are about"""
    from .gen_tie import gen_prepare, extra_theorems
    from .. import btrans
    gen_prepare(ctx, extra_theorems("btrans") + [], btrans.COVERS)

def run(ctx):
    from collections import defaultdict
    stats = defaultdict(int)
    lines, expect = [], []
    n_real = ctx.scale(420, 6000)
    n_patched = ctx.scale(180, 2500)
    for i in range(n_real):
        run_case(ctx, i, gen.rng_for(ctx.seed, "C17-real", i), "real", lines, expect, stats)
    for i in range(n_patched):
        run_case(ctx, i, gen.rng_for(ctx.seed, "C17-patched", i), "patched", lines, expect, stats)
    for i in range(ctx.scale(60, 600)):
        synthetic_rc(ctx, gen.rng_for(ctx.seed, "C17-rc", i), lines, expect)

    outs = run_driver(lines)
    for line, out, (kind, want, rep) in zip(lines, outs, expect):
        if out == want:
            continue
        got, exp = parse_kv(out), parse_kv(want)
        field = next((k for k in exp if got.get(k) != exp[k]), "format")
        ctx.issue("diff", f"bartmap:{kind}:{field}",
                  f"model {field}={got.get(field, out[:80])!s:.200} impl {field}={exp.get(field)!s:.200}",
                  {**rep, "line": line, "model": out, "impl": want})

    # ------------------------------------------------ shares
    tot, done = stats["real:total"], stats["real:completed"]
    share = done / tot if tot else 0.0
    ctx.cov.branches["share:real-completed-permille"] = int(round(1000 * share))
    ctx.cov.branches["real:completed-square-all-widths>=2"] = stats["real:completed-square-wide"]
    ctx.cov.branches["real:total"] = tot
    ctx.cov.branches["real:completed"] = done
    ctx.cov.branches["patched:total"] = stats["patched:total"]
    ctx.cov.branches["patched:completed"] = stats["patched:completed"]
    ctx.cov.samples.append({"share_of_real_cases_running_to_completion": round(share, 3),
                            "real_total": tot, "real_completed": done, "real_raised": stats["real:raised"],
                            "patched_total": stats["patched:total"], "patched_completed": stats["patched:completed"],
                            "cases_with_nan_correlation": stats["nan-corr-cases"]})
    ctx.log.append(f"real stream: {done}/{tot} fits ran to completion ({100 * share:.0f}%), "
                   f"{stats['real:raised']} raised; patched-veto stream: {stats['patched:completed']}/"
                   f"{stats['patched:total']} completed (non-square included); NaN correlation met in "
                   f"{stats['nan-corr-cases']} completed cases")
    if tot and share < 0.25:
        ctx.issue("diff", "bartmap:coverage", f"only {done}/{tot} real-stream fits ran to completion", None)
    ctx.assumptions += [
        "the Pearson-correlation reset function is an oracle parameter of the model (veto : sample -> category -> Bool); "
        "its answers are recorded from the implementation, its arithmetic (scipy.stats.pearsonr) is not modelled",
        "a 'data matrix' is one that both modules' prepare_data/validate_data accept: a matrix with a constant row or "
        "column is rejected before training (normalize divides 0/0 -> 'Data has not been normalized'); counted under "
        "prepare-rejects, judged by C18 not here",
        "np.vstack of zero masks (no rows or no columns) raises; the model returns [] — unreachable after prepare_data",
        "single training pass (max_iter = 1)",
    ]
    ctx.trusted += ["numpy boolean-mask equality and np.vstack (one-line model: rowsOf/columnsOf)",
                    "scipy.stats.pearsonr (not modelled; enters as oracle)"]
    multi_epoch(ctx)
    dual_modules(ctx)
    pruning_row_module(ctx)
    layout_stream(ctx)
    param_grid_stream(ctx)
    plot_calls_stream(ctx)


def pruning_row_module(ctx):
    """row module = TopoART (its pruning rounds re-index the categories and rewrite labels_ during the row pass):
    bicluster membership must agree with the row_labels_ / column_labels_ the estimator reports after fit"""
    from artlib import BARTMAP, FuzzyART, TopoART
    cov = ctx.cov
    for i in range(ctx.scale(30, 400)):
        r = gen.rng_for(ctx.seed, "C17/topo", i)
        n = r.choice([8, 10, 12])
        ga, gb = r.randint(2, 4), r.randint(2, 3)
        cen = [[r.random() for _ in range(gb)] for _ in range(ga)]
        X = np.array([[cen[a % ga][b % gb] + 0.08 * r.random() for b in range(n)] for a in range(n)])
        X[r.randrange(n)] = [r.random() for _ in range(n)]          # an outlier row: a category that stays below phi
        eta = r.choice([-1.0, -0.5, 0.0])
        tau, phi = r.choice([(3, 2), (4, 2), (5, 3), (2, 2)])
        rho = r.choice([0.5, 0.7, 0.8])
        rep = {"n": n, "eta": eta, "tau": tau, "phi": phi, "rho": rho, "X": X.tolist()}
        bm = BARTMAP(TopoART(FuzzyART(rho, 0.01, 1.0), 0.5, tau, phi), FuzzyART(r.choice([0.5, 0.7]), 0.01, 1.0), eta)
        try:
            with quiet():
                bm.fit(X)
        except Exception as e:
            cov.hit("topo-rows:raised:" + classify(e, X, bm))
            continue
        rl, cl = np.asarray(bm.row_labels_), np.asarray(bm.column_labels_)
        na, nb = int(bm.n_row_clusters), int(bm.n_column_clusters)
        rows_, cols_ = np.asarray(bm.rows_), np.asarray(bm.columns_)
        pruned = len(bm.module_a.W) < len(set(range(n))) and bm.module_a.sample_counter_ >= tau
        if rows_.shape != (na * nb, n) or cols_.shape != (na * nb, n):
            ctx.issue("violation", "BARTMAP.fit:topo-rows:shapes", f"rows_ {rows_.shape} columns_ {cols_.shape}; {na} row x {nb} column clusters", rep)
        elif any(not (np.array_equal(rows_[a * nb + b], rl == a) and np.array_equal(cols_[a * nb + b], cl == b))
                 for a in range(na) for b in range(nb)):
            ctx.issue("violation", "BARTMAP.fit:topo-rows:membership",
                      f"a bicluster differs from the pre-images of row_labels_ {rl.tolist()} / column_labels_ {cl.tolist()} "
                      f"(TopoART row module, pruning every {tau} samples)", rep)
        else:
            cover = rows_.astype(int).T @ cols_.astype(int)
            if not np.all(cover == 1):
                a_, b_ = [int(t) for t in np.argwhere(cover != 1)[0]]
                orphan = bool((rl < 0).any())
                ctx.issue("violation", "BARTMAP.fit:topo-rows:" + ("orphan-rows-in-no-bicluster" if orphan else "partition"),
                          f"cell ({a_},{b_}) lies in {int(cover[a_, b_])} biclusters; row_labels_ {rl.tolist()} "
                          + ("(rows the pruning TopoART row module left without a category, label -1, belong to no bicluster)" if orphan else ""), rep)
            else:
                cov.hit("topo-rows:partition-ok")
        after_reads(ctx, gen.rng_for(ctx.seed, "C17-reads/topo-rows", i), bm, X, rep, "topo-rows")
        cov.hit("topo-rows:fit-returned" + (":relabelled" if (rl < 0).any() or len(bm.module_a.W) < rl.max() + 2 else ""))
        cov.case(("topo-rows", n, eta, tau, phi, i), True)
