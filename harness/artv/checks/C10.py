"""C10 — Fusion ART is the channel-wise conjunction of its modules.

Tie: end-to-end histories of the real FusionART (FuzzyART / ART2A channels, 1-4
channels, dyadic gammas, grid data, all batchings, with / without a reset function,
all match-tracking modes) against the Lean model `fusionKernel` run by
`artdrv fusion hist` (fused W, per-module W, counters, labels, predictions), and the
public `category_choice` / `match_criterion_bin` against `artdrv fusion kern`.

Oracle (implementation alone): per-channel `modules[k].W` against a bare module
of the same class fed that channel's slice with the same winner sequence; public
`category_choice` = sum of gamma * module choice; `match_criterion_bin` = all of
the module tests; equal category counts; `W` = concatenation of the module
weights; a one-channel gamma=1 FusionART against the bare module; invariance of
the labels under a permutation of the channels; every elementary class as a
channel, incl. those whose weight is longer than the channel (regression guard for F07,
fixed in /repo 9bccfb4); gamma_values re-configured on a live estimator (attribute assignment,
`params['gamma_values']` replaced or mutated in place, `set_params`; before the first training, between two
fits, between two partial_fits): every activation computed while and after training is the sum of
(reported gamma) * module activation, and the clustering equals that of a twin holding the same vector;
the last bit (oracle_ulp): decimal gammas (0.3/0.7, 0.2/0.3/0.5, ...), decimal-grid data, decimal alpha / rho and rows sought so
that the two best categories tie exactly or within a few ulp: every fused activation computed while training / predicting
equals, bit for bit, the Python sum of the rounded products gamma_k * (module k's own category_choice), and a channel
permutation under which the float sum is the same double (two channels; the first two of more) leaves labels, predictions on
the tie rows and per-channel weights unchanged, tied decisions included;
module objects with a past (oracle_lifecycle): channels that are shallow copies of one trained / untrained template (they arrive
sharing one W list / one counters list), deep copies, modules trained before being wrapped, the modules of another fitted host,
a shallow copy of a fitted host: after fit (+ partial_fit, re-fit) equal counts = labels used, W = concatenation, counters =
label histogram, every channel = the bare module's rule on its slice, and everything identical to a FusionART over fresh,
identically configured modules;
a reset function that trains the estimator it is called from (oracle_reentrant_*: `model.partial_fit(rows)` inside the callback,
then veto or accept — categories move / are added in the middle of one sample's vigilance search): a one-channel gamma=[1]
FusionART against the bare module given the same scripted teacher (labels_, weights, counters, predictions; every elementary
class, every match-tracking mode), and for 1-4 channels the completed steps (lesson rows first, then the interrupted row)
replayed on bare modules: equal counts, W = concatenation, counters = winner histogram, every channel = its module's rule."""
from __future__ import annotations

import operator
from copy import deepcopy
from fractions import Fraction

import numpy as np

from .. import gen, specs
from ..common import q2s, mat_q, vec_q, nats, run_driver, parse_kv, parse_nats, parse_mat_q, parse_optnats, parse_vec_q
from ..impl import make, quiet, exc_enum, MODES
from .e2e import cmp_W, close, vt_str

RULE = ("cases = (channel classes, widths, gammas, hyper-parameters, stream, batching / history, match-tracking mode, "
        "epsilon, veto table); a case is non-trivial when the trained model has >= 2 categories and >= 2 channels "
        "(>= 2 categories for the one-channel clause); distinct by hash of the whole tuple")

EXACT_CH = ["FuzzyART", "ART2A", "ART1"]
LONG = ["HypersphereART", "EllipsoidART", "ART1", "GaussianART", "BayesianART", "QuadraticNeuronART"]  # weight longer than the channel


import contextlib
import signal


class Hang(Exception):
    pass


@contextlib.contextmanager
def time_limit(sec: int):
    """a training call that does not return is a finding, not a reason for the check to spin"""
    def handler(signum, frame):
        raise Hang(f"no result after {sec}s")
    old = signal.signal(signal.SIGALRM, handler)
    signal.alarm(sec)
    try:
        yield
    finally:
        signal.alarm(0)
        signal.signal(signal.SIGALRM, old)
KIND = {"FuzzyART": "fuzzy", "ART2A": "art2a", "ART1": "art1"}

GAMMAS = {
    1: [[1.0]],
    2: [[0.5, 0.5], [0.25, 0.75], [0.75, 0.25], [1.0, 0.0], [0.125, 0.875]],
    3: [[0.5, 0.25, 0.25], [0.25, 0.25, 0.5], [0.125, 0.375, 0.5], [0.0, 0.5, 0.5], [0.25, 0.5, 0.25]],
    4: [[0.25, 0.25, 0.25, 0.25], [0.5, 0.25, 0.125, 0.125], [0.125, 0.125, 0.25, 0.5], [0.25, 0.0, 0.25, 0.5]],
}


# ------------------------------------------------------------------ builders (shared with C11 / C16)


def gen_channels(r, kmin=1, kmax=4, classes=EXACT_CH, dmax=2):
    """random channel layout: classes, raw dims, module specs, widths, gammas"""
    k = r.randint(kmin, kmax)
    cls = [r.choice(classes) for _ in range(k)]
    ds = [r.randint(1, dmax) for _ in range(k)]
    sp = [specs.elem_spec(r, c, specs.width(c, d) if c != "FuzzyART" else d) for c, d in zip(cls, ds)]
    dims = [specs.width(c, d) for c, d in zip(cls, ds)]
    gam = list(r.choice(GAMMAS[k]))
    return cls, ds, sp, dims, gam


def fusion_spec(sp, dims, gam):
    return {"cls": "FusionART", "modules": deepcopy(sp), "gamma_values": list(gam), "channel_dims": list(dims)}


def channel_data(r, cls, ds, n, floats=False, style=None):
    return [specs.elem_data(r, c, n, d, floats=floats and c != "ART1", style=style) for c, d in zip(cls, ds)]


def chans_str(cls, sp, dims, gam) -> str:
    out = []
    for c, s, w, g in zip(cls, sp, dims, gam):
        if c == "ART1":      # the ALPHA field carries L
            out.append(":".join([KIND[c], str(w), q2s(g), q2s(s["rho"]), q2s(s["L"]), "0"]))
        else:
            out.append(":".join([KIND[c], str(w), q2s(g), q2s(s["rho"]), q2s(s["alpha"]), q2s(s["beta"])]))
    return ";".join(out)


def ints_str(v) -> str:
    v = list(v)
    return ",".join(str(int(t)) for t in v) if v else "-"


def limit_n(sp, n):
    return n if all(s.get("beta", 1.0) == 1.0 for s in sp) else min(n, 10)


def _small_dyadic(t: float) -> bool:
    return Fraction(t).denominator <= 2 ** 24


def pairs_ambiguous(acts) -> bool:
    """acts = [(fused activation, tuple of module activations)] of one decision.  The order of two
    categories is float-ambiguous when their fused activations are closer than 1e-9 (relative),
    equality included, although their module activations differ — unless all those module
    activations are small dyadic numbers (then the float sums are exact and the order is the exact one)."""
    live = [(t, terms) for t, terms in acts if t == t]
    for i in range(len(live)):
        for j in range(i + 1, len(live)):
            (a, ta), (b, tb) = live[i], live[j]
            if abs(a - b) < 1e-9 * (1.0 + abs(a)) and ta != tb:
                if not (all(_small_dyadic(v) for v in ta) and all(_small_dyadic(v) for v in tb)):
                    return True
    return False


class ActLog:
    """records, for every training step, the fused activation of every category together with the
    module activations it was summed from (to recognise float-ambiguous decisions)"""

    def __init__(self, f):
        self.f = f
        self.cur = None
        self.min_gap = np.inf      # 0.0 as soon as one decision was float-ambiguous
        self.last = None
        self._terms = None
        o_choice, o_step = f.category_choice, f.step_fit
        log = self
        for m in f.modules:
            def cc(i, w, params, _o=m.category_choice):
                T, c = _o(i, w, params)
                if log._terms is not None:
                    log._terms.append(float(T))
                return T, c
            object.__setattr__(m, "category_choice", cc)

        def category_choice(i, w, params, **kw):
            log._terms = []
            try:
                T, c = o_choice(i, w, params, **kw)
                log.last = (float(T), tuple(log._terms))
            finally:
                log._terms = None
            if log.cur is not None:
                log.cur.append(log.last)
            return T, c

        def step_fit(x, *a, **kw):
            log.cur = []
            try:
                return o_step(x, *a, **kw)
            finally:
                if pairs_ambiguous(log.cur):
                    log.min_gap = 0.0
                log.cur = None

        object.__setattr__(f, "category_choice", category_choice)
        object.__setattr__(f, "step_fit", step_fit)
        object.__setattr__(f, "_actlog", self)


def ambiguous_rows(f, rows, skip=()) -> bool:
    """does some query row meet a float-ambiguous arg-max (skip = normalised channel numbers)"""
    log = f.__dict__.get("_actlog") or ActLog(f)
    with quiet():
        W = f.W
        for x in rows:
            acts = []
            for w in W:
                f.category_choice(x, w, f.params, skip_channels=list(skip))
                acts.append(log.last)
            if pairs_ambiguous(acts):
                return True
    return False


def snap_fusion(f):
    return {
        "W": [np.array(w, dtype=float) for w in f.W],
        "labels": [int(t) for t in f.labels_],
        "cnts": [[int(t) for t in m.weight_sample_counter_] for m in f.modules],
        "n": int(f.sample_counter_),
        "chW": [[np.array(w, dtype=float) for w in m.W] for m in f.modules],
    }


def parse_chW(s: str):
    return [parse_mat_q(t) for t in s.split(";")]


def compare_state(ctx, tag, i, k, g, s, rep) -> bool:
    """model output group `g` against implementation snapshot `s`"""
    kv = parse_kv(g)
    if parse_nats(kv["labels"]) != s["labels"]:
        ctx.issue("diff", f"{tag}:labels", f"case {i} call {k}: impl labels {s['labels']} model {kv['labels']}", rep)
        return False
    if not cmp_W(s["W"], parse_mat_q(kv["W"])):
        ctx.issue("diff", f"{tag}:W", f"case {i} call {k}: fused weights differ; model {kv['W'][:200]}", rep)
        return False
    mc = parse_nats(kv["cnt"])
    if any(c != mc for c in s["cnts"]) or int(kv["n"]) != s["n"]:
        ctx.issue("diff", f"{tag}:counters", f"case {i} call {k}: impl module counters {s['cnts']} n {s['n']}; "
                  f"model cnt {mc} n {kv['n']}", rep)
        return False
    chm = parse_chW(kv["ch"])
    if len(chm) != len(s["chW"]) or any(not cmp_W(a, b) for a, b in zip(s["chW"], chm)):
        ctx.issue("diff", f"{tag}:module-W", f"case {i} call {k}: per-module weights differ; model {kv['ch'][:200]}", rep)
        return False
    return True


# ------------------------------------------------------------------ tie: histories


def histories(ctx, N, nmax):
    cov = ctx.cov
    lines, metas = [], []
    for i in range(N):
        r = gen.rng_for(ctx.seed, "C10-hist", i)
        cls, ds, sp, dims, gam = gen_channels(r, 1, 4)
        n = limit_n(sp, r.randint(1, nmax))
        X = np.hstack(channel_data(r, cls, ds, n))
        mode = MODES[i % 5]
        eps = r.choice([0.0, 2.0 ** -20, 2.0 ** -10, 0.125])
        has_reset = r.random() < 0.5
        if i % 4 == 3 and len(cls) >= 2:
            # a crisp "flag" channel: vigilance 0 and 0/1 data, so that match values are exactly 0 (and still
            # pass `0 >= 0`); vetoes then have to track a threshold from 0 upwards
            k0 = r.randrange(len(cls))
            if cls[k0] in ("FuzzyART", "ART1"):
                sp[k0]["rho"] = 0.0
                if cls[k0] == "ART1":
                    sp[k0]["L"] = max(sp[k0]["L"], 2.0)
                else:
                    sp[k0]["alpha"] = max(sp[k0]["alpha"], 2.0 ** -10)
                a = sum(dims[:k0])
                if cls[k0] == "FuzzyART":
                    raw = np.array([[float(r.randint(0, 1)) for _ in range(ds[k0])] for _ in range(n)])
                    X[:, a:a + dims[k0]] = gen.cc(raw)
                has_reset = True
                eps = r.choice([2.0 ** -10, 0.125, 0.125])
                if r.random() < 0.8:
                    mode = "MT+"      # the only mode in which a threshold tracked up from 0 decides later candidates
                cov.hit("flag-channel:rho=0")
                flag_vt = [[r.random() < 0.5 for _ in range(3 * n + 5)] for _ in range(3 * n + 4)]
        vt = gen.veto_table(r, 3 * n + 4, 3 * n + 5) if has_reset else None
        if has_reset and i % 4 == 3 and len(cls) >= 2 and cls[k0] in ("FuzzyART", "ART1"):
            vt = flag_vt
        spec = fusion_spec(sp, dims, gam)
        rep = {"spec": spec, "mode": mode, "eps": eps, "veto": vt, "X": X}
        try:
            f = make(spec)
        except Exception as e:
            ctx.issue("violation", f"FusionART.__init__:{exc_enum(e)}", repr(e), rep)
            continue
        log = ActLog(f)
        counter = {"i": 0}
        o_step = f.step_fit

        def step(x, *a, _o=o_step, _c=counter, **kw):
            try:
                return _o(x, *a, **kw)
            finally:
                _c["i"] += 1
        object.__setattr__(f, "step_fit", step)

        def reset(i_, w_, c_, params=None, cache=None, _vt=vt, _c=counter):
            return not _vt[_c["i"]][c_]
        parts = gen.compositions(r, n)
        Xs = gen.split(X, parts)
        style = r.choice(["fit", "pfit", "fit+pfit", "pfit+fit", "refit"])
        if style == "fit":
            calls = [("fit", X, None)]
        elif style == "pfit":
            calls = [("pfit", B, None) for B in Xs]
        elif style == "fit+pfit":
            calls = [("fit", Xs[0], None)] + [("pfit", B, None) for B in Xs[1:]]
        elif style == "pfit+fit":
            calls = [("pfit", B, None) for B in Xs] + [("fit", X, None)]
        else:
            calls = [("fit", X, None), ("fit", X[::-1].copy(), None)]
        if r.random() < 0.5:
            kk = r.randint(1, len(calls))
            sk = None
            if r.random() < 0.4 and len(cls) > 1:
                sk = sorted(r.sample(range(len(cls)), r.randint(1, len(cls) - 1)))
            calls.insert(kk, ("pred", X[: max(1, n // 2)], sk))
        kw = dict(match_reset_func=reset if has_reset else None, match_tracking=mode, epsilon=eps)
        snaps, failed = [], None
        for op, B, sk in calls:
            try:
                with quiet():
                    if op == "fit":
                        f.fit(B, **kw)
                    elif op == "pfit":
                        f.partial_fit(B, **kw)
                    else:
                        p = f.predict(B) if sk is None else f.predict(B, skip_channels=list(sk))
                        snaps.append(("pred", [int(t) for t in p]))
                        continue
                snaps.append(("st", snap_fusion(f)))
            except Exception as e:
                failed = (op, e)
                break
        rep["calls"] = [(o, b, sk) for o, b, sk in calls]
        if failed:
            ctx.issue("violation", f"FusionART.{failed[0]}:{exc_enum(failed[1])}",
                      f"{failed[0]} raised {failed[1]!r} on validated data ({cls}, mode {mode}, reset {has_reset})", rep)
            continue
        ncat = len(f.W)
        cov.case((cls, sp, dims, gam, X.tolist(), mode, eps, style, parts, vt), nontrivial=ncat >= 2 and len(cls) >= 2)
        cov.hit(f"channels={len(cls)}")
        cov.hit(f"mode={mode}{'+reset' if has_reset else ''}")
        if log.min_gap < 1e-9:
            cov.hit("float-ambiguous-activation-gap(skipped)")
            continue
        total = sum(len(B) for o, B, _ in calls if o != "pred")
        hdr = f"fusion hist {mode} {q2s(eps)} {vt_str(vt, total)} {chans_str(cls, sp, dims, gam)}"
        cs = " # ".join(f"{op} {mat_q(B)}" + ("" if sk is None else " " + ints_str(sk)) for op, B, sk in calls)
        lines.append(hdr + " # " + cs)
        metas.append((i, snaps, rep))
        if i < 2:
            cov.sample({"hist": cls, "dims": dims, "gamma": gam, "mode": mode, "calls": [o for o, _, _ in calls], "n": n,
                        "labels": snaps[-1][1]["labels"] if snaps[-1][0] == "st" else None})
    outs = run_driver(lines)
    for line, out, (i, snaps, rep) in zip(lines, outs, metas):
        rep = dict(rep, line=line, model=out)
        got = out.split(" # ")
        if out == "bad-op" or len(got) != len(snaps):
            ctx.issue("diff", "fusion-hist:protocol", f"case {i}: model output {out[:80]}", rep)
            continue
        ok = True
        for k, (g, s) in enumerate(zip(got, snaps)):
            if s[0] == "pred":
                mp = parse_optnats(g[len("pred="):])
                if mp != s[1]:
                    ctx.issue("diff", "fusion-hist:predict", f"case {i} call {k}: impl {s[1]} model {mp}", rep)
                    ok = False
                    break
                cov.hit("hist-pred")
                continue
            if not compare_state(ctx, "fusion-hist", i, k, g, s[1], rep):
                ok = False
                break
            cov.hit("hist-call-ok")
        if ok:
            cov.traces += 1


# ------------------------------------------------------------------ oracle helpers


def train(f, X, r, mode="MT+", eps=0.0, vt=None):
    """one fit or a random batching of partial_fit; returns False when training raised"""
    counter = {"i": 0}
    o_step = f.step_fit

    def step(x, *a, _o=o_step, _c=counter, **kw):
        try:
            return _o(x, *a, **kw)
        finally:
            _c["i"] += 1
    object.__setattr__(f, "step_fit", step)

    def reset(i_, w_, c_, params=None, cache=None):
        return not vt[counter["i"]][c_]
    kw = dict(match_reset_func=reset if vt is not None else None, match_tracking=mode, epsilon=eps)
    parts = gen.compositions(r, len(X))
    with quiet(), time_limit(20):
        if len(parts) == 1 and r.random() < 0.5:
            f.fit(X, **kw)
        else:
            for B in gen.split(X, parts):
                f.partial_fit(B, **kw)
    return parts


def bare_replay(spec, Xk, labels, mode):
    """a bare module of the same class fed the channel slice with the given winner sequence,
    driving `new_weight` / `update` directly"""
    m = make(deepcopy(spec))
    op = operator.gt if mode in ("MT0", "MT~") else operator.ge
    with quiet():
        m.validate_data(Xk)
        m.W = []
        for x, c in zip(Xk, labels):
            if c == len(m.W):
                m.add_weight(m.new_weight(x, m.params))
            else:
                w = m.W[c]
                _, cache = m.category_choice(x, w, params=m.params)
                _, cache = m.match_criterion_bin(x, w, params=m.params, cache=cache, op=op)
                m.set_weight(c, m.update(x, w, m.params, cache=cache))
    return m


def same_W(A, B) -> bool:
    return len(A) == len(B) and all(
        np.asarray(a).shape == np.asarray(b).shape and np.array_equal(np.asarray(a, dtype=float), np.asarray(b, dtype=float), equal_nan=True)
        for a, b in zip(A, B))


def f07_sig(cls):
    bad = [c for c in cls if c in LONG]
    return f"FusionART({bad[0]}):weight-longer-than-channel" if bad else None


# ------------------------------------------------------------------ oracle: channel-wise learning, public functions


def oracle_channelwise(ctx, N, nmax):
    cov = ctx.cov
    kern_lines, kern_meta = [], []
    for i in range(N):
        r = gen.rng_for(ctx.seed, "C10-chan", i)
        long_case = i % 3 == 2
        if long_case:
            # one class with a longer weight somewhere among Fuzzy/ART2A channels (or alone)
            k = r.randint(1, 3)
            pos = r.randrange(k)
            lc = LONG[(i // 3) % len(LONG)]
            cls = [lc if j == pos else r.choice(EXACT_CH) for j in range(k)]
            ds = [r.randint(1, 2) for _ in range(k)]
            sp = [specs.elem_spec(r, c, specs.width(c, d) if c != "FuzzyART" else d) for c, d in zip(cls, ds)]
            dims = [specs.width(c, d) for c, d in zip(cls, ds)]
            gam = list(r.choice(GAMMAS[k]))
        else:
            cls, ds, sp, dims, gam = gen_channels(r, 1, 4)
        floats = r.random() < 0.3
        n = r.randint(2, nmax)
        Xc = channel_data(r, cls, ds, n, floats=floats)
        X = np.hstack(Xc)
        mode = r.choice(MODES)
        eps = r.choice([0.0, 2.0 ** -20, 2.0 ** -10, 0.125])
        vt = gen.veto_table(r, n + 2, n + 3) if r.random() < 0.4 else None
        spec = fusion_spec(sp, dims, gam)
        rep = {"spec": spec, "classes": cls, "mode": mode, "eps": eps, "veto": vt, "X": X}
        sig07 = f07_sig(cls)
        off = np.cumsum([0] + dims)
        try:
            f = make(spec)
            parts = train(f, X, r, mode, eps, vt)
            rep["parts"] = parts
        except Exception as e:
            # is it the FusionART, or does one of the modules fail on its own slice as well?
            culprit = None
            for k_, (c_, s_) in enumerate(zip(cls, sp)):
                try:
                    with quiet(), time_limit(20):
                        make(deepcopy(s_)).fit(X[:, off[k_]:off[k_ + 1]])
                except Exception:
                    culprit = c_
            cov.case((cls, sp, dims, gam, X.tolist(), mode, eps, vt), False)
            if culprit:
                cov.hit(f"module-itself-raises:{culprit}")
            else:
                ctx.issue("violation", sig07 or f"FusionART.fit:{exc_enum(e)}",
                          f"training raised {e!r} although every module trains on its own slice ({cls}, dims {dims})", rep)
            continue
        labels = [int(t) for t in f.labels_]
        ncat = len(f.modules[0].W)
        cov.case((cls, sp, dims, gam, X.tolist(), mode, eps, vt), ncat >= 2 and len(cls) >= 2)
        cov.hit(f"oracle-classes:{'+'.join(sorted(set(cls)))}" if long_case else "oracle-exact-classes")
        # equal counts, W = concatenation
        counts = [len(m.W) for m in f.modules]
        if len(set(counts)) != 1 or f.n_clusters != counts[0] or len(f.W) != counts[0]:
            ctx.issue("violation", sig07 or "FusionART:category-counts-differ",
                      f"modules hold {counts} categories, n_clusters {f.n_clusters}, |W| {len(f.W)}", rep)
            continue
        Wf = f.W
        if any(not np.array_equal(np.asarray(Wf[c], dtype=float),
                                  np.concatenate([np.asarray(m.W[c], dtype=float) for m in f.modules]), equal_nan=True)
               for c in range(ncat)):
            ctx.issue("violation", "FusionART.W:not-concatenation", "W[c] differs from the concatenated module weights", rep)
        cnts = [[int(t) for t in m.weight_sample_counter_] for m in f.modules]
        hist = np.bincount(labels, minlength=ncat).tolist()
        if any(c != hist for c in cnts):
            ctx.issue("violation", "FusionART:module-counters!=label-histogram", f"counters {cnts} histogram {hist}", rep)
        # every channel stores what its module alone would compute
        bad_ch = None
        for k_, (c_, s_) in enumerate(zip(cls, sp)):
            Xk = X[:, off[k_]:off[k_ + 1]]
            try:
                b = bare_replay(s_, Xk, labels, mode)
            except Exception as e:
                bad_ch = (k_, f"bare replay raised {e!r}")
                break
            if not same_W(f.modules[k_].W, b.W):
                lens = (len(f.modules[k_].W[0]), len(b.W[0])) if b.W and f.modules[k_].W else None
                bad_ch = (k_, f"modules[{k_}].W differs from the bare {c_} fed the same slice and winners "
                              f"(stored length, own length) = {lens}")
                break
            cov.hit("channel-equals-bare-module")
        if bad_ch:
            ctx.issue("violation", sig07 or f"FusionART({cls[bad_ch[0]]}):channel-weight!=module-rule", bad_ch[1],
                      dict(rep, channel=bad_ch[0]))
            continue
        if sig07:
            cov.hit(f"longer-weight-channel-ok:{[c for c in cls if c in LONG][0]}")
        # public category_choice / match_criterion_bin
        gam_ = f.params["gamma_values"]
        op = operator.gt if mode in ("MT0", "MT~") else operator.ge
        for q in range(min(3, n)):
            x = X[r.randrange(n)]
            c = r.randrange(ncat)
            w = np.asarray(Wf[c], dtype=float)
            with quiet():
                T, cache = f.category_choice(x, w, f.params)
                mb, _ = f.match_criterion_bin(x, w, f.params, cache=deepcopy(cache), op=op)
                terms, bins = [], []
                for k_, m in enumerate(f.modules):
                    xk = x[off[k_]:off[k_ + 1]]
                    tk, ck = m.category_choice(xk, m.W[c], m.params)
                    bk, _ = m.match_criterion_bin(xk, m.W[c], m.params, cache=ck, op=op)
                    terms.append(tk * gam_[k_])
                    bins.append(bool(bk))
            st_ = float(sum(terms))
            # the order in which the weighted terms are added is not part of the statement: compare up to rounding
            if not (abs(float(T) - st_) <= 1e-12 * max(1.0, abs(st_))) and not (T != T and st_ != st_):
                ctx.issue("violation", "FusionART.category_choice:!=gamma-weighted-sum",
                          f"category_choice {T!r} vs sum of gamma*module choice {sum(terms)!r}", dict(rep, x=x, c=c))
            if bool(mb) != all(bins):
                ctx.issue("violation", "FusionART.match_criterion_bin:!=all-channels",
                          f"match_criterion_bin {mb} vs module tests {bins}", dict(rep, x=x, c=c))
            cov.hit("public-choice-and-bin")
            # the same with withheld channels (any classes): a skipped channel contributes 1.0 * its own gamma and
            # passes vigilance; every presented channel keeps ITS gamma and its module's own test
            if len(cls) > 1:
                sk_ = sorted(r.sample(range(len(cls)), r.randint(1, len(cls) - 1)))
                with quiet():
                    Tsk, cache_sk = f.category_choice(x, w, f.params, skip_channels=list(sk_))
                    mbsk, _ = f.match_criterion_bin(x, w, f.params, cache=deepcopy(cache_sk), op=op, skip_channels=list(sk_))
                want = float(sum((1.0 * gam_[k_]) if k_ in sk_ else terms[k_] for k_ in range(len(cls))))
                if not (abs(float(Tsk) - want) <= 1e-12 * max(1.0, abs(want))) and not (Tsk != Tsk and want != want):
                    ctx.issue("violation", "FusionART.category_choice:skip:!=gamma-weighted-sum-of-presented-channels",
                              f"skip {sk_}: category_choice {Tsk!r} vs sum over channels of gamma_k * (1 if skipped else module choice) "
                              f"{want!r} (gammas {list(gam_)})", dict(rep, x=x, c=c, skip=sk_))
                if bool(mbsk) != all(b_ for k_, b_ in enumerate(bins) if k_ not in sk_):
                    ctx.issue("violation", "FusionART.match_criterion_bin:skip:!=all-presented-channels",
                              f"skip {sk_}: match_criterion_bin {mbsk} vs module tests {bins}", dict(rep, x=x, c=c, skip=sk_))
                cov.hit("public-choice-and-bin-skip")
            # tie of the public functions (exact classes, grid data), incl. skipped channels
            if not floats and all(c_ in EXACT_CH for c_ in cls) and all(s.get("beta", 1.0) == 1.0 for s in sp):
                sk = sorted(r.sample(range(len(cls)), r.randint(0, len(cls) - 1))) if len(cls) > 1 and r.random() < 0.5 else []
                with quiet():
                    Ts, cache_s = f.category_choice(x, w, f.params, skip_channels=sk)
                    mbs, cache_b = f.match_criterion_bin(x, w, f.params, cache=cache_s, op=op, skip_channels=sk)
                Ms = [float(cache_b[k_]["match_criterion"]) for k_ in range(len(cls))]
                kern_lines.append(f"fusion kern {mode} {chans_str(cls, sp, dims, gam)} {ints_str(sk)} {vec_q(x)} {vec_q(w)}")
                kern_meta.append((i, float(Ts), bool(mbs), Ms, sk, dict(rep, x=x, w=w, skip=sk)))
        if i < 2:
            cov.sample({"oracle": cls, "dims": dims, "gamma": gam, "labels": labels})
    outs = run_driver(kern_lines)
    for line, out, (i, T, mb, Ms, sk, rep) in zip(kern_lines, outs, kern_meta):
        rep = dict(rep, line=line, model=out)
        if not out.startswith("T="):
            ctx.issue("diff", "fusion-kern:protocol", f"case {i}: {out[:80]}", rep)
            continue
        kv = parse_kv(out)
        if kv["T"] == "nan" or not close(T, Fraction(kv["T"])):
            ctx.issue("diff", "fusion-kern:choice", f"case {i}: impl {T!r} model {kv['T']}", rep)
            continue
        if (kv["bin"] == "1") != mb:
            ctx.issue("diff", "fusion-kern:match-bin", f"case {i}: impl {mb} model {kv['bin']}", rep)
            continue
        mm = parse_vec_q(kv["M"])
        if any(k_ not in sk and not close(Ms[k_], mm[k_]) for k_ in range(len(Ms))):
            ctx.issue("diff", "fusion-kern:match-values", f"case {i}: impl {Ms} model {kv['M']}", rep)
            continue
        ctx.cov.hit("kern-ok" + ("-skip" if sk else ""))
        ctx.cov.traces += 1


# ------------------------------------------------------------------ oracle: one channel, gamma = 1


def oracle_single(ctx, N, nmax):
    cov = ctx.cov
    for i in range(N):
        r = gen.rng_for(ctx.seed, "C10-single", i)
        c = specs.ELEM[i % len(specs.ELEM)]
        d = r.randint(1, 3)
        sp = specs.elem_spec(r, c, specs.width(c, d) if c != "FuzzyART" else d)
        n = r.randint(2, nmax)
        floats = r.random() < 0.3
        X = specs.elem_data(r, c, n, d, floats=floats and c != "ART1")
        mode = r.choice(MODES)
        eps = r.choice([0.0, 2.0 ** -20, 2.0 ** -10, 0.125])
        vt = gen.veto_table(r, n + 2, n + 3) if r.random() < 0.4 else None
        # gamma_values may be given as Python ints or an integer array (a one-hot weighting passes validation)
        gam1 = r.choice([[1.0], [1.0], [1], np.array([1])])
        spec = fusion_spec([sp], [X.shape[1]], [1.0])
        spec["gamma_values"] = gam1
        if not isinstance(gam1[0], float):
            cov.hit("integer-typed-gamma")
        rep = {"spec": spec, "class": c, "mode": mode, "eps": eps, "veto": vt, "X": X}
        sig07 = f07_sig([c])
        # identical batching for both
        r1, r2 = gen.rng_for(ctx.seed, "C10-single-b", i), gen.rng_for(ctx.seed, "C10-single-b", i)
        try:
            b = make(deepcopy(sp))
            train(b, X, r1, mode, eps, vt)
        except Exception as e:
            cov.hit(f"bare-raised:{c}:{exc_enum(e)}")
            continue
        try:
            f = make(spec)
            train(f, X, r2, mode, eps, vt)
        except Exception as e:
            ctx.issue("violation", sig07 or f"FusionART([{c}]).fit:{exc_enum(e)}",
                      f"one-channel FusionART raised {e!r} where the bare {c} trains", rep)
            cov.case((c, sp, X.tolist(), mode, eps, vt), False)
            continue
        lf, lb = [int(t) for t in f.labels_], [int(t) for t in b.labels_]
        cov.case((c, sp, X.tolist(), mode, eps, vt), len(b.W) >= 2)
        cov.hit(f"single:{c}")
        if lf != lb or not same_W(f.modules[0].W, b.W) or not same_W(f.W, b.W):
            ctx.issue("violation", sig07 or f"FusionART([{c}]):one-channel!=bare-module",
                      f"labels {lf} vs bare {lb}; weights equal: {same_W(f.modules[0].W, b.W)}", rep)
            continue
        with quiet():
            q = X[: max(1, n // 2)]
            if [int(t) for t in f.predict(q)] != [int(t) for t in b.predict(q)]:
                ctx.issue("violation", f"FusionART([{c}]).predict:one-channel!=bare-module", "predictions differ", rep)
        cov.hit("single-equals-bare")


# ------------------------------------------------------------------ oracle: channel permutation


def oracle_perm(ctx, N, nmax):
    cov = ctx.cov
    for i in range(N):
        r = gen.rng_for(ctx.seed, "C10-perm", i)
        cls, ds, sp, dims, gam = gen_channels(r, 2, 4)
        floats = r.random() < 0.35
        n = r.randint(2, nmax)
        Xc = channel_data(r, cls, ds, n, floats=floats)
        mode = r.choice(MODES)
        eps = r.choice([0.0, 2.0 ** -20, 2.0 ** -10, 0.125])
        vt = gen.veto_table(r, n + 2, n + 3) if r.random() < 0.4 else None
        k = len(cls)
        if r.random() < 0.5:
            j = r.randrange(k - 1)
            perm = list(range(k))
            perm[j], perm[j + 1] = perm[j + 1], perm[j]
        else:
            perm = list(range(k))
            r.shuffle(perm)
        rep = {"classes": cls, "specs": sp, "dims": dims, "gamma": gam, "perm": perm, "mode": mode, "eps": eps,
               "veto": vt, "X": np.hstack(Xc)}
        runs = []
        gap = np.inf
        failed = False
        for order in (list(range(k)), perm):
            spec = fusion_spec([sp[j] for j in order], [dims[j] for j in order], [gam[j] for j in order])
            X = np.hstack([Xc[j] for j in order])
            rr = gen.rng_for(ctx.seed, "C10-perm-b", i)
            try:
                f = make(spec)
                log = ActLog(f)
                train(f, X, rr, mode, eps, vt)
            except Exception as e:
                ctx.issue("violation", f"FusionART.fit:{exc_enum(e)}", f"training raised {e!r}", rep)
                failed = True
                break
            gap = min(gap, log.min_gap)
            try:
                with quiet():
                    runs.append(([int(t) for t in f.labels_], [int(t) for t in f.predict(X[: max(1, n // 2)])],
                                 [[np.asarray(w, dtype=float) for w in f.modules[order.index(j)].W] for j in range(k)]))
            except Exception as e:
                ctx.issue("violation", f"FusionART.predict:{exc_enum(e)}", f"predict on training rows raised {e!r}", rep)
                failed = True
                break
        if failed:
            continue
        cov.case((cls, sp, dims, gam, rep["X"].tolist(), perm, mode, eps, vt), len(runs[0][2][0]) >= 2 and perm != list(range(k)))
        if gap < 1e-9:
            cov.hit("perm-float-ambiguous(skipped)")
            continue
        cov.hit("perm-float" if floats else "perm-grid")
        if runs[0][0] != runs[1][0] or runs[0][1] != runs[1][1]:
            ctx.issue("violation", "FusionART:channel-permutation-changes-labels",
                      f"labels {runs[0][0]} vs {runs[1][0]} after permuting channels by {perm}; predictions "
                      f"{runs[0][1]} vs {runs[1][1]}", rep)
            continue
        if any(not same_W(a, b) for a, b in zip(runs[0][2], runs[1][2])):
            ctx.issue("violation", "FusionART:channel-permutation-changes-weights",
                      "per-module weights differ after permuting channels", rep)


# ------------------------------------------------------------------ oracle: gamma_values re-configured after construction
#
# The activation ratios are a hyper-parameter like any other: besides the constructor and `set_params`, BaseART routes
# plain attribute assignment (`f.gamma_values = [...]`) into `f.params`, and `f.params['gamma_values']` is a public,
# mutable container.  Whatever the route and whenever it happens (before the first training, between two `fit`s, between
# two `partial_fit`s), the statement is about the gamma vector the estimator *holds* (= reports through `get_params`):
# every activation computed during and after training is the sum of reported gamma_k * module activation, and the
# clustering is that of a FusionART constructed with that vector.

GAMMA_ROUTES = ["attr", "params-item", "params-inplace", "set_params"]
GAMMA_MOMENTS = ["before-training", "between-fits", "between-partial-fits"]


def set_gamma(f, g, route, as_array=False):
    """re-configure the activation ratios of a live FusionART through one of the public routes"""
    val = np.array(g, dtype=float) if as_array else [float(t) for t in g]
    with quiet():
        if route == "attr":
            f.gamma_values = val
        elif route == "params-item":
            f.params["gamma_values"] = val
        elif route == "params-inplace":
            cur = f.params["gamma_values"]      # the container the estimator holds, mutated element by element
            for j, t in enumerate(val):
                cur[j] = float(t)
        else:
            f.set_params(gamma_values=val)


def reported_gamma(f):
    with quiet():
        return [float(t) for t in f.get_params()["gamma_values"]]


class ChoiceLog:
    """records every fused activation computed while training together with the module activations it was
    summed from and the gamma vector in force (set by the driver) — on top of an ActLog"""

    def __init__(self, f):
        self.act = f.__dict__.get("_actlog") or ActLog(f)
        self.gamma = None
        self.calls = []        # (gamma in force, x, w, T, terms)
        inner = f.category_choice
        log = self

        def category_choice(i, w, params, **kw):
            T, c = inner(i, w, params, **kw)
            if log.gamma is not None and not kw.get("skip_channels"):
                log.calls.append((log.gamma, np.array(i, dtype=float), np.array(w, dtype=float)) + log.act.last)
            return T, c
        object.__setattr__(f, "category_choice", category_choice)


def wsum_ok(T, want) -> bool:
    T, want = float(T), float(want)
    return abs(T - want) <= 1e-12 * max(1.0, abs(want)) or (T != T and want != want)


def drive(f, prog, mode, eps, vt, log=None):
    """run a program of ("fit", X) / ("pfit", X) / ("gamma", (values, route, as_array)) on one estimator;
    the veto table is indexed by the number of samples presented since the last fit began"""
    counter = {"i": 0}
    o_step = f.step_fit

    def step(x, *a, _o=o_step, _c=counter, **kw):
        try:
            return _o(x, *a, **kw)
        finally:
            _c["i"] += 1
    object.__setattr__(f, "step_fit", step)

    def reset(i_, w_, c_, params=None, cache=None):
        return not vt[counter["i"]][c_]
    kw = dict(match_reset_func=reset if vt is not None else None, match_tracking=mode, epsilon=eps)
    if log is not None:
        log.gamma = reported_gamma(f)
    with quiet(), time_limit(20):
        for op, arg in prog:
            if op == "fit":
                counter["i"] = 0       # fit starts from scratch, and so does the reset function's view of the stream
                f.fit(arg, **kw)
            elif op == "pfit":
                f.partial_fit(arg, **kw)
            else:
                set_gamma(f, *arg)
                if log is not None:
                    log.gamma = reported_gamma(f)
    if log is not None:
        log.gamma = None


def state_of(f, q):
    with quiet():
        return ([int(t) for t in f.labels_], [np.asarray(w, dtype=float) for w in f.W],
                [[np.asarray(w, dtype=float) for w in m.W] for m in f.modules], [int(t) for t in f.predict(q)])


def oracle_regamma(ctx, N, nmax):
    cov = ctx.cov
    for i in range(N):
        r = gen.rng_for(ctx.seed, "C10-regamma", i)
        if i % 3 == 2:
            k = r.randint(2, 3)
            pos = r.randrange(k)
            lc = LONG[(i // 3) % len(LONG)]
            cls = [lc if j == pos else r.choice(EXACT_CH) for j in range(k)]
            ds = [r.randint(1, 2) for _ in range(k)]
            sp = [specs.elem_spec(r, c, specs.width(c, d) if c != "FuzzyART" else d) for c, d in zip(cls, ds)]
            dims = [specs.width(c, d) for c, d in zip(cls, ds)]
            g0 = list(r.choice(GAMMAS[k]))
        else:
            cls, ds, sp, dims, g0 = gen_channels(r, 2, 4)
        k = len(cls)
        # the new vector: another weighting of the table, a rotation of the old one, or a one-hot vector
        hot = r.randrange(k)
        cand = [list(g) for g in GAMMAS[k]] + [g0[1:] + g0[:1]] + [[1.0 if j == hot else 0.0 for j in range(k)]]
        cand = [g for g in cand if g != g0 and sum(g) == 1.0]
        g1 = r.choice(cand)
        route = GAMMA_ROUTES[i % len(GAMMA_ROUTES)]
        moment = GAMMA_MOMENTS[(i // len(GAMMA_ROUTES)) % len(GAMMA_MOMENTS)]
        arr0, arr1 = r.random() < 0.3, r.random() < 0.3     # gamma_values held / assigned as a float array
        floats = r.random() < 0.5
        n = r.randint(2, nmax)
        X = np.hstack(channel_data(r, cls, ds, n, floats=floats))
        n1 = r.randint(1, n - 1)
        X1, X2 = X[:n1], X[n1:]
        mode = r.choice(MODES)
        eps = r.choice([0.0, 2.0 ** -20, 2.0 ** -10, 0.125])
        vt = gen.veto_table(r, 2 * n + 2, 2 * n + 3) if r.random() < 0.4 else None
        gam_op = ("gamma", (g1, route, arr1))
        other = r.choice([t for t in GAMMA_ROUTES if t != route])
        if moment == "before-training":
            tail = [("fit", X)] if r.random() < 0.5 else [("pfit", B) for B in gen.split(X, gen.compositions(r, n))]
            prog = [gam_op] + tail
            twin_g, twin_prog, twin_what = g1, tail, "a FusionART constructed with the new gamma_values"
        elif moment == "between-fits":
            # fit starts from scratch: what was learnt under the old weighting must not matter
            prog = [("fit", X1), gam_op, ("fit", X)]
            twin_g, twin_prog, twin_what = g1, [("fit", X)], "a FusionART constructed with the new gamma_values"
        else:
            prog = [("pfit", X1), gam_op, ("pfit", X2)]
            twin_g, twin_prog = g0, [("pfit", X1), ("gamma", (g1, other, arr1)), ("pfit", X2)]
            twin_what = f"the same history with the values handed over through the route '{other}'"
        spec = fusion_spec(sp, dims, g0)
        if arr0:
            spec["gamma_values"] = np.array(g0, dtype=float)
        tspec = fusion_spec(sp, dims, twin_g)
        rep = {"spec": spec, "classes": cls, "gamma_constructed": g0, "gamma_assigned": g1, "route": route, "moment": moment,
               "assigned_as_array": arr1, "program": prog, "mode": mode, "eps": eps, "veto": vt, "X": X,
               "twin": {"spec": tspec, "program": twin_prog}}
        sig07 = f07_sig(cls)
        off = np.cumsum([0] + dims)
        key = (cls, sp, dims, g0, g1, route, moment, arr0, arr1, X.tolist(), n1, mode, eps, vt)
        try:
            f = make(spec)
            log = ChoiceLog(f)
            drive(f, prog, mode, eps, vt, log)
            err = None
        except Exception as e:
            err = e
        try:
            t = make(tspec)
            drive(t, twin_prog, mode, eps, vt)
            terr = None
        except Exception as e:
            terr = e
        if err is not None or terr is not None:
            cov.case(key, False)
            if err is not None and terr is not None:
                cov.hit(f"regamma:both-raise:{exc_enum(err)}")      # a module's own failure: other clauses
            elif err is not None:
                ctx.issue("violation", sig07 or f"FusionART:gamma_values-reassigned({route},{moment}):{exc_enum(err)}",
                          f"training after re-assigning gamma_values {g0} -> {g1} raised {err!r}; {twin_what} trains", rep)
            else:
                ctx.issue("violation", sig07 or f"FusionART:gamma_values-reassigned({other},{moment}):{exc_enum(terr)}",
                          f"{twin_what} raised {terr!r}; the route '{route}' trains", rep)
            continue
        ncat = len(f.modules[0].W)
        cov.case(key, ncat >= 2)
        cov.hit(f"regamma:route={route}")
        cov.hit(f"regamma:moment={moment}")
        if arr1:
            cov.hit("regamma:assigned-as-array")
        if sig07:
            cov.hit("regamma:longer-weight-channel")
        # (0) what the estimator reports: get_params, the attribute and params agree, and it is what was handed over
        g_rep = reported_gamma(f)
        with quiet():
            views = [[float(v) for v in f.gamma_values], [float(v) for v in f.params["gamma_values"]]]
        if g_rep != [float(v) for v in g1] or any(v != g_rep for v in views):
            ctx.issue("violation", f"FusionART:gamma_values-reassigned({route}):not-reported",
                      f"gamma_values {g1} handed over by '{route}'; get_params reports {g_rep}, attribute / params {views}", rep)
            continue
        # (1) every activation computed while training = sum of (gamma in force) * module activation
        bad = next(((g, x, w, T, terms) for g, x, w, T, terms in log.calls
                    if len(terms) != k or not wsum_ok(T, sum(a * g_ for a, g_ in zip(terms, g)))), None)
        if bad:
            g, x, w, T, terms = bad
            ctx.issue("violation", f"FusionART.category_choice:gamma_values-reassigned({moment}):training-activation!=gamma-weighted-sum",
                      f"gamma_values {g0} -> {g1} by '{route}' ({moment}); while training, with the estimator reporting gamma {g}: "
                      f"activation {T!r} vs sum of gamma * module activations {terms} = {sum(a * g_ for a, g_ in zip(terms, g))!r}",
                      dict(rep, x=x, w=w))
        else:
            cov.hit("regamma:training-activations-ok")
        if len({tuple(g) for g, *_ in log.calls}) >= 2:
            cov.hit("regamma:both-weightings-used-in-one-history")
        # (2) the public function after training, every category, with and without withheld channels
        Wf = f.W
        ok = True
        for q in range(min(3, n)):
            x = X[r.randrange(n)]
            sk_ = sorted(r.sample(range(k), r.randint(1, k - 1)))
            for c in range(ncat):
                w = np.asarray(Wf[c], dtype=float)
                with quiet():
                    T, _ = f.category_choice(x, w, f.params)
                    Tsk, _ = f.category_choice(x, w, f.params, skip_channels=list(sk_))
                    terms = [float(m.category_choice(x[off[j]:off[j + 1]], m.W[c], m.params)[0]) for j, m in enumerate(f.modules)]
                want = sum(a * g_ for a, g_ in zip(terms, g_rep))
                want_sk = sum((1.0 if j in sk_ else terms[j]) * g_rep[j] for j in range(k))
                if not wsum_ok(T, want) or not wsum_ok(Tsk, want_sk):
                    ctx.issue("violation", "FusionART.category_choice:gamma_values-reassigned:!=gamma-weighted-sum",
                              f"gamma_values {g0} -> {g1} by '{route}' ({moment}), reported {g_rep}: category_choice {T!r} vs "
                              f"sum of gamma * module choice {want!r} (module activations {terms}); withholding {sk_}: {Tsk!r} vs {want_sk!r}",
                              dict(rep, x=x, c=c, skip=sk_))
                    ok = False
                    break
            if not ok:
                break
            cov.hit("regamma:public-choice")
        # (3) the clustering is that of an estimator holding the same modules and the same gamma vector
        q = X[: max(1, n // 2)]
        try:
            sf, st = state_of(f, q), state_of(t, q)
        except Exception as e:
            ctx.issue("violation", f"FusionART.predict:{exc_enum(e)}", f"predict on training rows raised {e!r}", rep)
            continue
        if sf[0] != st[0] or sf[3] != st[3]:
            ctx.issue("violation", f"FusionART:gamma_values-reassigned({moment}):clustering!=same-gamma-twin",
                      f"gamma_values {g0} -> {g1} by '{route}' ({moment}): labels {sf[0]} predictions {sf[3]}; {twin_what}: "
                      f"labels {st[0]} predictions {st[3]}", rep)
            continue
        if not same_W(sf[1], st[1]) or any(not same_W(a, b) for a, b in zip(sf[2], st[2])):
            ctx.issue("violation", f"FusionART:gamma_values-reassigned({moment}):weights!=same-gamma-twin",
                      f"gamma_values {g0} -> {g1} by '{route}' ({moment}): same labels as {twin_what}, different weights", rep)
            continue
        cov.hit("regamma:equals-same-gamma-twin")
        if i < 2:
            cov.sample({"regamma": cls, "gamma": [g0, g1], "route": route, "moment": moment, "labels": sf[0]})


# ------------------------------------------------------------------ oracle: the weighted sum at the last bit, ties
#
# The clauses above run on dyadic gammas / grid data (every float operation exact) or set float-ambiguous decisions
# aside.  Here nothing is exact: decimal gammas (0.3/0.7, 0.2/0.3/0.5, ...), decimal-grid data, decimal alpha / rho, and
# the generator *seeks* rows for which the two best categories tie exactly or within a few ulp (it scans the grid with
# the public `category_choice` of a model trained on the rows drawn so far), so that the last bit of the fused
# activation decides a label.  What the statement says there, executed on the implementation:
#   * "its activation is the gamma-weighted sum of the channel activations": every fused activation computed while
#     training and predicting is, bit for bit, the float sum of the products gamma_k * (module k's own
#     `category_choice`) — each product rounded, then added (left to right as the source does; any other order of the
#     additions is accepted as well: with two channels they all coincide);
#   * "permuting the channels together with their gamma values and widths does not change the clustering": with two
#     channels, or when the permutation only swaps the first two channels, float addition being commutative the fused
#     activations of the two models are the same doubles, so labels, predictions on the tie rows and per-channel weights
#     must agree *including* the tied decisions.  A permutation that changes the order of the additions of >= 3 terms is
#     reported under its own signature (the float sum is then order dependent in the last bit).

DEC_GAMMAS = {
    2: [[0.3, 0.7], [0.7, 0.3], [0.4, 0.6], [0.1, 0.9], [0.2, 0.8], [0.35, 0.65], [0.45, 0.55]],
    3: [[0.2, 0.3, 0.5], [0.5, 0.3, 0.2], [0.3, 0.2, 0.5], [0.1, 0.3, 0.6], [0.2, 0.2, 0.6], [0.3, 0.3, 0.4], [0.1, 0.2, 0.7]],
    4: [[0.1, 0.2, 0.3, 0.4], [0.4, 0.3, 0.2, 0.1], [0.2, 0.2, 0.3, 0.3], [0.1, 0.1, 0.3, 0.5]],
}


def float_sums(prods):
    """every double a float sum of the given (already rounded) products can be: Python's builtin `sum` (compensated for
    exact floats since 3.12, plain `+` for numpy scalars: the objects are kept as the modules returned them) and the
    plain left-to-right `+`, over every order of the terms; pairwise for four terms; the correctly rounded sum"""
    import functools
    import itertools
    import math
    out = set()
    for p in itertools.permutations(list(prods)):
        out.add(float(sum(list(p))))
        out.add(functools.reduce(operator.add, [float(t) for t in p], 0.0))
    fl = [float(t) for t in prods]
    if len(fl) == 4:
        a, b, c, d = fl
        out |= {(a + b) + (c + d), (a + c) + (b + d), (a + d) + (b + c)}
    out.add(math.fsum(fl))
    return out


class RawLog:
    """every fused activation computed while `on`, together with the very objects the modules' own category_choice
    returned for it (numpy scalars or Python floats: Python's `sum` treats them differently in the last bit)"""

    def __init__(self, f):
        self.on = False
        self.calls = []        # (x, w, T, [(channel, module activation)], skipped channels)
        self._terms = None
        log = self
        for k_, m in enumerate(f.modules):
            def cc(i, w, params, _o=m.category_choice, _k=k_):
                T, c = _o(i, w, params)
                if log._terms is not None:
                    log._terms.append((_k, T))
                return T, c
            object.__setattr__(m, "category_choice", cc)
        inner = f.category_choice

        def category_choice(i, w, params, **kw):
            outer, log._terms = log._terms, []
            try:
                T, c = inner(i, w, params, **kw)
                terms = log._terms
            finally:
                log._terms = outer
            if log.on:
                log.calls.append((np.array(i, dtype=float), np.array(w, dtype=float), T, terms, list(kw.get("skip_channels") or [])))
            return T, c
        object.__setattr__(f, "category_choice", category_choice)


def same_double(a: float, b: float) -> bool:
    return (a != a and b != b) or (a == b and np.signbit(a) == np.signbit(b))


def ulp_spec(r, c, d):
    if c == "FuzzyART":
        rho = r.choice([0.0, 0.3, 0.5, 0.6, 0.7, 0.8])
        # rho = 0 with alpha = 0 is outside the property's standing assumption (a weight may collapse to zero: 0/0)
        alpha = r.choice([0.0, 0.01, 0.001, 0.1, 1e-10, 0.01] if rho > 0 else [0.01, 0.001, 0.1, 1e-10])
        return {"cls": c, "rho": rho, "alpha": alpha, "beta": r.choice([1.0, 1.0, 1.0, 0.5])}
    return {"cls": c, "rho": r.choice([0.0, 0.3, 0.5, 0.8]), "alpha": r.choice([0.0, 0.01, 0.1]), "beta": r.choice([1.0, 1.0, 0.5])}


def enc_rows(cls, J, den):
    """index rows (one list of grid indices per channel) -> data rows: value j/den, complement coded for FuzzyART"""
    cols = []
    for kk, c in enumerate(cls):
        raw = np.array([[j / den for j in row[kk]] for row in J], dtype=float).reshape(len(J), -1)
        cols.append(gen.cc(raw) if c == "FuzzyART" else raw)
    return np.hstack(cols)


def rand_row(r, ds, den, pools=None):
    return [[r.choice(pools[kk]) if pools and pools[kk] else r.randint(0, den) for _ in range(d)] for kk, d in enumerate(ds)]


def twin_family(r, cls, ds, den, pools, sp):
    """two founders that agree in every channel but one, where they sit symmetrically around a third value, and probes
    at that centre: in exact arithmetic a probe is equally close to both founders (the example of the statement's
    weighted sum: overlaps 0.7 and 0.4+0.3), in floats equal or one ulp apart.  Where the grid allows, the founders are
    too far apart for that channel's vigilance to merge them and the centre is close enough to resonate with either."""
    fz = [kk for kk, c in enumerate(cls) if c == "FuzzyART" and sp[kk]["rho"] > 0] or \
         [kk for kk, c in enumerate(cls) if c == "FuzzyART"]
    kb = r.choice(fz) if fz else r.randrange(len(cls))
    slack = (1.0 - sp[kb]["rho"]) * den          # founders farther apart than this do not merge (FuzzyART, one column)
    base = rand_row(r, ds, den, pools)
    j1 = [r.randint(0, den) for _ in range(ds[kb])]
    j2 = []
    for t in j1:
        same = [v for v in range(den + 1) if v % 2 == t % 2 and v != t] or [t]
        good = [v for v in same if slack < abs(v - t) <= 2 * slack]
        j2.append(r.choice(good if good and r.random() < 0.85 else same))
    mid = [(a + b) // 2 for a, b in zip(j1, j2)]
    out = []
    for jb in (j1, j2):
        row = deepcopy(base)
        row[kb] = list(jb)
        out.append(row)
    for _ in range(r.randint(1, 2)):
        row = deepcopy(base) if r.random() < 0.6 else rand_row(r, ds, den, pools)
        row[kb] = list(mid)
        out.append(row)
    return out


def centre_rows(r, J, ds, den, m):
    """m index rows built from pairs of rows already drawn: channel by channel the centre of the two (where the grid has
    one), else the value of the first"""
    out = []
    for _ in range(m):
        a, b = r.choice(J), r.choice(J)
        out.append([[(u + v) // 2 if (u + v) % 2 == 0 else u for u, v in zip(a[kk], b[kk])] if r.random() < 0.7 else list(a[kk])
                    for kk in range(len(ds))])
    return out


def tie_rows(f, log, cands, r, ulps=4):
    """rows of `cands` for which the two largest fused activations of the trained `f` are within `ulps` ulp although
    they are summed from different module activations (found with the public category_choice only);
    returns (rows with an exact tie, rows with a near tie)"""
    import math
    W = f.W
    if len(W) < 2:
        return [], []
    exact, near = [], []
    with quiet():
        for x in cands:
            T = []
            for w in W:
                f.category_choice(x, w, f.params)
                T.append(log.last)
            live = sorted((t for t in T if t[0] == t[0]), reverse=True)
            if len(live) < 2:
                continue
            (a, ta), (b, tb) = live[0], live[1]
            if ta == tb:
                continue            # the same activations channel by channel: no rounding can tell them apart
            if a == b:
                exact.append(x)
            elif a - b <= ulps * math.ulp(a):
                near.append(x)
    r.shuffle(exact)
    r.shuffle(near)
    return exact, near


def tied_decisions(calls, ulps=4):
    """(exact, near): arg-max decisions (consecutive activations of one presented row) whose two best categories are
    equal / within `ulps` ulp although summed from different module activations"""
    import math
    exact = near = 0
    groups, key = [], None
    for x, w, T, terms, skipped in calls:
        kx = (x.tobytes(), tuple(skipped))
        if kx != key:
            groups.append([])
            key = kx
        groups[-1].append((float(T), tuple(float(a) for _, a in terms)))
    for g in groups:
        live = sorted((t for t in g if t[0] == t[0]), reverse=True)
        if len(live) < 2 or live[0][1] == live[1][1]:
            continue
        a, b = live[0][0], live[1][0]
        if a == b:
            exact += 1
        elif a - b <= ulps * math.ulp(a):
            near += 1
    return exact, near


def oracle_ulp(ctx, N, nmax, NC=24):
    cov = ctx.cov
    for i in range(N):
        r = gen.rng_for(ctx.seed, "C10-ulp", i)
        k = r.choice([2, 2, 2, 3, 3, 4])
        cls = [r.choice(["FuzzyART", "FuzzyART", "FuzzyART", "ART2A"]) for _ in range(k)]
        ds = [2 if c == "ART2A" else r.choice([1, 1, 1, 2]) for c in cls]
        sp = [ulp_spec(r, c, d) for c, d in zip(cls, ds)]
        dims = [specs.width(c, d) for c, d in zip(cls, ds)]
        den = r.choice([10, 10, 10, 5, 20])
        if r.random() < 0.5:
            perm = [1, 0] + list(range(2, k))
        else:
            perm = list(range(k))
            while perm == list(range(k)):
                r.shuffle(perm)
        gam = next(g for g in (list(r.choice(DEC_GAMMAS[k])) for _ in range(50))
                   if sum(g) == 1.0 and sum(g[j] for j in perm) == 1.0)
        commutes = k == 2 or perm[2:] == list(range(2, k))     # only the first two terms change places: same doubles
        mode = r.choice(MODES)
        eps = r.choice([0.0, 0.0, 1e-10, 0.001])
        # rows are drawn as grid indices: a few random rows, then "twin" families (see twin_family), lightly shuffled;
        # some channels take few distinct values (categories then share a channel weight)
        pools = [r.choice([None, None, 2, 3]) for _ in range(k)]
        pools = [r.sample(range(den + 1), p) if p else None for p in pools]
        J = [rand_row(r, ds, den, pools) for _ in range(r.randint(0, 2))]
        for _ in range(r.randint(1, 3)):
            fam = twin_family(r, cls, ds, den, pools, sp)
            J += fam[:2]
            for row in fam[2:]:
                J.insert(r.randint(len(J) - (1 if r.random() < 0.3 else 0), len(J)), row)
            if r.random() < 0.5:
                J.append(rand_row(r, ds, den, pools))
        J = J[:max(4, nmax - 3)]
        X = enc_rows(cls, J, den)
        spec = fusion_spec(sp, dims, gam)
        kw = dict(match_reset_func=None, match_tracking=mode, epsilon=eps)
        # --- seek rows on which the last bit decides: train on the rows drawn, scan grid rows and centres of pairs of
        # drawn rows with the public category_choice, append one exact and one near tie, train on, scan again
        n_exact = n_near = 0
        ties = []
        try:
            f = make(spec)
            alog = ActLog(f)
            with quiet(), time_limit(20):
                f.fit(X, **kw)
            for _ in range(2):
                cands = enc_rows(cls, [rand_row(r, ds, den) for _ in range(NC // 3)] + centre_rows(r, J, ds, den, NC), den)
                ex, nr = tie_rows(f, alog, cands, r)
                n_exact, n_near = n_exact + len(ex), n_near + len(nr)
                ties += ex + nr
                got = (nr[:1] + ex[:1]) if r.random() < 0.5 else (ex[:1] + nr[:1])
                if not got:
                    continue
                B = np.array(got, dtype=float)
                X = np.vstack([X, B])
                with quiet(), time_limit(20):
                    f.partial_fit(B, **kw)
            r.shuffle(ties)
            ties = ties[:16]
        except Exception as e:
            ctx.issue("violation", f"FusionART.fit:{exc_enum(e)}", f"training raised {e!r} ({cls}, gamma {gam})",
                      {"spec": spec, "mode": mode, "eps": eps, "X": X})
            continue
        n = len(X)
        off = np.cumsum([0] + dims)
        Xc = [X[:, off[j]:off[j + 1]] for j in range(k)]
        Q = np.vstack([X] + ([np.array(ties, dtype=float)] if ties else []))
        Qc = [Q[:, off[j]:off[j + 1]] for j in range(k)]
        rep = {"classes": cls, "specs": sp, "dims": dims, "gamma": gam, "perm": perm, "mode": mode, "eps": eps,
               "X": X, "queries": Q, "tie_rows": np.array(ties, dtype=float) if ties else None}
        runs, failed = [], False
        bad = None
        n_other_order = d_exact = d_near = 0
        for order in (list(range(k)), perm):
            g_o = [gam[j] for j in order]
            spec_o = fusion_spec([sp[j] for j in order], [dims[j] for j in order], g_o)
            X_o = np.hstack([Xc[j] for j in order])
            Q_o = np.hstack([Qc[j] for j in order])
            rr = gen.rng_for(ctx.seed, "C10-ulp-b", i)
            try:
                f = make(spec_o)
                log = RawLog(f)
                log.on = True
                train(f, X_o, rr, mode, eps, None)
                with quiet():
                    pred = [int(t) for t in f.predict(Q_o)]
                    if k > 2:      # withheld channels count 1.0 * their gamma
                        sk_ = sorted(rr.sample(range(k), rr.randint(1, k - 1)))
                        f.predict(Q_o[: 4], skip_channels=list(sk_))
                log.on = False
            except Exception as e:
                ctx.issue("violation", f"FusionART.fit:{exc_enum(e)}", f"training / predicting raised {e!r}", dict(rep, order=order))
                failed = True
                break
            runs.append(([int(t) for t in f.labels_], pred,
                         [[np.asarray(w, dtype=float) for w in f.modules[order.index(j)].W] for j in range(k)]))
            if order == list(range(k)):
                d_exact, d_near = tied_decisions(log.calls)
            # every activation computed = float sum of the rounded products gamma_k * module activation
            g_held = f.params["gamma_values"]
            for x, w, T, terms, skipped in log.calls:
                acts = [1.0] * k
                for j, a in terms:
                    acts[j] = a
                if len(terms) + len(skipped) != k:
                    continue
                prods = [a * g_held[j] for j, a in enumerate(acts)]
                want = float(sum(prods))
                if same_double(float(T), want):
                    continue
                if any(same_double(float(T), v) for v in float_sums(prods)):
                    n_other_order += 1
                    continue
                if bad is None:
                    bad = (order, [float(t) for t in g_held], x, w, float(T), [float(a) for a in acts], want, skipped)
            cov.hit("ulp:activations-compared-bitwise")
        if failed:
            continue
        ncat = len(runs[0][2][0])
        cov.case((cls, sp, dims, gam, X.tolist(), perm, mode, eps), ncat >= 2)
        cov.hit(f"ulp:channels={k}")
        if n_exact:
            cov.hit("ulp:sought:exact-tie-of-the-two-best-categories")
        if n_near:
            cov.hit("ulp:sought:two-best-categories-within-4-ulp")
        if d_exact:
            cov.hit("ulp:decided:exact-tie-of-the-two-best-categories(different-module-activations)")
        if d_near:
            cov.hit("ulp:decided:two-best-categories-within-4-ulp")
        if ties:
            cov.hit("ulp:tie-row-trained-and-queried")
        if any(s["alpha"] != 0.0 for s in sp):
            cov.hit("ulp:non-zero-alpha")
        if n_other_order:
            cov.hit("ulp:sum-equals-another-order-of-additions")
        if bad:
            order, g, x, w, T, terms, ltr, skipped = bad
            ctx.issue("violation", "FusionART.category_choice:!=float-sum-of-gamma*module-choice(last-bit)",
                      f"channels in order {order}, gamma {g}: category_choice {T!r} ({T.hex()}) vs Python sum of the products "
                      f"gamma_k * module activation {ltr!r} ({ltr.hex()}); module activations {terms} (withheld: {skipped}); "
                      f"no order of the additions of the rounded products gives the reported value",
                      dict(rep, order=order, x=x, w=w, skip=skipped))
        differs = None
        if runs[0][0] != runs[1][0]:
            differs = f"labels {runs[0][0]} vs {runs[1][0]}"
        elif runs[0][1] != runs[1][1]:
            differs = f"predictions on the training and tie rows {runs[0][1]} vs {runs[1][1]}"
        elif any(not same_W(a, b) for a, b in zip(runs[0][2], runs[1][2])):
            differs = "same labels, different per-channel weights"
        if commutes:
            cov.hit("ulp:perm-compared-with-ties" + (":2-channels" if k == 2 else ":swap-first-two"))
            if differs:
                ctx.issue("violation", "FusionART:channel-permutation-changes-clustering(tie-of-fused-activations)",
                          f"gamma {gam}, channels permuted by {perm} (only the first two terms of the sum change places): {differs}", rep)
        else:
            cov.hit("ulp:perm-reorders-additions(>=3-channels)")
            if differs:
                ctx.issue("violation", "FusionART:channel-permutation-changes-clustering(>=3-channels,order-of-float-additions)",
                          f"gamma {gam}, channels permuted by {perm}: {differs}", rep)
        if i < 2:
            cov.sample({"ulp": cls, "gamma": gam, "perm": perm, "tied_decisions": [d_exact, d_near], "labels": runs[0][0]})


# ------------------------------------------------------------------ oracle: module objects with a past
#
# Every clause above builds its FusionART over freshly constructed modules.  The statement is about the channel modules
# the estimator is *given*: "learning applies each channel module's own rule to that channel's slice of the sample, so
# every channel stores exactly what its module alone would compute, all channels always hold the same number of
# categories, and the fused weight is the concatenation of the channel weights" — `fit` starts from scratch, so whatever
# the module objects lived through before they were wrapped must not matter.  Lifecycles:
#   * the channels are SHALLOW COPIES (`copy.copy`) of one tuned = already trained template (they arrive sharing one `W`
#     list, one `weight_sample_counter_` list and one `params` dict), with or without the template itself as a channel;
#   * deep copies of a trained template; module objects trained one by one (fit / partial_fit / predict) and then wrapped;
#   * the module objects of another, already fitted FusionART handed to a second host; shallow copies of one module of a
#     fitted host; a shallow copy of a fitted host (shares the module objects), re-fitted or trained on with partial_fit;
#   * shallow copies of an untrained template (they share the `params` dict and the empty counters list the constructor made;
#     the first call may be partial_fit).
# Oracle, on the implementation alone: equal category counts = number of labels used, W = concatenation, counters = label
# histogram, every channel = the bare module's rule replayed on its slice with the host's winners, and labels / weights /
# counters / predictions identical to a FusionART over fresh, identically configured modules run through the same calls.
# A module that refuses the data at validation (e.g. it was trained on another width) is the library rejecting the
# situation, not a violation.

LIFECYCLES = ["shallow-copies-of-a-trained-template", "trained-template+its-shallow-copies", "deep-copies-of-a-trained-template",
              "modules-trained-before-being-wrapped", "modules-of-a-fitted-host", "shallow-copies-of-one-module-of-a-fitted-host",
              "shallow-copy-of-a-fitted-host", "shallow-copies-of-an-untrained-template"]


def past_calls(X0, r):
    """the calls an estimator went through before: fit / partial_fit batches / predict"""
    how = r.choice(["fit", "fit", "pfit", "fit+pfit", "fit+predict"])
    if how == "pfit" or (how == "fit+pfit" and len(X0) < 2):
        return [("pfit", B) for B in gen.split(X0, gen.compositions(r, len(X0)))]
    if how == "fit+pfit":
        n1 = r.randint(1, len(X0) - 1)
        return [("fit", X0[:n1]), ("pfit", X0[n1:])]
    return [("fit", X0)] + ([("predict", X0[: max(1, len(X0) // 2)])] if how == "fit+predict" else [])


def run_calls(m, calls):
    """make the calls the plain way (no instance-level wrappers: a shallow copy would carry them along, bound to the
    original), default arguments"""
    with quiet(), time_limit(20):
        for op, B in calls:
            if op == "fit":
                m.fit(B)
            elif op == "pfit":
                m.partial_fit(B)
            else:
                m.predict(B)
    return calls


def oracle_lifecycle(ctx, N, nmax):
    import copy
    from ..impl import FusionART as Fusion
    cov = ctx.cov
    for i in range(N):
        r = gen.rng_for(ctx.seed, "C10-life", i)
        life = LIFECYCLES[i % len(LIFECYCLES)]
        one_template = life in ("shallow-copies-of-a-trained-template", "trained-template+its-shallow-copies",
                                "deep-copies-of-a-trained-template", "shallow-copies-of-one-module-of-a-fitted-host",
                                "shallow-copies-of-an-untrained-template")
        if one_template:
            # one class, one width, one set of hyper-parameters for every channel
            k = r.choice([2, 2, 2, 3, 3, 4, 1])
            c = specs.ELEM[(i // len(LIFECYCLES)) % len(specs.ELEM)] if r.random() < 0.5 else r.choice(EXACT_CH)
            d = r.randint(1, 2)
            s = specs.elem_spec(r, c, specs.width(c, d) if c != "FuzzyART" else d)
            cls, ds, sp, dims = [c] * k, [d] * k, [deepcopy(s) for _ in range(k)], [specs.width(c, d)] * k
            gam = list(r.choice(GAMMAS[k]))
        elif (i // len(LIFECYCLES)) % 3 == 2:
            k = r.randint(1, 3)
            pos = r.randrange(k)
            lc = LONG[(i // (3 * len(LIFECYCLES))) % len(LONG)]
            cls = [lc if j == pos else r.choice(EXACT_CH) for j in range(k)]
            ds = [r.randint(1, 2) for _ in range(k)]
            sp = [specs.elem_spec(r, c, specs.width(c, d) if c != "FuzzyART" else d) for c, d in zip(cls, ds)]
            dims = [specs.width(c, d) for c, d in zip(cls, ds)]
            gam = list(r.choice(GAMMAS[k]))
        else:
            cls, ds, sp, dims, gam = gen_channels(r, 1, 4)
        k = len(cls)
        floats = r.random() < 0.4
        n = r.randint(2, nmax)
        X = np.hstack(channel_data(r, cls, ds, n, floats=floats))
        n0 = r.randint(1, nmax)
        off = np.cumsum([0] + dims)
        spec = fusion_spec(sp, dims, gam)
        mode = r.choice(MODES)
        eps = r.choice([0.0, 2.0 ** -20, 2.0 ** -10, 0.125])
        vt = gen.veto_table(r, n0 + 2 * n + 2, n0 + 2 * n + 3) if r.random() < 0.3 else None
        # ---- the past of the module objects
        past = {}
        twin_prelude = None          # rows the fresh twin is fitted on first (only when the host goes on with partial_fit)
        wrong_width = False
        try:
            if life in ("shallow-copies-of-a-trained-template", "trained-template+its-shallow-copies", "deep-copies-of-a-trained-template"):
                X0 = specs.elem_data(r, cls[0], n0, ds[0], floats=floats and cls[0] != "ART1")
                tmpl = make(deepcopy(sp[0]))
                past = {"template": sp[0], "template_data": X0, "template_calls": run_calls(tmpl, past_calls(X0, r))}
                if life == "deep-copies-of-a-trained-template":
                    mods = [deepcopy(tmpl) for _ in range(k)]
                elif life == "trained-template+its-shallow-copies":
                    at = r.randrange(k)
                    mods = [tmpl if j == at else copy.copy(tmpl) for j in range(k)]
                    past["template_is_channel"] = at
                else:
                    mods = [copy.copy(tmpl) for _ in range(k)]
            elif life == "shallow-copies-of-an-untrained-template":
                tmpl = make(deepcopy(sp[0]))
                mods = [copy.copy(tmpl) for _ in range(k)]
            elif life == "modules-trained-before-being-wrapped":
                mods, data0, calls0 = [], [], []
                wrong = r.randrange(k) if r.random() < 0.1 else None     # one module has seen another width: may be refused
                for j in range(k):
                    dj = ds[j] + 1 if j == wrong else ds[j]
                    X0 = specs.elem_data(r, cls[j], r.randint(1, nmax), dj, floats=floats and cls[j] != "ART1")
                    m = make(deepcopy(sp[j]))
                    calls0.append(run_calls(m, past_calls(X0, r)))
                    mods.append(m)
                    data0.append(X0)
                wrong_width = wrong is not None
                past = {"module_data": data0, "module_calls": calls0, "module_trained_on_another_width": wrong}
            else:
                Xa = np.hstack(channel_data(r, cls, ds, n0, floats=floats))
                ga = list(r.choice(GAMMAS[k]))
                host = make(fusion_spec(sp, dims, ga))
                past = {"first_host": fusion_spec(sp, dims, ga), "first_host_data": Xa, "first_host_calls": run_calls(host, past_calls(Xa, r))}
                if life == "modules-of-a-fitted-host":
                    mods = list(host.modules)
                elif life == "shallow-copies-of-one-module-of-a-fitted-host":
                    src = r.randrange(k)
                    mods = [copy.copy(host.modules[src]) for _ in range(k)]
                    past["copied_module"] = src
                else:
                    mods = None      # the host under test is copy.copy(host): same module objects, same params dict
                    gam, spec = ga, fusion_spec(sp, dims, ga)
        except Exception as e:
            cov.hit(f"lifecycle:past-itself-raises:{exc_enum(e)}")      # a module's / plain host's own failure: other clauses
            continue
        # ---- the calls made on the host under test
        n1 = r.randint(1, n - 1)
        style = r.choice(["fit", "fit", "fit+pfit", "refit"])
        if life == "shallow-copies-of-an-untrained-template" and r.random() < 0.5:
            style = "pfit"
        if life == "shallow-copy-of-a-fitted-host" and r.random() < 0.5:
            style = "continue"
        if style == "fit":
            prog = [("fit", X)]
        elif style == "fit+pfit":
            prog = [("fit", X[:n1])] + [("pfit", B) for B in gen.split(X[n1:], gen.compositions(r, n - n1))]
        elif style == "refit":
            prog = [("fit", X[:n1]), ("fit", X[::-1].copy())]
        else:
            prog = [("pfit", B) for B in gen.split(X, gen.compositions(r, n))]
        if style == "continue":
            # goes on where the first host stopped: the twin is a fresh host taken through the same calls first
            twin_prelude = [(op_, B) for op_, B in past["first_host_calls"] if op_ != "predict"]
            mode = r.choice(["MT+", "MT-", "MT1"])
        last_fit = max([j for j, (op_, _) in enumerate(prog) if op_ == "fit"], default=None)
        rows = np.vstack([B for _, B in prog[last_fit:]]) if last_fit is not None else \
            np.vstack([B for _, B in (twin_prelude or []) + prog])
        rep = dict(past, lifecycle=life, spec=spec, classes=cls, program=prog, mode=mode, eps=eps, veto=vt, X=X,
                   how="channel modules built as described by `lifecycle` (copy.copy / deepcopy / the objects themselves), "
                       "FusionART(modules, spec.gamma_values, spec.channel_dims) (or copy.copy(first host)), then `program`; "
                       "twin = make(spec), same program (after the first host's calls when the program has no fit)")
        key = (life, cls, sp, dims, gam, X.tolist(), style, n1, mode, eps, vt, repr(past))
        try:
            with quiet():
                if mods is None:
                    f = copy.copy(host)
                else:
                    f = Fusion(mods, list(gam), list(dims))
        except Exception as e:
            cov.case(key, False)
            cov.hit(f"lifecycle:rejected-at-construction:{exc_enum(e)}")
            continue
        # the library may refuse the situation at the door (a module trained on another width, ...)
        try:
            with quiet():
                f.validate_data(X)
                f.check_dimensions(X)
        except Exception as e:
            cov.case(key, False)
            cov.hit(f"lifecycle:rejected-at-validation:{exc_enum(e)}" + (":module-saw-another-width" if wrong_width else ""))
            if not wrong_width:
                cov.hit(f"lifecycle:rejected-at-validation:{life}")
            continue
        try:
            drive(f, prog, mode, eps, vt)
            err = None
        except Exception as e:
            err = e
        try:
            t = make(spec)
            if twin_prelude is not None:
                run_calls(t, twin_prelude)
            drive(t, prog, mode, eps, vt)
            terr = None
        except Exception as e:
            terr = e
        if err is not None or terr is not None:
            cov.case(key, False)
            if err is not None and terr is not None:
                cov.hit(f"lifecycle:both-raise:{exc_enum(err)}")
            elif err is not None:
                ctx.issue("violation", f"FusionART.fit:modules-with-a-past({life}):{exc_enum(err)}",
                          f"{life}: the host accepts the data (validate_data) but training raised {err!r}; a FusionART over fresh, "
                          f"identically configured modules trains ({cls}, dims {dims})", rep)
            else:
                cov.hit(f"lifecycle:only-the-fresh-twin-raises:{exc_enum(terr)}")
            continue
        labels = [int(v) for v in f.labels_]
        counts = [len(m.W) for m in f.modules]
        ncat = max(labels) + 1
        cov.case(key, ncat >= 2 and k >= 2)
        cov.hit(f"lifecycle:{life}")
        cov.hit(f"lifecycle:calls={style}")
        shared = k >= 2 and life in ("shallow-copies-of-a-trained-template", "trained-template+its-shallow-copies",
                                     "shallow-copies-of-one-module-of-a-fitted-host")
        if shared:
            cov.hit("lifecycle:channels-arrive-sharing-one-W-list")
        # equal counts = number of labels used; W = concatenation; counters = label histogram
        if len(set(counts)) != 1 or counts[0] != ncat or f.n_clusters != ncat or len(f.W) != ncat:
            ctx.issue("violation", f"FusionART:modules-with-a-past({life}):category-counts-differ",
                      f"{life}: {ncat} distinct labels assigned, but the channel modules hold {counts} categories, n_clusters "
                      f"{f.n_clusters}, |W| {len(f.W)}", rep)
            continue
        Wf = f.W
        if any(not np.array_equal(np.asarray(Wf[c_], dtype=float),
                                  np.concatenate([np.asarray(m.W[c_], dtype=float) for m in f.modules]), equal_nan=True)
               for c_ in range(ncat)):
            ctx.issue("violation", f"FusionART.W:modules-with-a-past({life}):not-concatenation",
                      "W[c] differs from the concatenated module weights", rep)
            continue
        cnts = [[int(v) for v in m.weight_sample_counter_] for m in f.modules]
        hist = np.bincount(labels, minlength=ncat).tolist()
        if any(c_ != hist for c_ in cnts):
            ctx.issue("violation", f"FusionART:modules-with-a-past({life}):module-counters!=label-histogram",
                      f"{life}: counters {cnts}, label histogram {hist}", rep)
            continue
        # every channel stores what its module alone would compute on its slice
        bad_ch = None
        for j in range(k):
            try:
                b = bare_replay(sp[j], rows[:, off[j]:off[j + 1]], labels, mode)
            except Exception as e:
                bad_ch = (j, f"bare replay raised {e!r}")
                break
            if not same_W(f.modules[j].W, b.W):
                bad_ch = (j, f"{life}: modules[{j}].W differs from a bare {cls[j]} fed the same slice and the host's winners")
                break
            cov.hit("lifecycle:channel-equals-bare-module")
        if bad_ch:
            ctx.issue("violation", f"FusionART({cls[bad_ch[0]]}):modules-with-a-past({life}):channel-weight!=module-rule",
                      bad_ch[1], dict(rep, channel=bad_ch[0]))
            continue
        # identical to a FusionART over fresh, identically configured modules
        q = X[: max(1, n // 2)]
        try:
            sf, st = state_of(f, q), state_of(t, q)
        except Exception as e:
            ctx.issue("violation", f"FusionART.predict:{exc_enum(e)}", f"predict on training rows raised {e!r}", rep)
            continue
        if sf[0] != st[0] or sf[3] != st[3]:
            ctx.issue("violation", f"FusionART:modules-with-a-past({life}):clustering!=fresh-modules-twin",
                      f"{life}: labels {sf[0]} predictions {sf[3]}; FusionART over fresh modules of the same configuration: "
                      f"labels {st[0]} predictions {st[3]}", rep)
            continue
        tc = [[int(v) for v in m.weight_sample_counter_] for m in t.modules]
        if not same_W(sf[1], st[1]) or any(not same_W(a, b_) for a, b_ in zip(sf[2], st[2])) or cnts != tc:
            ctx.issue("violation", f"FusionART:modules-with-a-past({life}):weights!=fresh-modules-twin",
                      f"{life}: same labels as the FusionART over fresh modules, different weights / counters ({cnts} vs {tc})", rep)
            continue
        cov.hit("lifecycle:equals-fresh-modules-twin")
        if i < 2:
            cov.sample({"lifecycle": life, "classes": cls, "gamma": gam, "calls": style, "labels": labels})


# ------------------------------------------------------------------ oracle: a reset function that trains the model it is called from
#
# Every reset function above is a table look-up.  The statement quantifies over "with and without a reset function" and the
# reset function is a caller's callable: nothing keeps it from being an *online teacher* that, when asked about a candidate
# category, first presents a few rows to the very estimator it was called from (`model.partial_fit(rows)`: categories move,
# categories are added, in the middle of one sample's vigilance search) and then vetoes or accepts.  The interrupted search
# goes on over the remaining candidates.  What the statement says there, executed on the implementation:
#   * one channel, gamma = [1]: the FusionART and the bare module, each handed an identically scripted teacher that trains
#     *it*, end with the same labels_, the same weights, the same counters, the same predictions (every elementary class; the
#     teacher may accept as well as veto after a lesson; the lessons may themselves be trained under the teacher's verdicts);
#   * 1..4 channels: the sequence (row, winner) of the completed `step_fit` calls — a lesson's rows complete before the row
#     whose search they interrupted — is a history like any other: equal category counts, W = concatenation, module counters =
#     histogram of the winners, and every channel's weights = the bare module's own rule (new_weight / update) replayed on its
#     slice with those winners (`bare_replay`).  Here the teacher vetoes whenever it has taught, so that the weight a row is
#     finally learnt into was fetched after the last lesson, and the channels are the classes whose update rule does not
#     read the activation cache (the cache of a candidate is computed before the search starts).
# Nothing is demanded about *which* category wins; a call that raises is the library rejecting the situation (counted).

REENTRANT_INNER = ["plain", "plain", "same-mode", "under-the-teacher"]


class Teacher:
    """scripted match-reset function that re-enters the estimator it is called from.  Its decisions are drawn from a
    private generator in call order (three draws per call, whatever the decision), so two estimators that behave
    identically meet identical teachers; `script` records what it did"""

    def __init__(self, model, pool, rnd, p_teach, p_veto, veto_after_lesson, max_lessons, inner, mode, eps):
        self.model, self.pool, self.r = model, pool, rnd
        self.p_teach, self.p_veto, self.veto_after, self.max_lessons = p_teach, p_veto, veto_after_lesson, max_lessons
        self.inner, self.mode, self.eps = inner, mode, eps
        self.depth = 0
        self.lessons = 0
        self.added = self.moved = 0
        self.script = []        # (call, category asked about, rows taught (pool indices) or None, verdict)

    def __call__(self, x, w, c_, params=None, cache=None):
        u_teach, u_rows, u_veto = self.r.random(), self.r.random(), self.r.random()
        call = len(self.script)
        if self.depth == 0 and self.lessons < self.max_lessons and u_teach < self.p_teach:
            m = 1 + int(u_rows * 3) % 3
            idx = [(int(u_rows * 1e6) + t) % len(self.pool) for t in range(m)]
            self.script.append((call, int(c_), idx, None))
            self.lessons += 1
            self.depth += 1
            try:
                before = [np.array(v, dtype=float) for v in self.model.W]
                if self.inner == "plain":
                    self.model.partial_fit(self.pool[idx])
                elif self.inner == "same-mode":
                    self.model.partial_fit(self.pool[idx], match_tracking=self.mode, epsilon=self.eps)
                else:
                    self.model.partial_fit(self.pool[idx], match_reset_func=self, match_tracking=self.mode, epsilon=self.eps)
                after = [np.array(v, dtype=float) for v in self.model.W]
                self.added += len(after) - len(before)
                self.moved += sum(1 for a, b in zip(before, after) if not np.array_equal(a, b, equal_nan=True))
            finally:
                self.depth -= 1
            verdict = False if self.veto_after else u_veto >= 0.6
            self.script[call] = (call, int(c_), idx, verdict)
            return verdict
        verdict = u_veto >= self.p_veto
        self.script.append((call, int(c_), None, verdict))
        return verdict


def reentrant_program(r, n):
    style = r.choice(["fit", "pfit", "pfit", "fit+pfit"])
    if style == "fit" or n < 2:
        return [("fit", 0, n)]
    if style == "pfit":
        parts = gen.compositions(r, n)
        n1 = 0
        prog = []
    else:
        n1 = r.randint(1, n - 1)
        parts = gen.compositions(r, n - n1)
        prog = [("fit", 0, n1)]
    a = n1
    for p in parts:
        prog.append(("pfit", a, a + p))
        a += p
    return prog


def run_reentrant(m, X, prog, teacher, mode, eps, events=None):
    """the calls of `prog` on `m` with the teacher as reset function; `events` collects (row, winner) of every completed
    step_fit, in order of completion"""
    if events is not None:
        o_step = m.step_fit

        def step(x, *a, _o=o_step, **kw):
            c = _o(x, *a, **kw)
            events.append((np.array(x, dtype=float), int(c)))
            return c
        object.__setattr__(m, "step_fit", step)
    kw = dict(match_reset_func=teacher, match_tracking=mode, epsilon=eps)
    with quiet(), time_limit(20):
        for op, a, b in prog:
            if op == "fit":
                m.fit(X[a:b], **kw)
            else:
                m.partial_fit(X[a:b], **kw)


def teacher_for(ctx, i, model, pool, cfg, mode, eps):
    return Teacher(model, pool, gen.rng_for(ctx.seed, "C10-reent-teacher", i), cfg["p_teach"], cfg["p_veto"],
                   cfg["veto_after_lesson"], cfg["max_lessons"], cfg["inner"], mode, eps)


def reentrant_cfg(r, veto_after_lesson):
    return {"p_teach": r.choice([0.25, 0.4, 0.6]), "p_veto": r.choice([0.0, 0.3, 0.5, 0.8]),
            "veto_after_lesson": veto_after_lesson, "max_lessons": r.randint(1, 5), "inner": r.choice(REENTRANT_INNER)}


def reentrant_how(cfg):
    return ("reset function = artv.checks.C10.Teacher(model = the estimator under training, pool, "
            "random.Random(teacher_rng), **teacher): three draws per call; at depth 0, while fewer than "
            "max_lessons lessons were given and the first draw < p_teach, it calls model.partial_fit(pool[rows]) "
            f"(inner = {cfg['inner']}) and then " + ("vetoes" if cfg["veto_after_lesson"] else "vetoes unless the third draw >= 0.6") +
            "; otherwise it vetoes when the third draw < p_veto.  `teacher_script` = (call, category asked about, pool rows "
            "taught or None, verdict) as recorded on the reference run")


def oracle_reentrant_single(ctx, N, nmax):
    cov = ctx.cov
    for i in range(N):
        r = gen.rng_for(ctx.seed, "C10-reent1", i)
        c = specs.ELEM[(i // 2) % len(specs.ELEM)] if i % 2 else "FuzzyART"
        d = r.randint(1, 3)
        sp = specs.elem_spec(r, c, specs.width(c, d) if c != "FuzzyART" else d)
        n = r.randint(3, nmax)
        floats = r.random() < 0.3 and c != "ART1"
        X = specs.elem_data(r, c, n, d, floats=floats)
        pool = np.vstack([specs.elem_data(r, c, r.randint(2, 6), d, floats=floats), X[r.sample(range(n), 2)]])
        mode = r.choice(MODES)
        eps = r.choice([0.0, 2.0 ** -20, 2.0 ** -10, 0.125])
        cfg = reentrant_cfg(r, veto_after_lesson=r.random() < 0.5)
        prog = reentrant_program(r, n)
        spec = fusion_spec([sp], [X.shape[1]], [1.0])
        rep = {"spec": spec, "bare": sp, "class": c, "mode": mode, "eps": eps, "X": X, "pool": pool, "program": prog,
               "teacher": cfg, "teacher_rng": f"{ctx.seed}/C10-reent-teacher/{i}", "how": reentrant_how(cfg)}
        key = (c, sp, X.tolist(), pool.tolist(), mode, eps, sorted(cfg.items()), prog)
        b = make(deepcopy(sp))
        tb = teacher_for(ctx, i, b, pool, cfg, mode, eps)
        try:
            run_reentrant(b, X, prog, tb, mode, eps)
            berr = None
        except Exception as e:
            berr = e
        rep["teacher_script"] = list(tb.script)
        f = make(spec)
        tf = teacher_for(ctx, i, f, pool, cfg, mode, eps)
        try:
            run_reentrant(f, X, prog, tf, mode, eps)
            ferr = None
        except Exception as e:
            ferr = e
        if berr is not None or ferr is not None:
            cov.case(key, False)
            if berr is not None and ferr is not None:
                cov.hit(f"reentrant:single:both-raise:{exc_enum(berr)}")
            elif berr is not None:
                cov.hit(f"reentrant:single:only-the-bare-module-raises:{c}:{exc_enum(berr)}")
            else:
                ctx.issue("violation", f"FusionART([{c}]).fit:reset-function-trains-the-model:{exc_enum(ferr)}",
                          f"one-channel FusionART raised {ferr!r} where the bare {c}, given the same teaching reset function, trains", rep)
            continue
        cov.case(key, len(b.W) >= 2 and tb.lessons >= 1)
        cov.hit(f"reentrant:single:{c}")
        cov.hit(f"reentrant:single:mode={mode}")
        cov.hit(f"reentrant:single:lessons-{cfg['inner']}" if tb.lessons else "reentrant:single:no-lesson-given")
        if tb.added:
            cov.hit("reentrant:single:lesson-added-a-category-mid-search")
        if tb.moved:
            cov.hit("reentrant:single:lesson-moved-a-category-mid-search")
        if any(idx is not None and v for _, _, idx, v in tb.script):
            cov.hit("reentrant:single:accepted-after-a-lesson")
        lf, lb = [int(t) for t in f.labels_], [int(t) for t in b.labels_]
        cf, cb = [int(t) for t in f.modules[0].weight_sample_counter_], [int(t) for t in b.weight_sample_counter_]
        sameW = same_W(f.modules[0].W, b.W) and same_W(f.W, b.W)
        if lf != lb or not sameW or cf != cb:
            what = "labels" if lf != lb else ("weights" if not sameW else "counters")
            if mode == "MT~":
                # MT~ consults the reset function INSIDE the activation pass (`for c_, w in enumerate(self.W)`): a lesson given
                # there changes the very list a bare module is iterating (what the loop then visits is an accident of Python's
                # list iterator), while FusionART iterates the fused list its W property assembled once.  Which of the two is
                # "the module's rule" is not defined by the property: counted, not reported (DESIGN 12.5, batch 14).
                cov.hit("reentrant:single:MT~-lesson-inside-the-activation-pass:fused-and-bare-differ(not judged)")
                continue
            # MT~ consults the reset function inside the activation pass (`for c_, w in enumerate(self.W)`), every other mode
            # inside the vigilance search: two places of the search, two signatures
            sig = ("FusionART:reset-function-trains-the-model:MT~(reset-consulted-inside-the-activation-pass):one-channel!=bare-module"
                   if mode == "MT~" else f"FusionART([{c}]):reset-function-trains-the-model:one-channel!=bare-module")
            ctx.issue("violation", sig,
                      f"a reset function that trains the estimator it is called from ({tb.lessons} lessons, {tb.added} categories added, "
                      f"{tb.moved} moved mid-search; the fused run was given {tf.lessons}): {what} differ; labels_ {lf} vs bare {lb}; "
                      f"categories {len(f.modules[0].W)} vs bare {len(b.W)}; weights equal: {sameW}; counters {cf} vs bare {cb}",
                      dict(rep, fused_teacher_script=list(tf.script)))
            continue
        try:
            with quiet():
                pf, pb = [int(t) for t in f.predict(X)], [int(t) for t in b.predict(X)]
        except Exception as e:
            cov.hit(f"reentrant:single:predict-raises:{exc_enum(e)}")
            continue
        if pf != pb:
            ctx.issue("violation", f"FusionART([{c}]).predict:reset-function-trains-the-model:one-channel!=bare-module",
                      f"predictions {pf} vs bare {pb}", rep)
            continue
        cov.hit("reentrant:single-equals-bare")
        if i < 2:
            cov.sample({"reentrant-single": c, "mode": mode, "lessons": tb.lessons, "added": tb.added, "moved": tb.moved, "labels": lb})


def oracle_reentrant_multi(ctx, N, nmax):
    cov = ctx.cov
    for i in range(N):
        r = gen.rng_for(ctx.seed, "C10-reentk", i)
        cls, ds, sp, dims, gam = gen_channels(r, 1, 4)
        k = len(cls)
        floats = r.random() < 0.3
        n = r.randint(3, nmax)
        X = np.hstack(channel_data(r, cls, ds, n, floats=floats))
        pool = np.vstack([np.hstack(channel_data(r, cls, ds, r.randint(2, 6), floats=floats)), X[r.sample(range(n), 2)]])
        mode = r.choice(MODES)
        eps = r.choice([0.0, 2.0 ** -20, 2.0 ** -10, 0.125])
        cfg = reentrant_cfg(r, veto_after_lesson=True)
        prog = reentrant_program(r, n)
        spec = fusion_spec(sp, dims, gam)
        off = np.cumsum([0] + dims)
        rep = {"spec": spec, "classes": cls, "mode": mode, "eps": eps, "X": X, "pool": pool, "program": prog,
               "teacher": cfg, "teacher_rng": f"{ctx.seed}/C10-reent-teacher/{i}", "how": reentrant_how(cfg)}
        key = (cls, sp, dims, gam, X.tolist(), pool.tolist(), mode, eps, sorted(cfg.items()), prog)
        events = []
        f = make(spec)
        t = teacher_for(ctx, i, f, pool, cfg, mode, eps)
        try:
            run_reentrant(f, X, prog, t, mode, eps, events)
        except Exception as e:
            cov.case(key, False)
            cov.hit(f"reentrant:multi:raises:{exc_enum(e)}")
            continue
        rep["teacher_script"] = list(t.script)
        # (a program has at most one fit, its first call: the completed steps are the whole history)
        rows =np.array([x_ for x_, _ in events], dtype=float).reshape(len(events), X.shape[1])
        winners = [c_ for _, c_ in events]
        rep["completed_steps"] = {"rows": rows, "winners": winners}
        counts = [len(m.W) for m in f.modules]
        ncat = max(winners) + 1
        cov.case(key, ncat >= 2 and k >= 2 and t.lessons >= 1)
        cov.hit(f"reentrant:multi:channels={k}")
        cov.hit(f"reentrant:multi:mode={mode}")
        cov.hit(f"reentrant:multi:lessons-{cfg['inner']}" if t.lessons else "reentrant:multi:no-lesson-given")
        if t.added:
            cov.hit("reentrant:multi:lesson-added-a-category-mid-search")
        if t.moved:
            cov.hit("reentrant:multi:lesson-moved-a-category-mid-search")
        if len(set(counts)) != 1 or counts[0] != ncat or f.n_clusters != ncat or len(f.W) != ncat:
            ctx.issue("violation", "FusionART:reset-function-trains-the-model:category-counts-differ",
                      f"the completed steps name {ncat} categories (winners {winners}); the channel modules hold {counts}, n_clusters "
                      f"{f.n_clusters}, |W| {len(f.W)} ({t.lessons} lessons, {t.added} categories added mid-search)", rep)
            continue
        Wf = f.W
        if any(not np.array_equal(np.asarray(Wf[c_], dtype=float),
                                  np.concatenate([np.asarray(m.W[c_], dtype=float) for m in f.modules]), equal_nan=True)
               for c_ in range(ncat)):
            ctx.issue("violation", "FusionART.W:reset-function-trains-the-model:not-concatenation",
                      "W[c] differs from the concatenated module weights", rep)
            continue
        cnts = [[int(v) for v in m.weight_sample_counter_] for m in f.modules]
        hist = np.bincount(winners, minlength=ncat).tolist()
        if any(c_ != hist for c_ in cnts):
            ctx.issue("violation", "FusionART:reset-function-trains-the-model:module-counters!=winner-histogram",
                      f"counters {cnts}, histogram of the winners of the completed steps {hist}", rep)
            continue
        bad_ch = None
        for j in range(k):
            try:
                b = bare_replay(sp[j], rows[:, off[j]:off[j + 1]], winners, mode)
            except Exception as e:
                bad_ch = (j, f"bare replay raised {e!r}")
                break
            if not same_W(f.modules[j].W, b.W):
                bad_ch = (j, f"modules[{j}].W differs from a bare {cls[j]} fed the same slice and the winners of the completed steps "
                             f"{winners} ({t.lessons} lessons, {t.added} categories added, {t.moved} moved mid-search)")
                break
            cov.hit("reentrant:multi:channel-equals-bare-module")
        if bad_ch:
            ctx.issue("violation", f"FusionART({cls[bad_ch[0]]}):reset-function-trains-the-model:channel-weight!=module-rule",
                      bad_ch[1], dict(rep, channel=bad_ch[0]))
            continue
        cov.hit("reentrant:multi-ok")
        if i < 2:
            cov.sample({"reentrant-multi": cls, "gamma": gam, "mode": mode, "lessons": t.lessons, "added": t.added,
                        "moved": t.moved, "winners": winners})


GEN_THEOREMS = ['fusion_positions', 'fusion_category_choice', 'fusion_match_criterion_bin', 'fusion_match_criterion_bin_none', 'fusion_match_bin_model', 'fusion_update', 'fusion_update_none', 'fusion_new_weight', 'fusion_add_weight', 'fusion_set_weight', 'fusion_add_weight_model', 'fusion_set_weight_model', 'fusion_match_tracking', 'fusion_W_get', 'fusion_W_get_model']


def prepare(ctx):
    """Translator tie (see gen_tie.py): FusionART's own methods are regenerated from the source on every run and proved
    equal to the channel-wise definitions the property theorems are stated about"""
    from .gen_tie import gen_prepare, extra_theorems
    from .. import ftrans3
    gen_prepare(ctx, GEN_THEOREMS + extra_theorems("ftrans3") + ["FusionPredict.step_pred_spec", "FusionPredict.predict_spec", "FusionPredict.n_clusters_spec",
                                     "FusionPredict.get_cluster_centers_spec"],
                ftrans3.COVERS + '; FusionART.step_pred / predict / n_clusters / get_cluster_centers (ftrans2 -> ArtGen/FusionPredict.lean); FusionART.category_choice / match_criterion_bin / update / new_weight / _match_tracking / add_weight / set_weight / W and get_channel_position_tuples (ftrans -> ArtGen/Fusion.lean) = the channel-wise definitions of ArtModel/Fusion.lean (choiceSkip, matchBinSkip, rawUpdate, rawNew, modsAdd, modsSet, fusedW)')


def run(ctx):
    ctx.assumptions += [
        "float rounding of the gamma-weighted sum is not modelled: histories whose two closest distinct activations "
        "differ by < 1e-9 (relative) are counted and excluded from the label comparison with the model and from the "
        "dyadic permutation clause; oracle_ulp compares exactly those decisions on the implementation alone (the fused "
        "activation bit for bit with the float sum of the rounded products; the permuted twin with ties included)",
        "every module's weight vector has a constant length (Chan.wlen, true of all artlib modules); the model "
        "cuts fused weights at the positions derived from these lengths, as the code does since 9bccfb4",
    ]
    histories(ctx, ctx.scale(700, 6000), ctx.scale(14, 40))
    oracle_channelwise(ctx, ctx.scale(640, 5000), ctx.scale(12, 40))
    oracle_single(ctx, ctx.scale(320, 3000), ctx.scale(12, 40))
    oracle_perm(ctx, ctx.scale(400, 3500), ctx.scale(12, 40))
    oracle_regamma(ctx, ctx.scale(240, 2000), ctx.scale(12, 40))
    oracle_ulp(ctx, ctx.scale(200, 2500), ctx.scale(12, 24))
    oracle_lifecycle(ctx, ctx.scale(320, 3000), ctx.scale(12, 30))
    oracle_reentrant_single(ctx, ctx.scale(240, 2400), ctx.scale(10, 24))
    oracle_reentrant_multi(ctx, ctx.scale(240, 2400), ctx.scale(10, 24))
