"""C02 — categories summarise exactly their members and respect the vigilance
bound.  Oracle on the implementation: recompute box / AND / mean / count from
(X, labels_), containment, stepwise monotonicity and the size bounds, for bare
modules, FusionART channels, ARTMAP A/B sides and the base modules of
DualVigilanceART / TopoART; histories in which the read-only entry points (get_cluster_centers,
get_bounding_boxes, restore_data, predict, predict_regression ...) are called between two training
steps: a category changes only by learning.  Tie: Lean end-to-end weights over Q (exact kernels)."""
from __future__ import annotations

import numpy as np

from .. import gen, specs, families
from ..impl import make, quiet, exc_enum, MODES
from . import e2e

RULE = ("cases = (host estimator, module class, hyper-parameters, stream, mode, with/without vetoing reset "
        "function, read-only calls interleaved between the training steps); weights observed after every presented "
        "sample and after every interleaved read-only call; non-trivial when some category absorbed >= 2 "
        "samples; distinct by hash of (host, spec, stream, mode)")

TOL = 1e-9


def exact_summary(ctx, cls, m, X, labels, rep, host):
    """learning rate 1 / running moments: the category is exactly the summary of its members"""
    W = [np.asarray(w, dtype=float) for w in m.W]
    for k, w in enumerate(W):
        mem = X[labels == k]
        if len(mem) == 0:
            continue
        if cls == "FuzzyART" and m.params["beta"] == 1.0:
            box = mem.min(axis=0)
            if not np.array_equal(w, box):
                ctx.issue("violation", f"{host}FuzzyART:box!=members", f"category {k}: weight {w.tolist()} bounding box {box.tolist()}", rep)
            ctx.cov.hit("fuzzy-box-exact")
        elif cls == "ART1":
            d = X.shape[1]
            t = np.all(mem > 0, axis=0).astype(float)
            if not np.array_equal(w[d:], t):
                ctx.issue("violation", f"{host}ART1:template!=AND", f"category {k}: template {w[d:].tolist()} AND {t.tolist()}", rep)
            ctx.cov.hit("art1-and-exact")
        elif cls == "HypersphereART" and m.params["beta"] == 1.0:
            c, R = w[:-1], w[-1]
            dist = np.sqrt(((mem - c) ** 2).sum(axis=1))
            if np.any(dist > R + TOL):
                ctx.issue("violation", f"{host}HypersphereART:member-outside", f"category {k}: radius {R} member distances {dist.tolist()}", rep)
            ctx.cov.hit("sphere-contains-members")
        elif cls in ("GaussianART", "BayesianART"):
            d = X.shape[1]
            if not np.allclose(w[:d], mem.mean(axis=0), rtol=TOL, atol=TOL) or abs(w[-1] - len(mem)) > 0:
                ctx.issue("violation", f"{host}{cls}:mean-count", f"category {k}: mean {w[:d].tolist()} n {w[-1]} vs members "
                          f"{mem.mean(axis=0).tolist()} {len(mem)}", rep)
            ctx.cov.hit("mean-count-exact")


def monotone(ctx, cls, Wb, Wa, rep, host):
    """regions only grow between two consecutive samples"""
    for k, (b, a) in enumerate(zip(Wb, Wa)):
        if cls == "FuzzyART":
            if np.any(a > b + 0):
                ctx.issue("violation", f"{host}FuzzyART:weight-increased", f"category {k}: {b.tolist()} -> {a.tolist()}", rep)
        elif cls == "ART1":
            d = len(b) // 2
            if np.any(a[d:] > b[d:]):
                ctx.issue("violation", f"{host}ART1:template-increased", f"category {k}: {b[d:].tolist()} -> {a[d:].tolist()}", rep)
        elif cls == "HypersphereART":
            if a[-1] < b[-1]:
                ctx.issue("violation", f"{host}HypersphereART:radius-decreased", f"category {k}: {b[-1]} -> {a[-1]}", rep)
            if np.sqrt(((a[:-1] - b[:-1]) ** 2).sum()) + b[-1] > a[-1] + TOL:
                ctx.issue("violation", f"{host}HypersphereART:old-sphere-not-contained", f"category {k}: {b.tolist()} -> {a.tolist()}", rep)
        elif cls == "EllipsoidART":
            if a[-1] < b[-1]:
                ctx.issue("violation", f"{host}EllipsoidART:radius-decreased", f"category {k}: {b[-1]} -> {a[-1]}", rep)


def bounds(ctx, cls, m, rep, host, d_raw):
    p = m.params
    for k, w in enumerate(np.asarray(w_, dtype=float) for w_ in m.W):
        if cls == "FuzzyART":
            if w.sum() < p["rho"] * d_raw - TOL:
                ctx.issue("violation", f"{host}FuzzyART:|w|<rho*d", f"category {k}: |w|={w.sum()} rho*d={p['rho'] * d_raw}", rep)
        elif cls == "HypersphereART":
            if w[-1] > p["r_hat"] * (1 - p["rho"]) + TOL:
                ctx.issue("violation", f"{host}HypersphereART:radius>bound", f"category {k}: R={w[-1]} bound {p['r_hat'] * (1 - p['rho'])}", rep)
        elif cls == "EllipsoidART":
            if w[-1] > p["r_hat"] * (1 - p["rho"]) / 2 + TOL:
                ctx.issue("violation", f"{host}EllipsoidART:radius>bound", f"category {k}: R={w[-1]} bound {p['r_hat'] * (1 - p['rho']) / 2}", rep)
        elif cls == "BayesianART":
            d = m.dim_
            if w[-1] >= 2:
                det = np.linalg.det(w[d:-1].reshape(d, d))
                if det > p["rho"] * (1 + 1e-9) + 1e-300:
                    ctx.issue("violation", f"{host}BayesianART:det>rho", f"category {k}: det {det} rho {p['rho']} n {w[-1]}", rep)


# ---------------------------------------------------------------- read-only calls between training steps
# The property speaks about W "after every presented sample": whatever the user asks of the estimator between two
# samples (centres, boxes, predictions, restored data), the categories are still the summaries of their members
# and have not grown or shrunk: nothing was learned.


def snap(m):
    return [np.asarray(w, dtype=float).copy() for w in getattr(m, "W", [])]


def same_weights(A, B):
    return len(A) == len(B) and all(a.shape == b.shape and np.array_equal(a, b, equal_nan=True) for a, b in zip(A, B))


def unit_bounds(d_raw):
    """two rows [0..0], [1..1]: prepare_data on them fixes d_min_ = 0, d_max_ = 1, i.e. the identity map on [0,1]^d,
    so restore_data / get_cluster_centers work on streams that are already in prepared form"""
    return np.array([[0.0] * d_raw, [1.0] * d_raw])


def module_reads(cls, m, d_raw):
    """read-only public entry points of one elementary module"""
    calls = [("get_cluster_centers", lambda Xs: m.get_cluster_centers())]
    if cls == "FuzzyART":
        calls.append(("get_bounding_boxes", lambda Xs: m.get_bounding_boxes()))
        # what get_cluster_centers does, spelled out by the user: restore one stored row (a view, not a copy)
        calls.append(("restore_data(weight-row)", lambda Xs: [m.restore_data(w.reshape((1, -1))) for w in m.W]))
    if cls == "EllipsoidART" and d_raw >= 2:
        calls.append(("get_2d_ellipsoids", lambda Xs: m.get_2d_ellipsoids()))
    return calls


def host_reads(host, cls, est, m, d_raw):
    """(name, call(Xs)) for the read-only entry points of the estimator `est` whose elementary module is `m`;
    Xs = a private copy of the last few rows presented so far"""
    calls = [("predict", lambda Xs: est.predict(Xs)), ("restore_data(samples)", lambda Xs: est.restore_data(Xs))]
    if host == "SimpleARTMAP/":
        calls.append(("predict_ab", lambda Xs: est.predict_ab(Xs)))
    if host in ("DualVigilanceART/", "TopoART/"):
        calls.append((host[:-1] + ".get_cluster_centers", lambda Xs: est.get_cluster_centers()))
    return calls + module_reads(cls, m, d_raw)


def read_between_steps(ctx, ra, calls, watched, Xs, rep, log, step, where):
    """make one randomly chosen read-only call and require every watched module's weights to be bit-identical
    before and after it.  watched = [(signature prefix, module)]"""
    name, call = ra.choice(calls)
    before = [snap(m) for _, m in watched]
    log.append([step, name])
    try:
        with quiet():
            call(np.array(Xs[-4:], copy=True))
    except Exception as e:
        ctx.cov.hit(f"read-only-call-raised:{where}:{name}:{exc_enum(e)}")
    for (pre, m), b in zip(watched, before):
        a = snap(m)
        if not same_weights(b, a):
            k = next((j for j, (x, y) in enumerate(zip(b, a)) if x.shape != y.shape or not np.array_equal(x, y, equal_nan=True)), -1)
            ctx.issue("violation", f"{pre}{name}:moved-a-weight",
                      f"after step {step} the read-only call {name} changed the categories although no sample was presented: "
                      + (f"category {k}: {b[k].tolist()} -> {a[k].tolist()}" if k >= 0 else f"{len(b)} -> {len(a)} categories"),
                      dict(rep, step=step, read_only_call=name, read_only_calls=[list(c) for c in log]))
    ctx.cov.hit(f"read-only-between-steps:{name}")
    ctx.cov.hit(f"read-only-between-steps:on:{where}")
    if any(len(b) > 0 for b in before):
        ctx.cov.hit("read-only-call:with-categories-present")


def fuzzy_extent(W):
    """some Fuzzy ART box is more than a point"""
    return any(np.any(w[:len(w) // 2] != 1.0 - w[len(w) // 2:]) for w in W)


def fusion_case(r, nmax):
    """two-channel FusionART: Fuzzy (beta = 1), ART1 and Gaussian channels, streams with repeated rows"""
    n = r.randint(2, nmax)
    chans = [r.choice(["FuzzyART", "ART1", "GaussianART"]), r.choice(["FuzzyART", "ART1", "GaussianART", "FuzzyART"])]
    ds = [r.randint(1, 3), r.randint(1, 2)]
    sp = []
    for c_, d_ in zip(chans, ds):
        s_ = specs.elem_spec(r, c_, specs.width(c_, d_) if c_ != "FuzzyART" else d_)
        if c_ == "FuzzyART":
            s_["beta"] = 1.0
        sp.append(s_)
    spec = {"cls": "FusionART", "modules": sp, "gamma_values": r.choice([[0.5, 0.5], [0.25, 0.75]]),
            "channel_dims": [specs.width(c_, d_) for c_, d_ in zip(chans, ds)]}
    blocks = [specs.elem_data(r, c_, n, d_, style=r.choice(["dups", "coarse", "blobs"])) for c_, d_ in zip(chans, ds)]
    X = np.hstack(blocks)
    # repeated rows: the second presentation of a row hits its category's centre / template exactly
    idx = list(range(n)) + [r.randrange(n) for _ in range(r.randint(1, n))]
    return spec, chans, ds, X[idx]


# ---------------------------------------------------------------- modules that were used before being wrapped
# The property quantifies over configurations: a host (FusionART / FALCON channel, SimpleARTMAP / ARTMAP side,
# DualVigilanceART / TopoART base module) is handed a module *object*, and that object may have a past: it was
# fitted / partially fitted / validated / prepared on its own, or it served in another network, on data of the same
# or of ANOTHER width.  The library may refuse such a module (an exception at construction or at training: nothing
# to check).  If the host accepts it and trains, the trained categories are judged exactly like those of a fresh
# module, for the width the host trained on: exact summary of the members, growth only, size bound (|w| >= rho*d).

PREUSE = ["fit", "partial_fit", "validate_data", "prepare_data", "was-FusionART-channel", "was-SimpleARTMAP-side",
          "was-DualVigilanceART-base", "fit-then-validate"]


# pasts after which module.labels_ holds the module's own category ids (the property's "where labels_ names the
# category"): a DualVigilanceART writes ITS cluster ids (map[category]) into base_module.labels_, and a FusionART
# keeps the labels on the network, so a module that goes on learning after such a past has no record of who the
# members of its old categories are: exact summary not applicable, growth and size bound still are
PAST_LABELS_NAME_CATEGORIES = ("fit", "partial_fit", "fit-then-validate", "was-SimpleARTMAP-side")


def raw_rows(r, cls, n, d):
    """raw (un-prepared) rows for `prepare_data`"""
    return gen.binary_rows(r, n, d) if cls == "ART1" else gen.grid_rows(r, n, d)


def pre_use(r, cls, m, how, d_pre, nmax):
    """give the elementary module `m` a past on data of raw dimension d_pre; returns (log entry, rows it was TRAINED
    on or None): only public calls"""
    from ..impl import FusionART, SimpleARTMAP, DualVigilanceART, FuzzyART
    n = r.randint(2, max(2, nmax // 2))
    Xp = specs.elem_data(r, cls, n, d_pre, style=r.choice(["dups", "coarse", "blobs", "uniform"]))
    trained = None
    with quiet():
        if how == "fit":
            m.fit(Xp)
            trained = Xp
        elif how == "partial_fit":
            for Xb in gen.split(Xp, gen.compositions(r, n)):
                m.partial_fit(Xb)
            trained = Xp
        elif how == "validate_data":
            m.validate_data(Xp)
        elif how == "prepare_data":
            Xp = raw_rows(r, cls, n, d_pre)
            m.prepare_data(Xp)
        elif how == "fit-then-validate":
            m.fit(Xp)
            m.validate_data(Xp[:1])
            trained = Xp
        elif how == "was-FusionART-channel":
            other = FuzzyART(rho=0.5, alpha=2.0 ** -10, beta=1.0)
            Xo = specs.elem_data(r, "FuzzyART", n, 1)
            first = r.random() < 0.5
            old = FusionART([m, other] if first else [other, m], gamma_values=[0.5, 0.5],
                            channel_dims=[Xp.shape[1], 2] if first else [2, Xp.shape[1]])
            old.fit(np.hstack([Xp, Xo] if first else [Xo, Xp]))
            trained = Xp
        elif how == "was-SimpleARTMAP-side":
            SimpleARTMAP(m).fit(Xp, gen.labels(r, n, 3))
            trained = Xp
        elif how == "was-DualVigilanceART-base":
            if not m.params.get("rho", 0.0) > 0.0:
                raise ValueError("no lower vigilance below rho")
            DualVigilanceART(m, rho_lower_bound=0.0).fit(Xp)
            trained = Xp
        else:
            raise KeyError(how)
    return {"how": how, "d_pre": d_pre, "X_pre": np.asarray(Xp).tolist()}, trained


def preused_modules(ctx, nmax):
    from ..impl import FusionART, FALCON, SimpleARTMAP, ARTMAP, DualVigilanceART, TopoART
    cov = ctx.cov
    hosts = ["FusionART", "FusionART", "FALCON", "SimpleARTMAP", "ARTMAP.A", "ARTMAP.B", "DualVigilanceART", "TopoART"]
    for i in range(ctx.scale(240, 4000)):
        r = gen.rng_for(ctx.seed, "C02-preused", i)
        hostk = hosts[i % len(hosts)]
        if hostk in ("DualVigilanceART", "TopoART"):
            cls = r.choice(["FuzzyART", "FuzzyART", "HypersphereART", "EllipsoidART"])
        else:
            cls = r.choice(["FuzzyART", "FuzzyART", "FuzzyART", "ART1", "HypersphereART", "GaussianART"])
        d = r.randint(1, 3)
        # the past: mostly another width (narrower and wider), sometimes the same one
        d_pre = r.choice([k for k in (1, 2, 3, 4) if k != d]) if r.random() < 0.7 else d
        how = r.choice(PREUSE)
        n = r.randint(2, nmax)
        # the specification is drawn for the width the module will be TRAINED on by the host
        spec = specs.elem_spec(r, cls, specs.width(cls, d) if cls != "FuzzyART" else d)
        if cls in ("FuzzyART", "HypersphereART") and r.random() < 0.7:
            spec["beta"] = 1.0
        if cls in ("GaussianART", "BayesianART") and d_pre != d:
            # sigma_init / cov_init carry the width: the past of such a module has the host's width
            d_pre = d
        mode = r.choice(MODES)
        X = specs.elem_data(r, cls, n, d, style=r.choice(["dups", "coarse", "blobs", "uniform"]))
        entry = r.choice(["fit", "partial_fit"])
        parts = gen.compositions(r, n) if entry == "partial_fit" else [n]
        rep = {"host": hostk, "class": cls, "spec": spec, "d": d, "X": X.tolist(), "mode": mode, "entry": entry, "batches": parts}
        tag = f"{hostk}<-{how}:" + ("same-width" if d_pre == d else "narrower-past" if d_pre < d else "wider-past")
        # ---- the module's past
        try:
            m = make(spec)
            log, trained = pre_use(r, cls, m, how, d_pre, nmax)
            rep["pre_use"] = log
        except Exception as e:
            cov.hit(f"preused:pre-use-raised:{cls}:{how}:{exc_enum(e)}")
            continue
        if len(getattr(m, "W", [])) > 0:
            cov.hit("preused:past-left-categories")
        # ---- wrap it
        others = {}
        try:
            with quiet():
                if hostk in ("FusionART", "FALCON"):
                    nch = 2 if hostk == "FusionART" else 3
                    slot = r.randrange(nch)
                    mods, blocks, dims = [], [], []
                    for k in range(nch):
                        if k == slot:
                            mods.append(m), blocks.append(X), dims.append(X.shape[1])
                            continue
                        co = r.choice(["FuzzyART", "FuzzyART", "ART1"])
                        do = r.randint(1, 2)
                        so = specs.elem_spec(r, co, do)
                        if co == "FuzzyART":
                            so["beta"] = 1.0
                        Xo = specs.elem_data(r, co, n, do, style=r.choice(["dups", "coarse", "blobs"]))
                        others[k] = (co, so, Xo, do)
                        mods.append(make(so)), blocks.append(Xo), dims.append(Xo.shape[1])
                    gam = [0.5, 0.5] if nch == 2 else [0.25, 0.25, 0.5]
                    rep.update(slot=slot, channel_dims=dims, gamma_values=gam,
                               other_channels={str(k): {"spec": v[1], "X": v[2].tolist()} for k, v in others.items()})
                    est = FusionART(mods, gamma_values=gam, channel_dims=dims) if hostk == "FusionART" else \
                        FALCON(mods[0], mods[1], mods[2], gamma_values=gam, channel_dims=dims)
                    net = est if hostk == "FusionART" else est.fusion_art
                elif hostk == "SimpleARTMAP":
                    est = SimpleARTMAP(m)
                    y = gen.labels(r, n, 3)
                    rep["y"] = y.tolist()
                elif hostk in ("ARTMAP.A", "ARTMAP.B"):
                    co = r.choice(["FuzzyART", "FuzzyART", "HypersphereART"])
                    do = r.randint(1, 2)
                    so = specs.elem_spec(r, co, do)
                    Xo = specs.elem_data(r, co, n, do, style=r.choice(["dups", "coarse", "blobs"]))
                    mo = make(so)
                    others[0] = (co, so, Xo, do)
                    rep["other_side"] = {"spec": so, "X": Xo.tolist()}
                    est = ARTMAP(m, mo) if hostk == "ARTMAP.A" else ARTMAP(mo, m)
                elif hostk == "DualVigilanceART":
                    lbs = [t for t in (0.0, 0.125, 0.25, 0.5) if t < spec.get("rho", 0.0)]
                    if not lbs:
                        cov.hit("preused:no-lower-vigilance")
                        continue
                    rep["rho_lower_bound"] = r.choice(lbs)
                    est = DualVigilanceART(m, rho_lower_bound=rep["rho_lower_bound"])
                else:
                    rep["beta_lower"] = r.choice([b for b in (0.0, 0.5, 1.0) if b <= spec["beta"]])
                    est = TopoART(m, beta_lower=rep["beta_lower"], tau=1000, phi=1)
        except Exception as e:
            cov.hit(f"preused:rejected-at-construction:{tag}:{exc_enum(e)}")
            continue
        # ---- train the host
        sig = {"FusionART": "FusionART.channel/", "FALCON": "FALCON.channel/", "SimpleARTMAP": "SimpleARTMAP/", "ARTMAP.A": "ARTMAP.A/",
               "ARTMAP.B": "ARTMAP.B/", "DualVigilanceART": "DualVigilanceART/", "TopoART": "TopoART/"}[hostk] + "pre-used-module/"
        # growth is judged between the host's own batches (whether the host empties the module first is its business)
        prev, ok = [], True
        lowered = mode == "MT-" and hostk in ("SimpleARTMAP", "ARTMAP.A")
        start = 0
        for b, p in enumerate(parts):
            sl = slice(start, start + p)
            start += p
            try:
                with quiet():
                    call = (lambda *a, **kw: est.fit(*a, **kw)) if entry == "fit" else (lambda *a, **kw: est.partial_fit(*a, **kw))
                    if hostk == "FusionART":
                        call(np.hstack([blk[sl] for blk in blocks]), match_tracking=mode)
                    elif hostk == "FALCON":
                        call(blocks[0][sl], blocks[1][sl], blocks[2][sl])
                    elif hostk == "SimpleARTMAP":
                        call(X[sl], y[sl], match_tracking=mode)
                    elif hostk == "ARTMAP.A":
                        call(X[sl], others[0][2][sl], match_tracking=mode)
                    elif hostk == "ARTMAP.B":
                        call(others[0][2][sl], X[sl], match_tracking=mode)
                    else:
                        call(X[sl], match_tracking=mode)
            except Exception as e:
                cov.hit(f"preused:rejected-at-training:{tag}:{exc_enum(e)}")
                ok = False
                break
            cur = snap(m)
            monotone(ctx, cls, prev, cur, dict(rep, batch=b), sig)
            prev = cur
            if not lowered:
                bounds(ctx, cls, m, dict(rep, batch=b), sig, d)
                cov.hit("preused:size-bound-checked:" + cls)
        if not ok:
            continue
        cov.hit(f"preused:accepted-and-trained:{tag}")
        cov.hit(f"preused:accepted:{hostk}:{cls}:{entry}")
        if d_pre != d:
            cov.hit("preused:accepted-with-a-past-of-another-width:" + hostk)
        # ---- exact summary: members named by the labels that belong to this module
        if hostk in ("FusionART", "FALCON"):
            labels = np.asarray(net.labels_)
        elif hostk in ("SimpleARTMAP", "ARTMAP.A", "ARTMAP.B"):
            labels = np.asarray(m.labels_)
        else:
            labels = None
        if labels is not None:
            if len(labels) == n:
                exact_summary(ctx, cls, m, np.asarray(X), labels, rep, sig)
                cov.hit("preused:exact-summary:host-data")
            elif trained is not None and d_pre == d and len(labels) == len(trained) + n and how in PAST_LABELS_NAME_CATEGORIES:
                # the host went on from the categories of the past and the labels name the members of both periods
                exact_summary(ctx, cls, m, np.vstack([trained, X]), labels, rep, sig)
                cov.hit("preused:exact-summary:past+host-data")
            else:
                cov.hit(f"preused:exact-summary-not-applicable:{hostk}:{how}:{entry}")
        cov.case(("preused", hostk, cls, spec, how, d_pre, rep["X"], mode, parts), len(m.W) < n)


# ---------------------------------------------------------------- plotting calls inside a training history
# The property relates W to labels_ "after one training pass" whatever else the user asked of the estimator during that
# pass: drawing the model (visualize / plot_cluster_bounds, handed the estimator's OWN labels_ array, with a colour
# list that may be shorter than the number of categories) and the animated twin of fit (fit_gif, whose palette of
# n_cluster_estimate + 1 colours is only an estimate) present no sample.  Afterwards every category is still the exact
# summary of the samples labels_ assigns to it, no weight moved, and the size bounds hold; training can go on.
# A drawing call that raises is tolerated (BayesianART cannot be drawn with this numpy, hosts without
# plot_cluster_bounds raise NotImplementedError): the state is judged all the same, the picture is not.

EXACT = ("FuzzyART", "ART1", "HypersphereART", "GaussianART", "BayesianART")


def _plt():
    try:
        import matplotlib
        matplotlib.use("Agg")
        import matplotlib.pyplot as plt
        return plt
    except Exception:   # noqa
        return None


def summary_targets(kind, fam, est, rows):
    """[(signature prefix, class, module, its data block, its labels getter, judged by the exact-summary clause)] for the
    modules of a families.Family instance the property speaks about"""
    arrs = rows.arrs
    if kind in families.ELEM:
        return [("", kind, est, arrs["X"], lambda: est.labels_, True)]
    if kind == "SimpleARTMAP":
        return [("SimpleARTMAP/", fam.a_cls, est.module_a, arrs["X"], lambda: est.module_a.labels_, True)]
    if kind == "ARTMAP":
        return [("ARTMAP.A/", fam.a_cls, est.module_a, arrs["X"], lambda: est.module_a.labels_, True),
                ("ARTMAP.B/", fam.b_cls, est.module_b, arrs["y"], lambda: est.module_b.labels_, True)]
    if kind in ("DualVigilanceART", "TopoART"):
        # base modules: growth and size bound only (labels_ name clusters / may be pruned)
        return [(kind + "/", fam.spec["base_module"]["cls"], est.base_module, arrs["X"], lambda: est.base_module.labels_, False)]
    return []


def judge_after_plot(ctx, targets, n_rows, before, rep, where, mode, d_raws):
    """the property's clauses on the state a plotting call left behind; `before` = weight snapshots taken just before
    the call (None: the call was itself the training pass, fit_gif)"""
    for j, (pre, cls, m, Xm, lab, exact) in enumerate(targets):
        sig = f"{pre}after-plotting/"
        if before is not None:
            a = snap(m)
            if not same_weights(before[j], a):
                k = next((q for q, (x, y) in enumerate(zip(before[j], a)) if x.shape != y.shape or not np.array_equal(x, y, equal_nan=True)), -1)
                ctx.issue("violation", f"{sig}{cls}:plot-moved-a-weight",
                          f"{where}: the categories changed although no sample was presented: "
                          + (f"category {k}: {before[j][k].tolist()} -> {a[k].tolist()}" if k >= 0 else f"{len(before[j])} -> {len(a)} categories"), rep)
            ctx.cov.hit("plot:weights-compared-across-plotting-call")
        if exact and cls in EXACT:
            labels = np.asarray(lab())
            Xm = np.asarray(Xm)[:n_rows]
            if len(labels) == len(Xm):
                exact_summary(ctx, cls, m, Xm, labels, dict(rep, judged=where), sig)
                ctx.cov.hit(f"plot:exact-summary-after-plotting:{cls}")
            else:
                ctx.cov.hit(f"plot:labels-do-not-cover-the-rows:{pre}{cls}")
        lowered = mode == "MT-" and pre in ("SimpleARTMAP/", "ARTMAP.A/")
        if not lowered:
            bounds(ctx, cls, m, dict(rep, judged=where), sig, d_raws[j])
            ctx.cov.hit("plot:size-bound-after-plotting")


def shared_plotting_scenarios(ctx):
    """harness/artv/plotpure.py: estimators AFTER a plotting call inside a history; the clauses of this property on them,
    then one more partial_fit and the clauses again"""
    from .. import plotpure
    cov = ctx.cov
    for sc in plotpure.scenarios(ctx, "C02", quick=26, thorough=260):
        if sc.raised is not None and sc.plot.startswith("fit_gif"):
            cov.hit("plot:fit_gif-stopped-in-a-frame")   # not a complete training call: nothing to judge
            continue
        try:
            targets = summary_targets(sc.kind, sc.fam, sc.est, sc.rows)
        except Exception as e:
            cov.hit(f"plot:no-targets:{sc.kind}:{exc_enum(e)}")
            continue
        if not targets:
            continue
        where = f"after {sc.trained_by} then {sc.plot}" + (f" (drawing raised {sc.raised})" if sc.raised else "")
        rep = dict(sc.desc, trained_by=sc.trained_by, state_changed_by_plot=sc.changed[:12], generator="plotpure.scenarios(ctx, 'C02')")
        d_raw = sc.fam.groups[0][1]
        d_raws = [d_raw] + ([np.asarray(sc.rows.arrs["y"]).shape[1] // (2 if getattr(sc.fam, "b_cls", "") == "FuzzyART" else 1)]
                            if sc.kind == "ARTMAP" else [])
        try:
            judge_after_plot(ctx, targets, sc.n_presented, None, rep, where, sc.fam.mode, d_raws)
            ncat = max(len(getattr(t[2], "W", [])) for t in targets)
            if "short-colors" in sc.plot or sc.plot.startswith("fit_gif"):
                cov.hit("plot:shared:" + ("more-categories-than-colours" if ncat > 2 else "palette-covers-the-categories"))
            # training goes on after the picture: the categories only grow and still summarise all their members
            k = 1 + (len(sc.rows) > 2)
            prev = [snap(t[2]) for t in targets]
            try:
                sc.fam.pfit(sc.est, sc.rows.sl(0, k))
            except Exception as e:
                cov.hit(f"plot:continuation-raised:{sc.kind}:{exc_enum(e)}")
                continue
            more = sc.rows.concat(sc.rows.sl(0, k))
            t2 = summary_targets(sc.kind, sc.fam, sc.est, more)
            for (pre, cls, m, _, _, _), b in zip(t2, prev):
                monotone(ctx, cls, b, snap(m), dict(rep, then_partial_fit_rows=k), f"{pre}after-plotting/")
            judge_after_plot(ctx, t2, sc.n_presented + k, None, dict(rep, then_partial_fit_rows=k), where + f" then partial_fit rows 0:{k}",
                             sc.fam.mode, d_raws)
            cov.hit("plot:shared:continued-with-partial_fit")
        except Exception as e:
            cov.hit(f"plot:oracle-not-applicable:{sc.kind}:{exc_enum(e)}")
        cov.case(("plot-shared", sc.fam.spec, sc.desc["rows"], sc.plot, sc.trained_by), True)


def many_category_spec(r, cls, d):
    """hyper-parameters under which a short stream founds several categories that each absorb several samples, with
    learning rate 1 (the exact-summary clause)"""
    spec = specs.elem_spec(r, cls, specs.width(cls, d) if cls != "FuzzyART" else d)
    if cls in ("FuzzyART", "HypersphereART"):
        spec["beta"] = 1.0
    if r.random() < 0.75:
        if cls == "FuzzyART":
            spec["rho"] = r.choice([0.75, 0.875, 0.9375])
        elif cls == "ART1":
            spec["rho"] = r.choice([0.75, 1.0])
        elif cls == "HypersphereART":
            spec["rho"] = r.choice([0.75, 0.875])
            spec["r_hat"] = r.choice([1.0, 2.0])
            spec["alpha"] = max(spec["alpha"], 2.0 ** -10)
        elif cls == "GaussianART":
            spec["rho"] = r.choice([0.5, 0.75])
            spec["sigma_init"] = [0.25] * d
        elif cls == "BayesianART":
            spec["rho"] = r.choice([2.0 ** -12, 2.0 ** -6])
    return spec


def palette(r, plt, ncat, short):
    """(colour table, description): fewer colours than categories, or enough; a list of names or an RGBA array"""
    k = r.randint(1, max(1, ncat - 1)) if short else ncat + r.randint(0, 3)
    kind = r.choice(["names", "rgba-array", "rgba-tuples"])
    if kind == "names":
        cols = [["r", "g", "b", "c", "m", "y", "k"][q % 7] for q in range(k)]
    elif kind == "rgba-array":
        cols = plt.cm.rainbow(np.linspace(0, 1, k))
    else:
        cols = [(0.1 * (q % 10), 0.5, 0.5, 1.0) for q in range(k)]
    return cols, {"n_colors": k, "colors": kind}


def own_plotting_histories(ctx, nmax):
    """histories of this check's own making: learning rate 1, vigilance high enough for MORE categories than the colour
    table has entries; bare modules (also trained by fit_gif with a small n_cluster_estimate / a short colour list),
    SimpleARTMAP and ARTMAP sides and FusionART channels drawn with the labels_ array that names their categories,
    between the batches of one training pass"""
    from ..impl import FusionART, SimpleARTMAP, ARTMAP
    import shutil
    import tempfile
    plt = _plt()
    cov = ctx.cov
    if plt is None:
        cov.hit("plot:matplotlib-missing")
        return
    tmp = tempfile.mkdtemp(prefix="artv-C02-plot-")
    hosts = ["", "fit_gif", "SimpleARTMAP/", "", "ARTMAP.A/", "FusionART.channel/", "ARTMAP.B/", ""]
    try:
        for i in range(ctx.scale(32, 400)):
            r = gen.rng_for(ctx.seed, "C02-plot-own", i)
            hostk = hosts[i % len(hosts)]
            cls = r.choice(["FuzzyART", "FuzzyART", "ART1", "HypersphereART", "GaussianART", "BayesianART"] if hostk != "ARTMAP.B/"
                           else ["FuzzyART", "FuzzyART", "HypersphereART", "GaussianART"])
            d = r.choice([2, 2, 3])
            n = r.randint(6, 9 if hostk == "fit_gif" else min(nmax, 14))
            spec = many_category_spec(r, cls, d)
            X = specs.elem_data(r, cls, n, d, style=r.choice(["dups", "coarse", "blobs", "uniform"]))
            mode = r.choice(MODES)
            parts = gen.compositions(r, n)
            log = []
            rep = {"host": hostk, "class": cls, "spec": spec, "d": d, "X": X.tolist(), "mode": mode, "batches": parts, "plotting_calls": log,
                   "generator": "own_plotting_histories"}
            # ---- the estimator, the module whose categories are judged, who is drawn with which labels
            try:
                m = make(spec)
                with quiet():
                    if hostk in ("", "fit_gif"):
                        est, pre = m, ""
                        train = lambda sl: est.partial_fit(X[sl], match_tracking=mode)                       # noqa: E731
                        drawn = [("visualize(X, labels_)", m, X, lambda: m.labels_)]
                    elif hostk == "SimpleARTMAP/":
                        est, pre = SimpleARTMAP(m), "SimpleARTMAP/"
                        y = gen.labels(r, n, 3)
                        rep["y"] = y.tolist()
                        train = lambda sl: est.partial_fit(X[sl], y[sl], match_tracking=mode)                # noqa: E731
                        drawn = [("module_a.visualize(X, module_a.labels_)", m, X, lambda: m.labels_),
                                 ("SimpleARTMAP.visualize(X, labels_)", est, X, lambda: est.labels_)]
                    elif hostk in ("ARTMAP.A/", "ARTMAP.B/"):
                        co = r.choice(["FuzzyART", "FuzzyART", "HypersphereART"])
                        so = many_category_spec(r, co, 2)
                        Xo = specs.elem_data(r, co, n, 2, style=r.choice(["dups", "coarse", "blobs"]))
                        mo = make(so)
                        rep["other_side"] = {"spec": so, "X": Xo.tolist()}
                        est, pre = (ARTMAP(m, mo), "ARTMAP.A/") if hostk == "ARTMAP.A/" else (ARTMAP(mo, m), "ARTMAP.B/")
                        A, B = (X, Xo) if hostk == "ARTMAP.A/" else (Xo, X)
                        train = lambda sl: est.partial_fit(A[sl], B[sl], match_tracking=mode)               # noqa: E731
                        drawn = [("module_a.visualize(X, module_a.labels_)", est.module_a, A, lambda: est.module_a.labels_),
                                 ("module_b.visualize(y, module_b.labels_)", est.module_b, B, lambda: est.module_b.labels_)]
                    else:
                        co = r.choice(["FuzzyART", "ART1"])
                        so = specs.elem_spec(r, co, 2)
                        so["rho"] = 0.0 if co == "FuzzyART" else so["rho"]
                        if co == "FuzzyART":
                            so["beta"], so["alpha"] = 1.0, max(so["alpha"], 2.0 ** -10)
                        Xo = specs.elem_data(r, co, n, 2, style=r.choice(["dups", "coarse"]))
                        slot = r.randrange(2)
                        mods = [m, make(so)] if slot == 0 else [make(so), m]
                        blocks = [X, Xo] if slot == 0 else [Xo, X]
                        dims = [b.shape[1] for b in blocks]
                        rep.update(slot=slot, channel_dims=dims, gamma_values=[0.5, 0.5], other_channel={"spec": so, "X": Xo.tolist()})
                        est, pre = FusionART(mods, gamma_values=[0.5, 0.5], channel_dims=dims), "FusionART.channel/"
                        XX = np.hstack(blocks)
                        train = lambda sl: est.partial_fit(XX[sl], match_tracking=mode)                      # noqa: E731
                        drawn = [("modules[k].visualize(X_k, FusionART.labels_)", m, X, lambda: est.labels_),
                                 ("FusionART.visualize(X, labels_)", est, XX, lambda: est.labels_)]
            except Exception as e:
                cov.hit(f"plot:own:make-raised:{hostk}{cls}:{exc_enum(e)}")
                continue
            lab = (lambda: est.labels_) if pre == "FusionART.channel/" else (lambda: m.labels_)
            targets = [(pre, cls, m, X, lab, True)]
            sigp = f"{pre}after-plotting/"
            overflowed = False

            def draw(where_, seen):
                """one plotting call on the current state; returns False when nothing was drawn"""
                nonlocal overflowed
                name, who, Xw, getlab = r.choice(drawn)
                cur_labels = np.asarray(getlab())
                ncat = int(cur_labels.max()) + 1 if len(cur_labels) else 1    # what the colour table is indexed by
                how = r.choice(["visualize:short", "visualize:short", "visualize:long", "visualize:default", "plot_cluster_bounds:short"])
                cols, cdesc = palette(r, plt, ncat, short=how.endswith("short"))
                own = r.random() < 0.8
                log.append(dict(cdesc, after_rows=seen, call=name, how=how, own_labels_array=own, categories=ncat))
                before = [snap(m)]
                raised = None
                try:
                    with quiet():
                        labels = getlab()
                        labels = labels if own else np.array(labels)
                        fig, ax = plt.subplots()
                        if how == "plot_cluster_bounds:short":
                            who.plot_cluster_bounds(ax, cols)
                        elif how == "visualize:default":
                            who.visualize(np.asarray(Xw)[:seen], labels, ax=ax)
                        else:
                            who.visualize(np.asarray(Xw)[:seen], labels, ax=ax, colors=cols)
                except Exception as e:
                    raised = exc_enum(e)
                    cov.hit(f"plot:own:drawing-raised:{type(who).__name__}:{how}:{raised}")
                finally:
                    plt.close("all")
                if ncat > cdesc["n_colors"] and how != "visualize:default":
                    overflowed = True
                    cov.hit("plot:own:more-categories-than-colours")
                    if own and how.startswith("visualize"):
                        cov.hit("plot:own:more-categories-than-colours:own-labels_-array:" + (pre or "bare/"))
                cov.hit(f"plot:own:{how}")
                cov.hit(f"plot:own:{name}")
                judge_after_plot(ctx, targets, seen, before, dict(rep, rows_presented=seen),
                                 f"{where_}: {name} [{how}, {cdesc['n_colors']} colours ({cdesc['colors']}), {ncat} categories]"
                                 + (f" (drawing raised {raised})" if raised else ""), mode, [d])

            ok = True
            if hostk == "fit_gif":
                # the animated twin of fit: one frame per sample, drawn with the live labels_ and a palette of
                # n_cluster_estimate + 1 colours (or the caller's colour list)
                kw = {"n_cluster_estimate": r.randint(1, 3)} if r.random() < 0.6 else {"colors": palette(r, plt, r.randint(2, 4), True)[0]}
                rep["fit_gif"] = {k_: (v if isinstance(v, int) else len(v)) for k_, v in kw.items()}
                try:
                    with quiet():
                        est.fit_gif(X, filename=f"{tmp}/g{i}.gif", fps=50, match_tracking=mode, **kw)
                except Exception as e:
                    cov.hit(f"plot:own:fit_gif-raised:{cls}:{exc_enum(e)}")
                    plt.close("all")
                    continue
                plt.close("all")
                ncol = kw["n_cluster_estimate"] + 1 if "n_cluster_estimate" in kw else len(kw["colors"])
                if len(m.W) > ncol:
                    overflowed = True
                    cov.hit("plot:own:fit_gif:more-categories-than-colours")
                cov.hit("plot:own:fit_gif:" + ("n_cluster_estimate" if "n_cluster_estimate" in kw else "colors"))
                judge_after_plot(ctx, targets, n, None, rep, f"fit_gif({rep['fit_gif']}) created {len(m.W)} categories", mode, [d])
                # and training goes on: a few of the rows again
                k = r.randint(1, 3)
                prev = snap(m)
                try:
                    with quiet():
                        est.partial_fit(X[:k], match_tracking=mode)
                    monotone(ctx, cls, prev, snap(m), dict(rep, then_partial_fit_rows=k), sigp)
                    Xall = np.vstack([X, X[:k]])
                    judge_after_plot(ctx, [(pre, cls, m, Xall, lab, True)], n + k, None, dict(rep, then_partial_fit_rows=k),
                                     f"fit_gif({rep['fit_gif']}) then partial_fit rows 0:{k}", mode, [d])
                    cov.hit("plot:own:fit_gif:continued-with-partial_fit")
                except Exception as e:
                    cov.hit(f"plot:own:fit_gif:continuation-raised:{cls}:{exc_enum(e)}")
            else:
                prev, seen = [], 0
                for b, p in enumerate(parts):
                    try:
                        with quiet():
                            train(slice(seen, seen + p))
                    except Exception as e:
                        cov.hit(f"plot:own:train-raised:{pre}{cls}:{exc_enum(e)}")
                        ok = False
                        break
                    seen += p
                    cur = snap(m)
                    monotone(ctx, cls, prev, cur, dict(rep, batch=b), sigp)
                    prev = cur
                    if b == len(parts) - 1 or (len(log) < 2 and r.random() < 0.4):
                        draw(f"after batch {b} ({seen} rows)", seen)
                if ok:
                    # the pass is over: the summary of ALL rows, whatever was drawn on the way
                    judge_after_plot(ctx, targets, n, None, rep, f"end of the pass, {len(log)} plotting calls on the way", mode, [d])
            if ok:
                cov.hit(f"plot:own:history:{hostk or 'bare'}:{cls}")
                cov.case(("plot-own", hostk, cls, spec, rep["X"], mode, parts, repr(log), repr(rep.get("fit_gif"))), overflowed)
    finally:
        shutil.rmtree(tmp, ignore_errors=True)


def run(ctx):
    cov = ctx.cov
    N = ctx.scale(300, 7000)
    nmax = ctx.scale(18, 70)
    classes = ["FuzzyART", "ART1", "HypersphereART", "EllipsoidART", "GaussianART", "BayesianART"]
    Ndual = ctx.scale(150, 3000)
    Ntopo = ctx.scale(150, 3000)
    for i in range(N + Ndual + Ntopo):
        r = gen.rng_for(ctx.seed, "C02", i)
        forced_dual = N <= i < N + Ndual
        forced_topo = i >= N + Ndual
        cls = classes[i % len(classes)] if not (forced_dual or forced_topo) else ["FuzzyART", "HypersphereART", "EllipsoidART"][i % 3]
        d = r.randint(1, 3) if not forced_dual else r.randint(2, 3)
        n = r.randint(2, nmax)
        spec = specs.elem_spec(r, cls, specs.width(cls, d) if cls != "FuzzyART" else d)
        if cls in ("FuzzyART", "HypersphereART") and r.random() < 0.6:
            spec["beta"] = 1.0
        if cls in ("HypersphereART", "EllipsoidART") and r.random() < 0.35:
            # rho = 0 with a sphere budget smaller than the data spread: only the (negative) match value
            # keeps far samples out
            spec["rho"] = 0.0
            spec["alpha"] = max(spec["alpha"], 2.0 ** -10)
            spec["r_hat"] = r.choice([0.25, 0.5])
        X = specs.elem_data(r, cls, n, d, floats=r.random() < 0.3 and cls != "ART1")
        if cls in ("HypersphereART", "EllipsoidART", "GaussianART", "BayesianART") and r.random() < 0.35:
            # near-duplicate readings: copies of earlier rows moved by less than 1e-7 (but not 0)
            k_ = r.randint(1, max(1, n // 2))
            src = [r.randrange(n) for _ in range(k_)]
            near = np.clip(X[src] + np.array([[r.choice([-1, 1]) * 2.0 ** -r.choice([24, 26, 30]) for _ in range(X.shape[1])]
                                              for _ in range(k_)]), 0.0, 1.0)
            X = np.vstack([X, near])
            n = len(X)
            cov.hit("near-duplicate-rows")
        if cls == "ART1" and r.random() < 0.5:
            # binary data need not arrive as float64: boolean masks and small integers are valid ART1 input
            X = X.astype(r.choice([bool, np.int8, np.int64]))
            cov.hit(f"art1-input-dtype:{X.dtype}")
        mode = r.choice(MODES)
        # modes that may lower the threshold are excluded from the size bound by the theorem (MT-, finding F20)
        use_reset = r.random() < 0.4
        vt = gen.veto_table(r, n, n + 1)
        host = r.choice(["", "", "SimpleARTMAP/", "DualVigilanceART/", "TopoART/"]) if cls in ("FuzzyART", "HypersphereART", "EllipsoidART") else r.choice(["", "SimpleARTMAP/"])
        if forced_dual:
            # a candidate that fails BOTH vigilance tests followed by one whose match lies in [lower, upper):
            # needs the two thresholds close together and activation order != match order
            host = "DualVigilanceART/"
            spec["rho"] = r.choice([0.75, 0.875, 0.8])
            use_reset = r.random() < 0.2
        if forced_topo:
            # two categories with a non-degenerate region resonate for the same sample: low vigilance, a generous
            # size budget, slow learning for the second winner (beta_lower < beta)
            host = "TopoART/"
            spec["rho"] = r.choice([0.0, 0.125, 0.25])
            spec["beta"] = r.choice([1.0, 0.5])
            if cls in ("HypersphereART", "EllipsoidART"):
                spec["r_hat"] = r.choice([2.0, 4.0])
                spec["alpha"] = max(spec["alpha"], 2.0 ** -10)
            use_reset = r.random() < 0.2
            cov.hit("forced-topo-two-winners")
        rep = {"class": cls, "host": host, "spec": spec, "X": X.tolist(), "mode": mode, "reset": use_reset, "veto": vt if use_reset else None}
        try:
            m = make(spec)
            if host == "SimpleARTMAP/":
                y = gen.labels(r, n, 3)
                est = make({"cls": "SimpleARTMAP", "module_a": spec})
                m = est.module_a
                rep["y"] = y.tolist()
            elif host == "DualVigilanceART/":
                if spec["rho"] == 0.0:
                    spec["rho"] = 0.5
                lb = r.choice([t for t in ([0.0, 0.125, 0.25] if not forced_dual else [0.5, 0.625, 0.7]) if t < spec["rho"]])
                est = make({"cls": "DualVigilanceART", "base_module": spec, "rho_lower_bound": lb})
                m = est.base_module
            elif host == "TopoART/":
                est = make({"cls": "TopoART", "base_module": spec,
                            "beta_lower": r.choice([b for b in ([0.0, 0.5, 1.0] if not forced_topo else [0.0, 0.25, 0.5]) if b <= spec["beta"]]),
                            "tau": 1000, "phi": 1})
                m = est.base_module
            else:
                est = m
        except Exception as e:
            cov.hit(f"make-raised:{cls}:{exc_enum(e)}")
            continue
        # read-only calls between the training steps (own random stream: the training histories stay what they were)
        ra = gen.rng_for(ctx.seed, "C02-readonly", i)
        reads, read_log = None, []
        if ra.random() < 0.5:
            try:
                with quiet():
                    est.prepare_data(unit_bounds(d))
                reads = host_reads(host, cls, est, m, d)
                rep["read_only_calls"] = read_log
            except Exception as e:
                cov.hit(f"prepare-unit-bounds-raised:{host}{cls}:{exc_enum(e)}")
        step = {"i": -1}
        eps = r.choice([0.0, 1e-10, 0.125, 0.25])
        rep["eps"] = eps
        reset = (lambda i_, w_, c_, params=None, cache=None: not vt[step["i"]][int(c_) % (n + 1)]) if use_reset and host in ("", "DualVigilanceART/", "TopoART/") else None
        prev = []
        ok = True
        absorbed = False
        for t in range(n):
            step["i"] = t
            try:
                with quiet():
                    if host == "SimpleARTMAP/":
                        est.partial_fit(X[t:t + 1], y[t:t + 1], match_tracking=mode, epsilon=eps)
                    else:
                        est.partial_fit(X[t:t + 1], match_reset_func=reset, match_tracking=mode, epsilon=eps)
            except Exception as e:
                cov.hit(f"train-raised:{host}{cls}:{exc_enum(e)}")
                ok = False
                break
            cur = [np.asarray(w, dtype=float).copy() for w in m.W]
            monotone(ctx, cls, prev, cur, dict(rep, step=t), host)
            # a category absorbs a sample only if it covers at least the fraction rho of it (the vigilance bound,
            # recomputed from the weight before the step; match tracking other than MT- only raises the threshold)
            if cls in ("ART1", "FuzzyART") and host in ("", "SimpleARTMAP/") and not (mode == "MT-" and (use_reset or host == "SimpleARTMAP/")):
                try:
                    lab = int(np.asarray(m.labels_)[-1])
                except Exception:
                    lab = -1
                if 0 <= lab < len(prev) and len(cur) == len(prev):
                    xf = np.asarray(X[t], dtype=float)
                    wo = prev[lab][len(xf):] if cls == "ART1" else prev[lab]
                    if xf.sum() > 0:
                        Mv = np.minimum(xf, wo).sum() / xf.sum()
                        if Mv < m.params["rho"] - 1e-12:
                            ctx.issue("violation", f"{host}{cls}:absorbed-below-vigilance",
                                      f"step {t}: category {lab} absorbed a sample of which it covers only {Mv:.4f} < rho = {m.params['rho']} "
                                      f"(input dtype {np.asarray(X).dtype}, mode {mode})", dict(rep, step=t, input_dtype=str(np.asarray(X).dtype)))
                        cov.hit("absorbed-sample-vigilance-checked")
            if len(cur) == len(prev) and t > 0:
                absorbed = True
            prev = cur
            lowered = mode == "MT-" and (use_reset or host == "SimpleARTMAP/")
            if not lowered:
                bounds(ctx, cls, m, dict(rep, step=t), host, d)
            elif lowered:
                # MT- lowers the threshold by design (C01 prescribes match-eps): the size bound relative to the
                # configured rho can fail; reported under one signature (finding F20)
                class _Probe:
                    def __init__(self):
                        self.issues = []
                        self.cov = cov

                    def issue(self, kind, sig, what, replay=None):
                        self.issues.append((sig, what))
                pr = _Probe()
                bounds(pr, cls, m, dict(rep, step=t), host, d)
                if pr.issues:
                    ctx.issue("violation", "MT-:vigilance-bound-lowered",
                              f"{pr.issues[0][0]}: {pr.issues[0][1]} (match tracking MT- lowered the vigilance after a veto)",
                              dict(rep, step=t))
                cov.hit("MT-minus:bound-probed")
            if reads is not None and ra.random() < 0.6:
                # `prev` stays the snapshot taken right after the sample: the next step's monotonicity is judged
                # against it, whatever was called in between
                read_between_steps(ctx, ra, reads, [(f"{host}{cls}.", m)], X[:t + 1], rep, read_log, t, f"{host}{cls}")
                if cls == "FuzzyART" and fuzzy_extent(cur):
                    cov.hit("read-only-call:fuzzy-box-with-extent")
        if not ok:
            continue
        if host in ("", "SimpleARTMAP/"):
            exact_summary(ctx, cls, m, X, np.asarray(m.labels_), rep, host)
        cov.case((host, cls, spec, rep["X"], mode, use_reset), absorbed)
        if i < 3:
            cov.sample({"host": host, "class": cls, "spec": spec, "n": n, "mode": mode, "categories": len(m.W)})
    # FusionART channels hold what their module alone would compute (exact-summary clause per channel):
    # Fuzzy (beta = 1), ART1 and Gaussian channels, streams with repeated rows and nested binary patterns
    for i in range(ctx.scale(60, 1200)):
        r = gen.rng_for(ctx.seed, "C02-fusion", i)
        spec, chans, ds, X = fusion_case(r, nmax)
        try:
            est = make(spec)
            with quiet():
                est.fit(X, match_tracking=r.choice(MODES))
        except Exception as e:
            cov.hit(f"train-raised:FusionART:{exc_enum(e)}")
            continue
        off = 0
        for k, mod in enumerate(est.modules):
            wdt = spec["channel_dims"][k]
            exact_summary(ctx, chans[k], mod, X[:, off:off + wdt], np.asarray(est.labels_),
                          {"fusion": spec, "X": X.tolist(), "channel": k}, "FusionART.channel/")
            off += wdt
        cov.case(("fusion", spec, X.tolist()), True)
        cov.hit("fusion-channels:" + "+".join(chans))
    # FusionART trained in batches with the regression / centre accessors called between the batches: every channel
    # still holds the exact summary of its members, only grows, and is not touched by the calls
    for i in range(ctx.scale(40, 400)):
        r = gen.rng_for(ctx.seed, "C02-fusion-readonly", i)
        spec, chans, ds, X = fusion_case(r, nmax)
        mode = r.choice(MODES)
        parts = gen.compositions(r, len(X))
        read_log = []
        rep = {"fusion": spec, "X": X.tolist(), "mode": mode, "batches": parts, "read_only_calls": read_log}
        try:
            est = make(spec)
            with quiet():
                est.prepare_data([unit_bounds(d_) for d_ in ds])
        except Exception as e:
            cov.hit(f"make-raised:FusionART:{exc_enum(e)}")
            continue
        watched = [(f"FusionART.channel/{c_}.", mod) for c_, mod in zip(chans, est.modules)]
        reads = [("FusionART.get_cluster_centers", lambda Xs: est.get_cluster_centers()),
                 ("FusionART.predict", lambda Xs: est.predict(Xs)),
                 ("FusionART.predict_regression", lambda Xs: est.predict_regression(Xs)),
                 ("FusionART.predict_regression[0]", lambda Xs: est.predict_regression(Xs, target_channels=[0])),
                 ("FusionART.get_channel_centers(0)", lambda Xs: est.get_channel_centers(0)),
                 ("FusionART.get_channel_centers(1)", lambda Xs: est.get_channel_centers(1))]
        prev = [[] for _ in chans]
        ok, seen = True, 0
        for b, Xb in enumerate(gen.split(X, parts)):
            try:
                with quiet():
                    est.partial_fit(Xb, match_tracking=mode)
            except Exception as e:
                cov.hit(f"train-raised:FusionART.partial_fit:{exc_enum(e)}")
                ok = False
                break
            seen += len(Xb)
            cur = [snap(mod) for mod in est.modules]
            for k, c_ in enumerate(chans):
                monotone(ctx, c_, prev[k], cur[k], dict(rep, batch=b, channel=k), "FusionART.channel/")
            prev = cur
            if r.random() < 0.7:
                read_between_steps(ctx, r, reads, watched, X[:seen], rep, read_log, seen - 1, "FusionART(" + "+".join(chans) + ")")
                if any(c_ == "FuzzyART" and fuzzy_extent(cur[k]) for k, c_ in enumerate(chans)):
                    cov.hit("read-only-call:fuzzy-box-with-extent")
        if not ok:
            continue
        off = 0
        for k, mod in enumerate(est.modules):
            wdt = spec["channel_dims"][k]
            exact_summary(ctx, chans[k], mod, X[:, off:off + wdt], np.asarray(est.labels_), dict(rep, channel=k), "FusionART.channel/")
            off += wdt
        cov.case(("fusion-batches", spec, X.tolist(), mode, parts), len(est.modules[0].W) < len(X))
        cov.hit("fusion-batches:" + "+".join(chans))
    # ARTMAP: both sides are ART modules; trained in batches, with predict / predict_ab / predict_regression (which reads
    # the B side's centres) between the batches
    for i in range(ctx.scale(60, 600)):
        r = gen.rng_for(ctx.seed, "C02-artmap", i)
        n = r.randint(2, nmax)
        ca = r.choice(["FuzzyART", "FuzzyART", "HypersphereART", "GaussianART", "ART1"])
        cb = r.choice(["FuzzyART", "FuzzyART", "HypersphereART", "GaussianART"])
        da, db = r.randint(1, 3), r.randint(1, 2)
        sa = specs.elem_spec(r, ca, da)
        sb = specs.elem_spec(r, cb, db)
        for s_ in (sa, sb):
            if s_["cls"] in ("FuzzyART", "HypersphereART") and r.random() < 0.7:
                s_["beta"] = 1.0
        Xa = specs.elem_data(r, ca, n, da, style=r.choice(["dups", "coarse", "blobs", "uniform"]))
        Yb = specs.elem_data(r, cb, n, db, style=r.choice(["dups", "coarse", "blobs"]))
        mode = r.choice(MODES)
        eps = r.choice([0.0, 1e-10, 0.125])
        parts = gen.compositions(r, n)
        read_log = []
        rep = {"host": "ARTMAP", "module_a": sa, "module_b": sb, "X": Xa.tolist(), "y": Yb.tolist(), "mode": mode, "eps": eps,
               "batches": parts, "read_only_calls": read_log}
        try:
            est = make({"cls": "ARTMAP", "module_a": sa, "module_b": sb})
            with quiet():
                est.prepare_data(unit_bounds(da), unit_bounds(db))
        except Exception as e:
            cov.hit(f"make-raised:ARTMAP:{exc_enum(e)}")
            continue
        ma, mb = est.module_a, est.module_b
        watched = [(f"ARTMAP.A/{ca}.", ma), (f"ARTMAP.B/{cb}.", mb)]
        reads = [("ARTMAP.predict", lambda Xs: est.predict(Xs)), ("ARTMAP.predict_ab", lambda Xs: est.predict_ab(Xs)),
                 ("ARTMAP.predict_regression", lambda Xs: est.predict_regression(Xs)),
                 ("ARTMAP.predict_regression", lambda Xs: est.predict_regression(Xs))]
        reads += [("module_a." + nm, f) for nm, f in module_reads(ca, ma, da)] + [("module_b." + nm, f) for nm, f in module_reads(cb, mb, db)]
        prev_a, prev_b = [], []
        ok, seen = True, 0
        for b, (Xb, Yb_) in enumerate(zip(gen.split(Xa, parts), gen.split(Yb, parts))):
            try:
                with quiet():
                    est.partial_fit(Xb, Yb_, match_tracking=mode, epsilon=eps)
            except Exception as e:
                cov.hit(f"train-raised:ARTMAP.partial_fit:{exc_enum(e)}")
                ok = False
                break
            seen += len(Xb)
            cur_a, cur_b = snap(ma), snap(mb)
            monotone(ctx, ca, prev_a, cur_a, dict(rep, batch=b), "ARTMAP.A/")
            monotone(ctx, cb, prev_b, cur_b, dict(rep, batch=b), "ARTMAP.B/")
            prev_a, prev_b = cur_a, cur_b
            # the B side is a plain clustering of y (no vetoes): its size bound holds in every mode
            bounds(ctx, cb, mb, dict(rep, batch=b), "ARTMAP.B/", db)
            if mode != "MT-":
                bounds(ctx, ca, ma, dict(rep, batch=b), "ARTMAP.A/", da)
            if r.random() < 0.7:
                read_between_steps(ctx, r, reads, watched, Xa[:seen], rep, read_log, seen - 1, f"ARTMAP({ca},{cb})")
                if (ca == "FuzzyART" and fuzzy_extent(cur_a)) or (cb == "FuzzyART" and fuzzy_extent(cur_b)):
                    cov.hit("read-only-call:fuzzy-box-with-extent")
        if not ok:
            continue
        exact_summary(ctx, ca, ma, Xa, np.asarray(ma.labels_), rep, "ARTMAP.A/")
        exact_summary(ctx, cb, mb, Yb, np.asarray(mb.labels_), rep, "ARTMAP.B/")
        cov.case(("artmap", sa, sb, rep["X"], rep["y"], mode, parts), len(mb.W) < n or len(ma.W) < n)
        cov.hit(f"artmap-sides:{ca}+{cb}")
    preused_modules(ctx, nmax)
    shared_plotting_scenarios(ctx)
    own_plotting_histories(ctx, nmax)
    e2e.base_histories(ctx, "C02", ctx.scale(150, 3000), ctx.scale(20, 80), fields=("labels", "W"), with_pred=False)
    e2e.sphere_histories(ctx, "C02", ctx.scale(80, 2000), ctx.scale(16, 50))
