"""C15 — incremental Calinski-Harabasz value = batch index; validity-index gates.

Tie:    (a) random permitted add/switch sequences on grid vectors: real `iCVI_CH` against the Lean model
            (`icvi seq`, exact rationals; float vs exact differ only by rounding -> 1e-9 relative),
            incl. one forbidden op at the end (both sides must raise);
        (e) `icvi batch` (model `chBatch`) against `sklearn.metrics.calinski_harabasz_score`;
        (c') the op sequence an `iCVIFuzzyART.fit` really performed (every `iCVI_match` candidate as a
            query op, every accepted op as an update) replayed through the model.
Oracle (implementation alone):
        (b) after every op `criterion_value` = sklearn CH of the current labelled data (0 while undefined);
        (c) after `iCVIFuzzyART.fit` (offline and online) `iCVI.criterion_value` = CH(X, labels_);
            a sample that ended in an existing category has a recorded `iCVI_match` call for that category
            that answered True, with candidate > current, and the *batch* index of the candidate labelling is
            strictly larger than that of the labelling before the step;
        (d) the same for `CVIART.CVI_match` with all three indices (`<` for Davies-Bouldin); the index of the clause is
            the one the estimator reports (`get_params()["validity"]`) when fit is called;
        (d') the same on estimators whose validity index was changed after construction (attribute assignment,
            `set_params`, twice, there and back, same value, on a deep copy, after an earlier fit);
        (d'') the same on hosts whose base module has a hyper-parameter of its OWN called `validity` (iCVIFuzzyART,
            validity=1, offline and online) while the host is built with any of the three indices: `get_params()["validity"]`
            is the index the host was built with and every join strictly improves THAT index — base module fresh, trained
            before being wrapped, shared by two hosts (the other one fitted first or not), its own `validity` assigned
            again behind the host, host deep-copied, host index assigned again; FuzzyART base as the control;
        (d3) CVIART around (or as) a USER SUBCLASS whose documented hooks (`pre_step_fit`, `post_step_fit`, a wrapped
            `step_fit`; on the base module or on the host) re-bind state to an equal container while fit runs — `labels_` as
            int32 / int16 / int8 / uint8 / a fresh int64 array, `W` as an equal list, the counters as plain ints, every k-th
            call from call p on.  In EVERY CVIART run of this file the labelling "before the step" is now the one in force —
            what fit started from plus the assignments `base_module.step_fit` returned, recorded independently of the host's
            `labels_` getter —: every join strictly improves the index on it, and after fit `labels_` (host and base module)
            is exactly those assignments;
        (d4) the record itself: fit stores an assignment with `host.labels_[i] = c`; for CVIART (three indices),
            DualVigilanceART and TopoART (own attribute: control) and label arrays of int64 / int32 / int16 / int8 / uint8
            stored through the host or the base module, the write is read back from the host and, where `labels_` is a
            delegating property, from the base module;
        (f) data whose common offset is huge relative to its spread (a timestamp-like column ~1.7e9 fed to `iCVI_CH`
            directly, add/switch sequences; complement-coded rows confined to a band ~1e-8 wide for `iCVIFuzzyART`,
            offline and online): tracked value = the batch index computed in EXACT rational arithmetic from the same
            float64 inputs, tolerance = first-order rounding bound of the published recurrences
            (n_k*sum((v_k-mu)^2), CP_diff), i.e. ~eps*offset/spread; every join strictly improves the exact index.
"""
from __future__ import annotations

from fractions import Fraction

import numpy as np

from .. import gen
from ..common import run_driver, vec_q, mat_q, nats
from ..impl import quiet, exc_enum, MODES, iCVIFuzzyART, CVIART, FuzzyART

RULE = ("cases = (a) one op sequence (dimension, ops with vectors and labels) on iCVI_CH, (c) one iCVIFuzzyART fit "
        "(params, mode, data, match-tracking mode), (d) one CVIART fit (index, params, data, mode; (d') also the configuration history of the index), (e) one labelled "
        "data set; non-trivial when >= 2 clusters were present at some point and, for fits, >= 1 gate call was made; "
        "distinct by hash of the full input")

TOL = 1e-9
F26_SIG = "iCVI_CH.%s:exact WGSS==0 but float WGSS!=0"


def _sk():
    import sklearn.metrics as M
    return M


def close(a: float, b: float, tol: float = TOL) -> bool:
    a, b = float(a), float(b)
    if a == b:
        return True
    if a != a or b != b:
        return False
    return abs(a - b) <= tol * max(1.0, abs(a), abs(b))


def degenerate(X, labels) -> bool:
    """True iff the index is undefined: < 2 clusters, k >= n, or every cluster consists of identical points
    (exact WGSS = 0)."""
    labels = [int(t) for t in labels]
    ks = sorted(set(labels))
    n = len(labels)
    if len(ks) < 2 or len(ks) >= n:
        return True
    for k in ks:
        rows = [tuple(float(v) for v in X[i]) for i in range(n) if labels[i] == k]
        if len(set(rows)) > 1:
            return False
    return True


def batch_ch(X, labels) -> float:
    """the batch index of labelled data, 0 by convention while undefined (sklearn otherwise)"""
    if degenerate(X, labels):
        return 0.0
    with quiet():
        return float(_sk().calinski_harabasz_score(np.asarray(X, dtype=float), np.asarray(labels, dtype=int)))


def cancel_tol(X, labels) -> float:
    """relative tolerance for a value that divides by the within-cluster scatter: WGSS is accumulated as a difference of
    sums of squares of magnitude S = sum |x|^2, so its absolute rounding error is of the order of eps*S and its relative
    error eps*S/WGSS — tiny for ordinary data, visible (1e-8 … 1e-4) for tight clusters; a wrong formula is off by O(1)"""
    A = np.asarray(X, dtype=float)
    lab = np.asarray(labels, dtype=int)
    if len(A) == 0:
        return TOL
    wg = 0.0
    for k in set(lab.tolist()):
        M = A[lab == k]
        wg += float(((M - M.mean(axis=0)) ** 2).sum())
    S = float((A ** 2).sum()) + 1.0
    if wg <= 0.0:
        return TOL
    return max(TOL, 256 * 2.220446049250313e-16 * S / wg)


def exact_wgss_zero(X, labels) -> bool:
    labels = [int(t) for t in labels]
    for k in set(labels):
        rows = [tuple(float(v) for v in X[i]) for i in range(len(labels)) if labels[i] == k]
        if len(set(rows)) > 1:
            return False
    return True


# ------------------------------------------------------------------ (a) + (b)


def gen_sequence(r, nops: int):
    """returns (d, ops) with ops = ('a', l, x) | ('s', lo, ln, x); all permitted"""
    d = r.randint(1, 4)
    style = r.choice(["uniform", "dups", "dups", "coarse", "blobs", "tight", "tight"])
    pool = None
    centres = [[r.randint(2, 14) / 16 for _ in range(d)] for _ in range(r.randint(2, 3))]
    if style == "dups":
        pool = [[r.randint(0, 16) / 16 for _ in range(d)] for _ in range(r.randint(1, 4))]
    nlab = r.choice([1, 2, 3, 5, 5])
    data = []
    ops = []
    for _ in range(nops):
        if data and r.random() < 0.45:
            i = r.randrange(len(data))
            x, lo = data[i]
            cnt = sum(1 for (_, l) in data if l == lo)
            ln = r.randrange(nlab) if r.random() < 0.8 else r.randint(0, 4)
            if r.random() < 0.1:
                ln = lo
            if ln != lo and cnt < 2:
                continue
            data[i] = (x, ln)
            ops.append(("s", lo, ln, x))
        else:
            if style == "dups":
                x = list(r.choice(pool))
            elif style == "coarse":
                x = [r.choice([0, 4, 8, 12, 16]) / 16 for _ in range(d)]
            elif style == "tight":
                # tight clusters: readings a few 1e-5 apart around well separated centres — the within-cluster
                # scatter is tiny but not zero, the index is large and perfectly well defined
                c_ = r.choice(centres)
                x = [c_[j] + r.randint(-3, 3) * 2.0 ** -17 for j in range(d)]
            elif style == "blobs" and data and r.random() < 0.7:
                b = r.choice(data)[0]
                x = [min(1.0, max(0.0, b[j] + r.randint(-1, 1) / 16)) for j in range(d)]
            else:
                x = [r.randint(0, 16) / 16 for _ in range(d)]
            l = r.randrange(nlab)
            data.append((x, l))
            ops.append(("a", l, x))
    return d, ops


def op_text(op) -> str:
    if op[0] in ("a", "qa"):
        return f"{op[0]}:{op[1]}:{vec_q(op[2])}"
    return f"{op[0]}:{op[1]}:{op[2]}:{vec_q(op[3])}"


def run_impl_sequence(ctx, d, ops, forbidden=None):
    """drive the real iCVI_CH; returns list of per-op records and the branch hits"""
    from artlib.cvi.iCVIs.CalinkskiHarabasz import iCVI_CH
    cov = ctx.cov
    ic = iCVI_CH(np.zeros(d))
    data = []  # [x, label]
    recs = []
    for op in ops:
        if op[0] == "a":
            _, l, x = op
            xa = np.array(x, dtype=float)
            cov.hit("add:existing-label" if l in ic.CD else "add:new-label")
            p = ic.add_sample(xa, l)
            ic.update(p)
            data.append([x, l])
        else:
            _, lo, ln, x = op
            xa = np.array(x, dtype=float)
            if lo == ln:
                cov.hit("switch:same-label")
            else:
                cov.hit("switch:to-existing" if ln in ic.CD else "switch:to-new")
            p = ic.switch_label(xa, lo, ln)
            ic.update(p)
            for row in data:
                if row[1] == lo and row[0] == x:
                    row[1] = ln
                    break
        X = [row[0] for row in data]
        labs = [row[1] for row in data]
        if len(ic.CD) < 2:
            cov.hit("n_clusters<2")
        elif exact_wgss_zero(X, labs):
            cov.hit("exact-WGSS==0")
        recs.append(dict(crit=float(ic.criterion_value), n=int(ic.n_samples), wgss=float(ic.WGSS), k=len(ic.CD),
                         X=[list(t) for t in X], labels=list(labs), op=op[0]))
    raised = None
    if forbidden is not None:
        try:
            ic.switch_label(np.array(forbidden[3], dtype=float), forbidden[1], forbidden[2])
            raised = False
        except Exception:
            raised = True
            cov.hit("switch:raises-on-cluster-of-1")
    return recs, raised


def check_sequences(ctx):
    cov = ctx.cov
    N = ctx.scale(500, 6000)
    maxops = ctx.scale(28, 60)
    lines, meta = [], []
    cases = []
    # the deterministic F26 reproducer always runs first
    f26 = (1, [("a", 3, [0.25]), ("a", 1, [0.5]), ("a", 1, [0.75]), ("a", 1, [0.5]), ("s", 1, 0, [0.75])])
    cases.append(("F26-reproducer", f26[0], f26[1]))
    for i in range(N):
        r = gen.rng_for(ctx.seed, "C15-seq", i)
        d, ops = gen_sequence(r, r.randint(1, maxops))
        if ops:
            cases.append((i, d, ops))
    for (cid, d, ops) in cases:
        # a forbidden final op: switch the only member of a singleton cluster elsewhere
        forbidden = None
        data = []
        for op in ops:
            if op[0] == "a":
                data.append([op[2], op[1]])
            else:
                for row in data:
                    if row[1] == op[1] and row[0] == op[3]:
                        row[1] = op[2]
                        break
        cnt = {}
        for x, l in data:
            cnt[l] = cnt.get(l, 0) + 1
        singles = [(x, l) for (x, l) in data if cnt[l] == 1]
        if singles:
            x, l = singles[0]
            forbidden = ("s", l, l + 7, x)
        try:
            with quiet():
                recs, raised = run_impl_sequence(ctx, d, ops, forbidden)
        except Exception as e:
            ctx.issue("violation", f"iCVI_CH:{exc_enum(e)}", f"permitted op sequence raised {e!r}",
                      {"dim": d, "ops": [op_text(o) for o in ops]})
            cov.case((d, ops), False)
            continue
        # ---- oracle (b): implementation alone, against sklearn
        for j, rc in enumerate(recs):
            want = batch_ch(rc["X"], rc["labels"])
            if not close(rc["crit"], want, cancel_tol(rc["X"], rc["labels"])):
                opname = "switch_label" if rc["op"] == "s" else "add_sample"
                if exact_wgss_zero(rc["X"], rc["labels"]) and rc["wgss"] != 0.0 and rc["k"] >= 2:
                    sig = F26_SIG % opname
                    cov.hit("F26")
                else:
                    sig = f"iCVI_CH.{opname}:criterion_value != batch index"
                ctx.issue("violation", sig,
                          f"after op {j} ({op_text(ops[j])}) criterion_value={rc['crit']!r} WGSS={rc['wgss']!r} but the "
                          f"batch Calinski-Harabasz index of the labelled data is {want!r}",
                          {"dim": d, "ops": [op_text(o) for o in ops[: j + 1]], "X": rc["X"], "labels": rc["labels"]})
                break
        if forbidden is not None and raised is False:
            ctx.issue("violation", "iCVI_CH.switch_label:no exception on a cluster of 1",
                      "switch_label out of a singleton cluster did not raise", {"dim": d, "ops": [op_text(o) for o in ops]})
        text = ";".join(op_text(o) for o in ops) + ((";" + op_text(forbidden)) if forbidden else "")
        lines.append(f"icvi seq {d} {text}")
        meta.append((cid, d, ops, recs, forbidden))
        cov.case((d, ops), any(rc["k"] >= 2 for rc in recs))
        cov.traces += 1
        if len(cov.samples) < 2:
            cov.sample({"dim": d, "ops": [op_text(o) for o in ops][:8], "crit": [rc["crit"] for rc in recs][:8]})
    outs = run_driver(lines)
    for line, out, (cid, d, ops, recs, forbidden) in zip(lines, outs, meta):
        rep = {"case": cid, "line": line, "model": out}
        fs = out.split(";")
        want_len = len(ops) + (1 if forbidden else 0)
        if out == "bad-op" or len(fs) != want_len:
            ctx.issue("diff", "icvi-seq:shape", f"case {cid}: model output has {len(fs)} fields for {want_len} ops: {out[:120]}", rep)
            continue
        if forbidden and fs[-1] != "err":
            ctx.issue("diff", "icvi-seq:forbidden", f"case {cid}: implementation raised on {op_text(forbidden)}, model printed {fs[-1]}", rep)
            continue
        for j, (f, rc) in enumerate(zip(fs, recs)):
            parts = f.split(":")
            if len(parts) != 4:
                ctx.issue("diff", "icvi-seq:raise", f"case {cid} op {j}: model printed {f!r} where the implementation succeeded", rep)
                break
            mc, mn, mw, mk = Fraction(parts[0]), int(parts[1]), Fraction(parts[2]), int(parts[3])
            if mn != rc["n"] or mk != rc["k"]:
                ctx.issue("diff", "icvi-seq:counts", f"case {cid} op {j}: impl (n,k)=({rc['n']},{rc['k']}) model ({mn},{mk})", rep)
                break
            if mw == 0 and rc["wgss"] != 0.0 and abs(rc["wgss"]) < 1e-12:
                # the float-only residue (F26): the oracle above reports it; the exact model is right to print 0
                cov.hit("model-WGSS==0-impl-residue")
                if mk >= 2 and mc != 0:
                    ctx.issue("diff", "icvi-seq:zero-convention", f"case {cid} op {j}: exact WGSS = 0 but model criterion {mc}", rep)
                    break
                continue
            if not close(float(mw), rc["wgss"]) and abs(float(mw) - rc["wgss"]) > 1e-12:
                ctx.issue("diff", "icvi-seq:WGSS", f"case {cid} op {j}: impl WGSS {rc['wgss']!r} model {float(mw)!r} ({mw})", rep)
                break
            if not close(float(mc), rc["crit"], cancel_tol(rc["X"], rc["labels"])):
                ctx.issue("diff", "icvi-seq:criterion", f"case {cid} op {j}: impl criterion {rc['crit']!r} model {float(mc)!r} ({mc})", rep)
                break


# ------------------------------------------------------------------ (e)


def check_batch(ctx):
    cov = ctx.cov
    N = ctx.scale(150, 3000)
    lines, meta = [], []
    for i in range(N):
        r = gen.rng_for(ctx.seed, "C15-batch", i)
        d = r.randint(1, 4)
        n = r.randint(1, ctx.scale(16, 40))
        X = gen.grid_rows(r, n, d)
        k = r.choice([1, 2, 3, 4, n])
        labels = [r.randrange(k) * r.choice([1, 1, 3]) for _ in range(n)]
        lines.append(f"icvi batch {mat_q(X)} {nats(labels)}")
        meta.append((i, X, labels))
    outs = run_driver(lines)
    for line, out, (i, X, labels) in zip(lines, outs, meta):
        rep = {"case": i, "line": line, "model": out}
        if not out.startswith("ch="):
            ctx.issue("diff", "icvi-batch:shape", f"case {i}: {out}", rep)
            continue
        want = batch_ch(X, labels)
        got = float(Fraction(out[3:]))
        cov.case(("batch", X.tolist(), labels), want != 0.0)
        cov.hit("batch:undefined->0" if degenerate(X, labels) else "batch:defined")
        if not close(got, want):
            ctx.issue("diff", "icvi-batch:value", f"case {i}: model chBatch {got!r}, sklearn {want!r}", rep)


# ------------------------------------------------------------------ (c) iCVIFuzzyART


def check_icvi_fuzzy(ctx):
    cov = ctx.cov
    N = ctx.scale(100, 1000)
    nmax = ctx.scale(22, 48)
    lines, meta = [], []
    for i in range(N):
        r = gen.rng_for(ctx.seed, "C15-icvifuzzy", i)
        d = r.randint(1, 3)
        n = r.randint(1, nmax)
        offline = (i % 2 == 0)
        mode = MODES[(i // 2) % 5]
        eps = r.choice([0.0, 2.0 ** -20, 2.0 ** -10])
        Xr = gen.grid_rows(r, n, d)
        X = gen.cc(Xr)
        p = gen.fuzzy_params(r)
        if r.random() < 0.5:
            p["rho"] = r.choice([0.0, 0.25, 0.5])     # low vigilance: the gate decides
        if p["rho"] == 0.0 and p["alpha"] == 0.0:
            p["alpha"] = 2.0 ** -10                   # standing assumption of FuzzyART for rho = 0
        key = ("icvifuzzy", p, offline, mode, eps, X.tolist())
        with quiet():
            m = iCVIFuzzyART(p["rho"], p["alpha"], p["beta"], validity=1, offline=offline)
        calls = []       # (sample index, c_, answer, old, new, labels before (copy), ops-level record)
        steps = []       # (index, ncat before, returned c)
        orig_match = m.iCVI_match
        orig_step = m.step_fit

        def wrapped_match(x, w, c_, params=None, cache=None, _m=m, _o=orig_match):
            idx = _m.index
            old = float(_m.iCVI.criterion_value)
            if _m.offline:
                new = _m.iCVI.switch_label(x, _m.labels_[idx], c_)
            else:
                new = _m.iCVI.add_sample(x, c_)
            ans = _o(x, w, c_, params, cache)
            calls.append((int(idx), int(c_), bool(ans), old, float(new["criterion_value"]),
                          [int(t) for t in _m.labels_], float(_m.iCVI.WGSS)))
            return ans

        def wrapped_step(x, *a, _m=m, _o=orig_step, **kw):
            nc = len(_m.W)
            c = _o(x, *a, **kw)
            steps.append((int(_m.index), nc, int(c)))
            return c

        object.__setattr__(m, "iCVI_match", wrapped_match)
        object.__setattr__(m, "step_fit", wrapped_step)
        rep = {"params": p, "offline": offline, "mode": mode, "eps": eps, "X": X}
        try:
            with quiet():
                m.fit(X, match_tracking=mode, epsilon=eps)
        except Exception as e:
            ctx.issue("violation", f"iCVIFuzzyART.fit:{exc_enum(e)}:{'offline' if offline else 'online'}",
                      f"fit raised {e!r} on validated data (mode {mode})", rep)
            cov.case(key, False)
            continue
        labels = [int(t) for t in m.labels_]
        crit = float(m.iCVI.criterion_value)
        want = batch_ch(X, labels)
        cov.hit("icvifuzzy:offline" if offline else "icvifuzzy:online")
        f26 = exact_wgss_zero(X, labels) and float(m.iCVI.WGSS) != 0.0 and len(set(labels)) >= 2
        if not close(crit, want):
            if f26:
                sig = F26_SIG % ("switch_label" if offline else "add_sample")
                cov.hit("F26")
            else:
                sig = f"iCVIFuzzyART.fit:{'offline' if offline else 'online'}:tracked value != CH(X, labels_)"
            ctx.issue("violation", sig, f"after fit criterion_value={crit!r}, CH(X, labels_)={want!r}, labels={labels}",
                      dict(rep, labels=labels))
        # ---- gate
        for (idx, nc, c) in steps:
            if c >= nc:
                cov.hit("gate:new-category")
                continue
            cov.hit("gate:joined-existing")
            mine = [t for t in calls if t[0] == idx and t[1] == c]
            if not mine or not mine[-1][2]:
                ctx.issue("violation", "iCVIFuzzyART.fit:joined existing category without a True iCVI_match",
                          f"sample {idx} -> category {c} (of {nc}); recorded calls {[(t[1], t[2]) for t in calls if t[0] == idx]}",
                          dict(rep, sample=idx))
                continue
            _, _, _, old, new, lab_before, wg = mine[-1]
            if not (new > old):
                ctx.issue("violation", "iCVIFuzzyART.iCVI_match:True without new > old",
                          f"sample {idx} -> {c}: tracked index of the labelling before the step {old!r}, after {new!r}", dict(rep, sample=idx))
                continue
            # the statement on the index itself (batch values of the two labellings)
            if offline:
                Xb, lb = X, list(lab_before)
                la = list(lab_before)
                la[idx] = c
                Xa = X
            else:
                Xb, lb = X[:idx], list(lab_before[:idx])
                Xa, la = X[: idx + 1], list(lab_before[:idx]) + [c]
            vb, va = batch_ch(Xb, lb), batch_ch(Xa, la)
            if not (va > vb):
                if close(va, vb, 1e-7):
                    cov.hit("gate:float-ambiguous")
                elif (exact_wgss_zero(Xb, lb) or exact_wgss_zero(Xa, la)) and wg != 0.0:
                    cov.hit("F26")
                    ctx.issue("violation", F26_SIG % ("switch_label" if offline else "add_sample"),
                              f"gate of sample {idx} -> {c} decided on a criterion computed from a float WGSS residue "
                              f"(batch {vb!r} -> {va!r}, tracked {old!r} -> {new!r})", dict(rep, sample=idx))
                else:
                    ctx.issue("violation", "iCVIFuzzyART.fit:joined existing category without improving the index",
                              f"sample {idx} -> {c}: batch index {vb!r} -> {va!r} (tracked {old!r} -> {new!r})",
                              dict(rep, sample=idx))
        for t in calls:
            cov.hit("gate:allowed" if t[2] else "gate:vetoed")
        cov.case(key, len(set(labels)) >= 2 and len(calls) > 0)
        cov.traces += 1
        if i < 2:
            cov.sample({"iCVIFuzzyART": p, "offline": offline, "mode": mode, "n": n, "labels": labels, "crit": crit})
        # ---- (c') model replay of what the fit did to its iCVI object
        ops = []
        if offline:
            for x in X:
                ops.append(("a", 0, list(x)))
        cur = [0] * n
        byidx = {}
        for t in calls:
            byidx.setdefault(t[0], []).append(t)
        expect = []    # per op: None (state op) | candidate value
        for _ in ops:
            expect.append(None)
        for (idx, nc, c) in steps:
            for t in byidx.get(idx, []):
                if offline:
                    ops.append(("qs", cur[idx], t[1], list(X[idx])))
                else:
                    ops.append(("qa", t[1], list(X[idx])))
                expect.append(t[4])
            if offline:
                ops.append(("s", cur[idx], c, list(X[idx])))
            else:
                ops.append(("a", c, list(X[idx])))
            expect.append(None)
            cur[idx] = c
        if f26 or any(t[6] != 0.0 and abs(t[6]) < 1e-12 for t in calls):
            cov.hit("replay-skipped:float-residue")
            continue
        lines.append(f"icvi seq {2 * d} {';'.join(op_text(o) for o in ops)}")
        meta.append((i, ops, expect, crit, rep))
    outs = run_driver(lines)
    for line, out, (i, ops, expect, crit, rep) in zip(lines, outs, meta):
        rp = dict(rep, line=line, model=out)
        fs = out.split(";")
        if len(fs) != len(ops) or "err" in fs:
            ctx.issue("diff", "icvi-fit-replay:shape", f"case {i}: model could not follow the fit: {out[:160]}", rp)
            continue
        ok = True
        for j, (f, e) in enumerate(zip(fs, expect)):
            if e is not None:
                if not f.startswith("q") or not close(float(Fraction(f[1:])), e):
                    ctx.issue("diff", "icvi-fit-replay:candidate", f"case {i} op {j} {op_text(ops[j])}: impl candidate {e!r}, model {f}", rp)
                    ok = False
                    break
        if ok and not close(float(Fraction(fs[-1].split(":")[0])), crit):
            ctx.issue("diff", "icvi-fit-replay:final", f"case {i}: impl criterion {crit!r}, model {fs[-1]}", rp)


# ------------------------------------------------------------------ (d) CVIART


VI_NAMES = {1: "calinski_harabasz", 2: "davies_bouldin", 3: "silhouette"}


def _blob_rows(r, n: int, d: int) -> np.ndarray:
    """noisy readings around a few centres, clipped to [0,1] (floats, not on the grid): the three indices disagree on
    border samples of such data far more often than on the coarse grid rows"""
    k = r.randint(2, 4)
    cs = [[r.random() for _ in range(d)] for _ in range(k)]
    sd = r.choice([0.04, 0.08, 0.12])
    rows = []
    for _ in range(n):
        c = r.choice(cs)
        rows.append([min(1.0, max(0.0, c[j] + r.gauss(0.0, sd))) for j in range(d)])
    return np.array(rows, dtype=float).reshape(n, d)


SIG_LABELS_NOT_ASSIGNMENTS = "CVIART.fit:labels_ after fit is not the assignments made"


def _cviart_gate_run(ctx, funcs, m, X, mode, eps, epochs, rep, key, changed, index=None, sig=None, situation=None):
    """One observed `CVIART.fit` of the already configured estimator `m`.
    "The labelling before the step" is the labelling IN FORCE: what fit started from (read from the base module at the
    first step) plus the assignments `base_module.step_fit` has RETURNED since — recorded here, independently of what the
    host's `labels_` getter hands out.  Every join of an existing category is judged on that labelling, and after fit
    `labels_` (host and base module) must be exactly those assignments.  `situation` names the lifecycle in the
    signature of a join that breaks the clause (user hooks re-binding state, ...).  The index of the gate clause is the one the
    ESTIMATOR REPORTS (`get_params()["validity"]`) when fit is called — not whatever value travels inside fit —: every
    join of an existing category must make the batch value of THAT index strictly better than before the step.
    With `index` given (d'') the clause is stated for that index — the one the caller configured the host with — whatever
    the estimator reports (the caller has compared the two); `sig` is then the signature of a join that breaks it."""
    cov = ctx.cov
    n = len(X)
    try:
        with quiet():
            reported = m.get_params()["validity"]
    except Exception as e:
        ctx.issue("violation", f"CVIART.get_params:{exc_enum(e)}", f"get_params raised {e!r}", rep)
        return None
    if index is None and reported not in funcs:
        ctx.issue("violation", "CVIART.get_params:validity is not one of the three indices",
                  f"get_params()['validity'] = {reported!r}", rep)
        return None
    clause = reported if index is None else index
    vname = VI_NAMES[clause]
    rep = dict(rep, reported_validity=VI_NAMES.get(reported, repr(reported)))
    f = funcs[clause]
    calls = []
    steps = []
    orig_match = m.CVI_match
    base = m.base_module
    orig_step = base.step_fit
    force = {"lab": None, "stale": None}     # the labelling in force; first gate call that saw another one

    def wrapped_match(x, w, c_, params, extra, cache, _m=m, _o=orig_match):
        idx = int(extra["index"])
        nW = len(_m.W)
        old = new = None
        ans = _o(x, w, c_, params, extra, cache)
        if nW >= 2 and ans:
            # (the gate call does not touch labels_: the labelling before the step is still in place; only the calls
            #  that allowed the join are evaluated, a vetoed candidate is never looked at again)
            seen = np.array(_m.labels_).astype(int)
            lab = seen.copy() if force["lab"] is None else force["lab"].copy()
            if force["stale"] is None and not np.array_equal(seen, lab):
                force["stale"] = (len(steps), idx, int(c_), seen.tolist(), lab.tolist())
            try:
                old = float(f(_m.data, lab))
                lab2 = lab.copy()
                lab2[idx] = c_
                new = float(f(_m.data, lab2))
            except Exception:
                old = new = None
        calls.append((idx, int(c_), bool(ans), nW, old, new))
        return ans

    def wrapped_step(x, *a, _b=base, _o=orig_step, **kw):
        nc = len(_b.W)
        k0 = len(calls)
        if force["lab"] is None:
            # what fit starts from, as the base module holds it when the first sample is presented
            try:
                force["lab"] = np.array(_b.labels_).astype(int).copy()
            except Exception:
                force["lab"] = np.zeros(n, dtype=int)
            if force["lab"].shape != (n,):
                force["lab"] = np.zeros(n, dtype=int)
        c = _o(x, *a, **kw)
        force["lab"][len(steps) % n] = int(c)
        steps.append((nc, int(c), calls[k0:]))
        return c

    object.__setattr__(m, "CVI_match", wrapped_match)
    object.__setattr__(base, "step_fit", wrapped_step)
    try:
        with quiet():
            m.fit(X, max_iter=epochs, match_tracking=mode, epsilon=eps)
    except Exception as e:
        if epochs > 1 and len(steps) >= n and isinstance(e, ValueError) and "Number of labels is" in str(e):
            # a later epoch met a labelling on which the batch index is undefined (every sample its own cluster,
            # or one cluster only): sklearn raises.  That is a totality defect (C04, finding F35); C15's gate
            # clause cannot be evaluated on this run
            cov.hit("cviart:later-epoch-undefined-index-raises(C04-F35)")
            cov.case(key, False)
            return None
        ctx.issue("violation", f"CVIART.fit:{exc_enum(e)}:{vname}",
                  f"fit raised {e!r} on validated data (mode {mode})", rep)
        cov.case(key, False)
        return None
    finally:
        m.__dict__.pop("CVI_match", None)
        base.__dict__.pop("step_fit", None)
    cov.hit(f"cviart:{vname}")
    with quiet():
        still = m.get_params()["validity"]
    if still != reported:
        ctx.issue("violation", "CVIART.fit:changes the validity index the estimator reports",
                  f"get_params()['validity'] was {reported!r} before fit and is {still!r} after", rep)
    labels = [int(t) for t in m.labels_]
    if force["lab"] is not None and len(steps) >= n:
        made = [int(t) for t in force["lab"]]
        cov.hit("cviart:labels_-compared-with-the-assignments-step_fit-returned")
        try:
            held = [int(t) for t in np.asarray(base.labels_)]
        except Exception:
            held = None
        if labels != made or held != made:
            who = "labels_" if labels != made else "base_module.labels_"
            got = labels if labels != made else held
            bad = [j for j in range(n) if got is None or j >= len(got) or got[j] != made[j]]
            ctx.issue("violation", SIG_LABELS_NOT_ASSIGNMENTS + (f":{situation}" if situation else ""),
                      f"after fit {who} = {got} but base_module.step_fit returned the assignments {made} "
                      f"({len(bad)} of {n} samples differ, first: sample {bad[0] if bad else '?'})"
                      + (f" (configuration history: {rep.get('configured')})" if rep.get("configured") else ""),
                      dict(rep, labels=labels, assignments=made))
    if force["stale"] is not None:
        cov.hit("cvi-gate:host-saw-a-labelling-other-than-the-assignments-made")
        rep = dict(rep, first_gate_call_on_another_labelling=dict(
            step=force["stale"][0], sample=force["stale"][1], candidate=force["stale"][2],
            labels_seen_by_host=force["stale"][3], labelling_in_force=force["stale"][4]))
    for sidx, (nc, c, during) in enumerate(steps):
        idx = sidx % n
        if sidx >= n:
            cov.hit("cvi-gate:later-epoch")
        if c >= nc:
            cov.hit("cvi-gate:new-category")
            continue
        cov.hit("cvi-gate:joined-existing")
        mine = [t for t in during if t[0] == idx and t[1] == c]
        if not mine or not mine[-1][2]:
            ctx.issue("violation", "CVIART.fit:joined existing category without a True CVI_match",
                      f"sample {idx} (epoch {sidx // n}) -> category {c} (of {nc}); calls {[(t[1], t[2]) for t in during]}",
                      dict(rep, sample=idx))
            continue
        _, _, _, nW, old, new = mine[-1]
        if nW < 2:
            cov.hit("cvi-gate:len(W)<2")
            continue
        if changed:
            cov.hit("cvi-gate:joined-existing:index-changed-after-construction")
        if index is not None:
            cov.hit("cvi-gate:joined-existing:judged-by-the-index-the-host-was-built-with")
        if old is None:
            cov.hit("cvi-gate:index-undefined-on-the-labelling-in-force(not judged)")
            continue
        better = (new < old) if clause == 2 else (new > old)
        if not better:
            if situation is not None:
                sg = f"CVIART.fit:{situation}:join without a strictly better index on the labelling in force:{vname}"
                who = f"the estimator reports validity={vname}"
            elif index is not None:
                sg = f"{sig}:{vname}"
                who = f"the host was configured with validity={vname} (it reports {rep['reported_validity']})"
            elif changed:
                sg = f"CVIART.fit:validity changed after construction:join without a strictly better reported index:{vname}"
                who = f"the estimator reports validity={vname}"
            else:
                sg = f"CVIART.CVI_match:True without a strictly better index:{vname}"
                who = f"the estimator reports validity={vname}"
            ctx.issue("violation", sg,
                      f"{who}; sample {idx} (epoch {sidx // n}) joined the existing category "
                      f"{c}: {vname} of the labelling before the step {old!r}, after {new!r}"
                      + (f" (configuration history: {rep.get('configured')})" if (changed or index is not None or situation) else ""),
                      dict(rep, sample=idx, epoch=sidx // n))
            if changed or index is not None or situation is not None:
                break   # one report per reconfigured run: the following joins of the run repeat it
    for t in calls:
        cov.hit("cvi-gate:allowed" if t[2] else "cvi-gate:vetoed")
    cov.case(key, len(set(labels)) >= 2 and len(calls) > 0)
    cov.traces += 1
    return labels


def _cviart_inputs(r, i, nmax, blobs=False):
    d = r.randint(1, 3)
    n = r.randint(2, nmax)
    mode = MODES[(i // 3) % 5]
    eps = r.choice([0.0, 2.0 ** -20])
    if blobs:
        X = gen.cc(_blob_rows(r, n, d))
    else:
        X = gen.cc(gen.grid_rows(r, n, d))
    p = gen.fuzzy_params(r)
    if r.random() < 0.4:
        p["rho"] = r.choice([0.0, 0.25, 0.5])
    if p["rho"] == 0.0 and p["alpha"] == 0.0:
        p["alpha"] = 2.0 ** -10
    epochs = r.choice([1, 1, 2, 3])
    return d, n, mode, eps, X, p, epochs


def check_cviart(ctx):
    cov = ctx.cov
    M = _sk()
    funcs = {1: M.calinski_harabasz_score, 2: M.davies_bouldin_score, 3: M.silhouette_score}
    N = ctx.scale(90, 420)
    nmax = ctx.scale(16, 24)
    for i in range(N):
        r = gen.rng_for(ctx.seed, "C15-cviart", i)
        validity = 1 + (i % 3)
        d, n, mode, eps, X, p, epochs = _cviart_inputs(r, i, nmax)
        key = ("cviart", validity, p, mode, eps, X.tolist(), epochs)
        rep = {"validity": VI_NAMES[validity], "params": p, "mode": mode, "eps": eps, "X": X, "max_iter": epochs}
        try:
            with quiet():
                m = CVIART(FuzzyART(p["rho"], p["alpha"], p["beta"]), validity)
        except Exception as e:
            ctx.issue("violation", f"CVIART.__init__:{exc_enum(e)}", f"constructor raised {e!r}", rep)
            continue
        labels = _cviart_gate_run(ctx, funcs, m, X, mode, eps, epochs, rep, key, changed=False)
        if labels is not None and i < 3:
            cov.sample({"CVIART": VI_NAMES[validity], "params": p, "mode": mode, "n": n, "labels": labels})


RECONF_HOWS = ["attribute", "set_params", "attribute", "set_params", "twice", "there-and-back", "same-value",
               "after-a-first-fit", "set_params-with-base-params", "deepcopy-then-attribute"]


def check_cviart_reconfigured(ctx):
    """(d') the validity index is an ordinary hyper-parameter of the estimator (`params["validity"]`, reported by
    `get_params()`); it can be changed after construction — attribute assignment, `set_params`, several times, back to
    the first value, on a deep copy, after an earlier fit.  Whatever the history, the joins of the next fit are gated by the
    index the estimator reports at that moment."""
    cov = ctx.cov
    M = _sk()
    funcs = {1: M.calinski_harabasz_score, 2: M.davies_bouldin_score, 3: M.silhouette_score}
    N = ctx.scale(60, 400)
    nmax = ctx.scale(18, 26)
    for i in range(N):
        r = gen.rng_for(ctx.seed, "C15-cviart-reconf", i)
        how = RECONF_HOWS[i % len(RECONF_HOWS)]
        v0 = 1 + (i // len(RECONF_HOWS) + i) % 3
        others = [v for v in (1, 2, 3) if v != v0]
        v1 = r.choice(others)
        v2 = r.choice([v for v in (1, 2, 3) if v != v1])
        d, n, mode, eps, X, p, epochs = _cviart_inputs(r, i, nmax, blobs=(r.random() < 0.6))
        if r.random() < 0.5:
            p["rho"] = r.choice([0.0, 0.25, 0.5])   # low vigilance: the index decides, not the base module
            if p["rho"] == 0.0 and p["alpha"] == 0.0:
                p["alpha"] = 2.0 ** -10
        history = [f"CVIART(FuzzyART, {VI_NAMES[v0]})"]
        rep = {"constructed_with": VI_NAMES[v0], "how": how, "params": p, "mode": mode, "eps": eps, "X": X,
               "max_iter": epochs}
        try:
            with quiet():
                m = CVIART(FuzzyART(p["rho"], p["alpha"], p["beta"]), v0)
                final = v0
                if how == "attribute":
                    m.validity = v1
                    final = v1
                    history.append(f"m.validity = {VI_NAMES[v1]}")
                elif how == "set_params":
                    m.set_params(validity=v1)
                    final = v1
                    history.append(f"m.set_params(validity={VI_NAMES[v1]})")
                elif how == "twice":
                    m.validity = v1
                    m.set_params(validity=v2)
                    final = v2
                    history += [f"m.validity = {VI_NAMES[v1]}", f"m.set_params(validity={VI_NAMES[v2]})"]
                elif how == "there-and-back":
                    m.set_params(validity=v1)
                    m.validity = v0
                    final = v0
                    history += [f"m.set_params(validity={VI_NAMES[v1]})", f"m.validity = {VI_NAMES[v0]}"]
                elif how == "same-value":
                    if r.random() < 0.5:
                        m.validity = v0
                    else:
                        m.set_params(validity=v0)
                    final = v0
                    history.append(f"validity set again to {VI_NAMES[v0]}")
                elif how == "after-a-first-fit":
                    try:
                        m.fit(X, max_iter=1, match_tracking=mode, epsilon=eps)
                        history.append("m.fit(X)")
                    except Exception:
                        history.append("m.fit(X) raised")
                    if r.random() < 0.5:
                        m.validity = v1
                        history.append(f"m.validity = {VI_NAMES[v1]}")
                    else:
                        m.set_params(validity=v1)
                        history.append(f"m.set_params(validity={VI_NAMES[v1]})")
                    final = v1
                elif how == "set_params-with-base-params":
                    m.set_params(validity=v1, rho=p["rho"], beta=p["beta"])
                    final = v1
                    history.append(f"m.set_params(validity={VI_NAMES[v1]}, rho=, beta=)")
                elif how == "deepcopy-then-attribute":
                    import copy
                    m = copy.deepcopy(m)
                    history.append("m = deepcopy(m)")
                    m.validity = v1
                    final = v1
                    history.append(f"m.validity = {VI_NAMES[v1]}")
        except Exception as e:
            ctx.issue("violation", f"CVIART:{exc_enum(e)}:changing validity after construction ({how})",
                      f"{'; '.join(history)} then {e!r}", rep)
            continue
        rep["configured"] = "; ".join(history)
        cov.hit(f"cviart-reconf:{how}")
        with quiet():
            rp = m.get_params()["validity"]
        if rp != final:
            # the hyper-parameter did not take the assigned value: the estimator no longer says which index it uses
            ctx.issue("violation", f"CVIART.get_params:validity not the last value assigned ({how})",
                      f"{rep['configured']}: get_params()['validity'] = {rp!r}, last assigned {final!r}", rep)
            continue
        cov.hit(f"cviart-reconf:{VI_NAMES[v0]}->{VI_NAMES[final]}")
        key = ("cviart-reconf", how, v0, v1, v2, p, mode, eps, X.tolist(), epochs)
        labels = _cviart_gate_run(ctx, funcs, m, X, mode, eps, epochs, rep, key, changed=True)
        if labels is not None and i < 2:
            cov.sample({"CVIART": rep["configured"], "params": p, "mode": mode, "n": n, "labels": labels})


OWNV_BASES = ["icvi-offline", "icvi-online", "icvi-offline", "icvi-online", "icvi-offline", "icvi-online", "fuzzy"]
OWNV_LIVES = ["fresh", "base-fitted-before-being-wrapped", "base-shared-by-two-hosts", "base-validity-set-behind-the-host",
              "host-deepcopy", "fresh", "other-host-of-the-base-fitted-first", "host-index-set-again"]
OWNV_SIG_REPORT = "CVIART.__init__:get_params()['validity'] is not the index the host was built with"
OWNV_SIG_GATE = "CVIART.fit:base module has a hyper-parameter of its own called validity:join without a strictly better host index"


def check_cviart_base_with_own_validity(ctx):
    """(d'') the host's hyper-parameters are the base module's plus `validity`; a base module may carry a hyper-parameter
    of its OWN with that very name (iCVIFuzzyART: `validity` = CALINSKIHARABASZ = 1, `offline`).  The index of the
    property's clause is the one the HOST was built with: `get_params()["validity"]` reports it and every join of an
    existing category strictly improves IT — whatever the base module's own `validity` says, and whatever happened to the
    base module before (trained on its own, wrapped by another host as well, its own `validity` assigned again after the
    host was built) or to the host (deep copy, the same index assigned again).  A plain FuzzyART base runs through the
    same lifecycles as the control."""
    import copy
    cov = ctx.cov
    M = _sk()
    funcs = {1: M.calinski_harabasz_score, 2: M.davies_bouldin_score, 3: M.silhouette_score}
    N = ctx.scale(48, 400)
    nmax = ctx.scale(18, 26)
    for i in range(N):
        r = gen.rng_for(ctx.seed, "C15-cviart-ownvalidity", i)
        kind = OWNV_BASES[i % len(OWNV_BASES)]
        life = OWNV_LIVES[(i // 3) % len(OWNV_LIVES)]
        v = (2, 3, 1, 3, 2)[i % 5]            # mostly an index other than the base module's own value (1)
        d, n, mode, eps, X, p, epochs = _cviart_inputs(r, i, nmax, blobs=(r.random() < 0.6))
        if r.random() < 0.5:
            p["rho"] = r.choice([0.0, 0.25, 0.5])   # low vigilance: the index decides, not the base module
            if p["rho"] == 0.0 and p["alpha"] == 0.0:
                p["alpha"] = 2.0 ** -10

        def mk_base():
            if kind == "fuzzy":
                return FuzzyART(p["rho"], p["alpha"], p["beta"])
            return iCVIFuzzyART(p["rho"], p["alpha"], p["beta"], validity=iCVIFuzzyART.CALINSKIHARABASZ,
                                offline=(kind == "icvi-offline"))

        base_txt = "FuzzyART" if kind == "fuzzy" else f"iCVIFuzzyART(validity=1, offline={kind == 'icvi-offline'})"
        history = []
        rep = {"base": base_txt, "host_validity": VI_NAMES[v], "lifecycle": life, "params": p, "mode": mode, "eps": eps,
               "X": X, "max_iter": epochs}
        try:
            with quiet():
                base = mk_base()
                if life == "base-fitted-before-being-wrapped":
                    try:
                        base.fit(X, match_tracking=mode, epsilon=eps)
                        history.append("base.fit(X)")
                    except Exception:
                        history.append("base.fit(X) raised")
                v_other = r.choice([t for t in (1, 2, 3) if t != v])
                other = None
                if life in ("base-shared-by-two-hosts", "other-host-of-the-base-fitted-first"):
                    other = CVIART(base, v_other)
                    history.append(f"other = CVIART(base, {VI_NAMES[v_other]})")
                m = CVIART(base, v)
                history.append(f"m = CVIART(base, {VI_NAMES[v]})")
                if life == "other-host-of-the-base-fitted-first":
                    try:
                        other.fit(X, max_iter=1, match_tracking=mode, epsilon=eps)
                        history.append("other.fit(X)")
                    except Exception:
                        history.append("other.fit(X) raised")
                elif life == "base-validity-set-behind-the-host" and kind != "fuzzy":
                    if r.random() < 0.5:
                        base.validity = iCVIFuzzyART.CALINSKIHARABASZ
                        history.append("base.validity = 1")
                    else:
                        base.set_params(validity=iCVIFuzzyART.CALINSKIHARABASZ)
                        history.append("base.set_params(validity=1)")
                elif life == "host-deepcopy":
                    m = copy.deepcopy(m)
                    history.append("m = deepcopy(m)")
                elif life == "host-index-set-again":
                    if r.random() < 0.5:
                        m.validity = v
                        history.append(f"m.validity = {VI_NAMES[v]}")
                    else:
                        m.set_params(validity=v)
                        history.append(f"m.set_params(validity={VI_NAMES[v]})")
                rp = m.get_params()["validity"]
                if other is not None:
                    rp_other = other.get_params()["validity"]
        except Exception as e:
            ctx.issue("violation", f"CVIART:{exc_enum(e)}:host of a base module with its own validity ({kind}, {life})",
                      f"{base_txt}; {'; '.join(history)} then {e!r}", rep)
            continue
        rep["configured"] = f"base = {base_txt}; " + "; ".join(history)
        cov.hit(f"cviart-ownvalidity:base={kind}")
        cov.hit(f"cviart-ownvalidity:{life}")
        cov.hit("cviart-ownvalidity:host-index " + ("!=" if v != 1 else "==") + " the base module's own validity"
                if kind != "fuzzy" else "cviart-ownvalidity:control(FuzzyART base)")
        if rp != v:
            ctx.issue("violation", OWNV_SIG_REPORT,
                      f"{rep['configured']}: get_params()['validity'] = {rp!r} ({VI_NAMES.get(rp, '?')}), the host was built with "
                      f"{v!r} ({VI_NAMES[v]})", rep)
        if other is not None and rp_other != v_other:
            ctx.issue("violation", OWNV_SIG_REPORT,
                      f"{rep['configured']}: other.get_params()['validity'] = {rp_other!r}, that host was built with "
                      f"{v_other!r} ({VI_NAMES[v_other]})", dict(rep, host_validity=VI_NAMES[v_other]))
        key = ("cviart-ownvalidity", kind, life, v, p, mode, eps, X.tolist(), epochs)
        labels = _cviart_gate_run(ctx, funcs, m, X, mode, eps, epochs, rep, key, changed=False, index=v, sig=OWNV_SIG_GATE)
        if labels is not None and i < 2:
            cov.sample({"CVIART": rep["configured"], "params": p, "mode": mode, "n": n, "labels": labels})


# ------------------------------------------------------------------ (d3) user subclasses whose hooks re-bind state
#
# `pre_step_fit` / `post_step_fit` are the documented extension points ("this is where pruning steps can go"); a user
# subclass may also wrap `step_fit`.  The hooks below never change a VALUE: they re-store state the module owns in an
# equal container — `labels_` in a narrower integer type (same labels, less memory), as a fresh equal array; `W` as an
# equal list; the per-category counters as plain ints.  Through such a run the property reads as for any other: every
# join of an existing category strictly improves the index of the labelling in force, and `labels_` is the assignments.

HOOK_LABEL_ACTIONS = ["labels:int32", "labels:int32", "labels:int8", "labels:int16", "labels:uint8", "labels:int64-copy",
                      "labels:int32-via-asarray", "labels:intc"]
HOOK_OTHER_ACTIONS = ["W:equal-list", "W:copied-arrays", "counters:plain-ints", "counters:np.int64", "sample_counter:int",
                      "none"]
HOOK_WHERES = ["post_step_fit", "pre_step_fit", "post_step_fit", "step_fit-override", "host.post_step_fit",
               "host.pre_step_fit", "post_step_fit"]


def _hook_apply(obj, actions):
    """value-preserving re-binding of state through the attributes of `obj` (a base module, or a host whose properties
    delegate to its base module)"""
    for a in actions:
        if a == "labels:int32":
            obj.labels_ = obj.labels_.astype(np.int32, copy=False)
        elif a == "labels:int8":
            obj.labels_ = obj.labels_.astype(np.int8)
        elif a == "labels:int16":
            obj.labels_ = obj.labels_.astype(np.int16, copy=False)
        elif a == "labels:uint8":
            obj.labels_ = obj.labels_.astype(np.uint8)
        elif a == "labels:intc":
            obj.labels_ = obj.labels_.astype(np.intc)
        elif a == "labels:int64-copy":
            obj.labels_ = np.array(obj.labels_, dtype=np.int64)
        elif a == "labels:int32-via-asarray":
            obj.labels_ = np.asarray(obj.labels_, dtype=np.int32)
        elif a == "W:equal-list":
            obj.W = list(obj.W)
        elif a == "W:copied-arrays":
            obj.W = [np.array(w, copy=True) for w in obj.W]
        elif a == "counters:plain-ints":
            obj.weight_sample_counter_ = [int(v) for v in obj.weight_sample_counter_]
        elif a == "counters:np.int64":
            obj.weight_sample_counter_ = [np.int64(v) for v in obj.weight_sample_counter_]
        elif a == "sample_counter:int":
            obj.sample_counter_ = int(obj.sample_counter_)


def _hooked_classes(where, actions, period, phase):
    """(base class, host class, call counter): ordinary user subclasses of FuzzyART / CVIART that run `actions` in the
    hook `where` every `period` calls, starting at call number `phase`"""
    tick = {"n": 0}

    def due():
        tick["n"] += 1
        return tick["n"] >= phase and (tick["n"] - phase) % period == 0

    class HookedFuzzyART(FuzzyART):
        def pre_step_fit(self, X):
            super().pre_step_fit(X)
            if where == "pre_step_fit" and due():
                _hook_apply(self, actions)

        def post_step_fit(self, X):
            super().post_step_fit(X)
            if where == "post_step_fit" and due():
                _hook_apply(self, actions)

        def step_fit(self, x, *a, **kw):
            c = super().step_fit(x, *a, **kw)
            if where == "step_fit-override" and due():
                _hook_apply(self, actions)
            return c

    class HookedCVIART(CVIART):
        def pre_step_fit(self, X):
            super().pre_step_fit(X)
            if where == "host.pre_step_fit" and due():
                _hook_apply(self, actions)

        def post_step_fit(self, X):
            super().post_step_fit(X)
            if where == "host.post_step_fit" and due():
                _hook_apply(self, actions)

    return HookedFuzzyART, (HookedCVIART if where.startswith("host.") else CVIART), tick


def check_cviart_hooked_subclasses(ctx):
    """(d3) CVIART around / as a user subclass whose hooks re-bind `labels_`, `W`, the counters (values unchanged)"""
    cov = ctx.cov
    M = _sk()
    funcs = {1: M.calinski_harabasz_score, 2: M.davies_bouldin_score, 3: M.silhouette_score}
    N = ctx.scale(30, 420)
    nmax = ctx.scale(20, 28)
    for i in range(N):
        r = gen.rng_for(ctx.seed, "C15-cviart-hooks", i)
        validity = 1 + (i % 3)
        where = HOOK_WHERES[(i // 3) % len(HOOK_WHERES)]
        d, n, mode, eps, X, p, epochs = _cviart_inputs(r, i, nmax, blobs=(r.random() < 0.6))
        if n < 8:
            n = r.randint(8, nmax)
            X = gen.cc(_blob_rows(r, n, d))
        if r.random() < 0.6:
            p["rho"] = r.choice([0.0, 0.25, 0.5])   # low vigilance: the index decides, not the base module
            if p["rho"] == 0.0 and p["alpha"] == 0.0:
                p["alpha"] = 2.0 ** -10
        if i % 7 == 6:
            actions = [r.choice(HOOK_OTHER_ACTIONS)]                       # control: labels_ is left alone
        else:
            actions = [r.choice(HOOK_LABEL_ACTIONS)]
            if r.random() < 0.4:
                actions.insert(r.randrange(2), r.choice(HOOK_OTHER_ACTIONS[:-1]))
        period = r.choice([1, 1, 2, 3, 5])
        phase = r.randint(1, max(1, min(6, n // 2)))
        situation = "user subclass whose hook re-binds state to an equal container"
        rep = {"validity": VI_NAMES[validity], "params": p, "mode": mode, "eps": eps, "X": X, "max_iter": epochs,
               "hook": where, "hook_actions": actions, "hook_period": period, "hook_first_call": phase}
        rep["configured"] = (f"{'HookedCVIART' if where.startswith('host.') else 'CVIART'}(HookedFuzzyART, "
                             f"{VI_NAMES[validity]}); {where} runs {actions} every {period} call(s) from call {phase} on")
        try:
            with quiet():
                Base, Host, tick = _hooked_classes(where, actions, period, phase)
                m = Host(Base(p["rho"], p["alpha"], p["beta"]), validity)
        except Exception as e:
            ctx.issue("violation", f"CVIART.__init__:{exc_enum(e)}:user subclass", f"constructor raised {e!r}", rep)
            continue
        key = ("cviart-hooks", validity, where, tuple(actions), period, phase, p, mode, eps, X.tolist(), epochs)
        labels = _cviart_gate_run(ctx, funcs, m, X, mode, eps, epochs, rep, key, changed=False, situation=situation)
        if labels is None:
            continue
        cov.hit(f"cviart-hooks:{where}")
        for a in actions:
            cov.hit(f"cviart-hooks:{a}")
        if tick["n"] >= phase:
            cov.hit("cviart-hooks:hook-ran-during-fit")
            if any(a.startswith("labels:") for a in actions):
                cov.hit(f"cviart-hooks:labels_ held as {np.asarray(m.base_module.labels_).dtype} after fit")
        if i < 2:
            cov.sample({"CVIART": rep["configured"], "params": p, "mode": mode, "n": n, "labels": labels})


# ------------------------------------------------------------------ (d4) the delegation of labels_ itself
#
# `fit` of every host records an assignment with `self.labels_[i] = c`: an item assignment on whatever the host's
# `labels_` hands out.  That is only a record if the write is read back — from the host and, where the host's `labels_`
# is a property delegating to the base module, from the base module — for ANY integer array stored there.

DELEG_DTYPES = [np.int64, np.int32, np.int8, np.int16, np.intc, np.uint8]
DELEG_HOSTS = ["CVIART:1", "CVIART:2", "CVIART:3", "DualVigilanceART", "TopoART"]


def check_label_delegation(ctx):
    from ..impl import DualVigilanceART, TopoART
    cov = ctx.cov
    N = ctx.scale(60, 300)
    for i in range(N):
        r = gen.rng_for(ctx.seed, "C15-labels-delegation", i)
        hk = DELEG_HOSTS[i % len(DELEG_HOSTS)]
        dt = DELEG_DTYPES[(i // len(DELEG_HOSTS)) % len(DELEG_DTYPES)]
        via = ["host", "base"][(i // (len(DELEG_HOSTS) * len(DELEG_DTYPES))) % 2]
        fitted = r.random() < 0.4
        n = r.randint(3, 12)
        k = r.randint(2, 5)
        lab = [r.randrange(k) for _ in range(n)]
        j = r.randrange(n)
        c = r.choice([t for t in range(k + 1) if t != lab[j]])
        dname = np.dtype(dt).name
        rep = {"host": hk, "dtype": dname, "stored_via": via, "fitted_first": fitted, "labels": lab, "write": [j, c]}
        try:
            with quiet():
                base = FuzzyART(0.5, 2.0 ** -10, 1.0)
                if hk.startswith("CVIART"):
                    host = CVIART(base, int(hk[-1]))
                elif hk == "DualVigilanceART":
                    host = DualVigilanceART(base, 0.25)
                else:
                    host = TopoART(base, 0.5, 3, 2)
                if fitted:
                    X0 = gen.cc(_blob_rows(r, 6, 2))
                    try:
                        host.fit(X0)
                    except Exception:
                        pass
                cls = type(host).__name__
                delegating = isinstance(getattr(type(host), "labels_", None), property)
                arr = np.array(lab, dtype=dt)
                if via == "base" and delegating:
                    base.labels_ = arr
                else:
                    host.labels_ = arr
                first = [int(t) for t in host.labels_]
                host.labels_[j] = c
                back = int(host.labels_[j])
                at_base = int(base.labels_[j]) if delegating else None
                same_obj = delegating and (host.labels_ is base.labels_)
        except Exception as e:
            ctx.issue("violation", f"{hk.split(':')[0]}.labels_:{exc_enum(e)}:{dname}",
                      f"storing / reading / item-assigning an integer label array raised {e!r}", rep)
            continue
        cov.hit(f"labels-delegation:{cls}:{dname}")
        cov.hit("labels-delegation:" + ("property-delegating-to-base_module" if delegating else "own-attribute(control)"))
        if delegating:
            cov.hit("labels-delegation:host.labels_ is base_module.labels_" if same_obj
                    else "labels-delegation:host.labels_ is NOT the base module's array")
        if first != lab:
            ctx.issue("violation", f"{cls}.labels_:stored labels are not read back:{dname}",
                      f"stored {lab} ({dname}) through the {via}, host.labels_ = {first}", rep)
            continue
        if back != c or (delegating and at_base != c):
            lost = "host.labels_" if back != c else "base_module.labels_"
            ctx.issue("violation", f"{cls}.labels_:item assignment through the host is lost:{dname}",
                      f"labels_ holds {lab} as {dname} (stored through the {via}); after host.labels_[{j}] = {c}, "
                      f"{lost}[{j}] = {back if back != c else at_base} — fit records every assignment this way", rep)
        cov.case(("labels-delegation", hk, dname, via, fitted, tuple(lab), j, c), True)


# ------------------------------------------------------------------ (f) huge common offset, exact rational reference
#
# Data whose common offset is huge relative to its spread (a raw timestamp column around 1.7e9 with readings a few units
# apart; complement-coded rows confined to a band ~1e-8 wide somewhere inside [0,1]).  The reference value is the batch
# index computed in EXACT rational arithmetic from the very same float64 inputs, so it depends on no evaluation order.
# The tolerance is the first-order rounding bound of the PUBLISHED recurrences: the stored means (mu, v_k) have
# magnitude a_j = max|X[:,j]| and are rounded once per update (absolute error <= eps*a_j each time, <= e_j = (T+1)*eps*a_j
# after T operations); every quantity the formulas use is a DIFFERENCE of such means / samples (v_k - mu, x - v_k,
# deltaV), of the size of the data's spread, and enters squared:
#     BGSS = sum n_k * sum_j (v_kj - mu_j)^2   ->  |dBGSS| <= sum_k n_k sum_j (2|d_kj|*2e_j + (2e_j)^2)
#     WGSS = sum of <= 2 CP_diff per operation, each three products of two differences of size <= D_j (column range)
#                                              ->  |dWGSS| <= (#CP_diff) * sum_j (6 D_j e_j + 3 e_j^2)
# i.e. relative errors of the order eps * offset / spread — NOT eps * (offset / spread)^2, which is what an evaluation
# through |v|^2 - 2 v.mu + |mu|^2 (or sum x^2 - n v^2) would have.  Cases for which even this bound exceeds
# OFFSET_TOL_CAP are not judged (counted as ill-conditioned for the published formula).

EPS = 2.0 ** -52
OFFSET_TOL_CAP = 1e-2


def _exact_stats(X, labels):
    """Exact (integer / rational) batch statistics of the labelled float64 data.
    returns dict(N, k, B, W, ch, cl) with B, W, ch Fractions (ch = 0 while undefined: k < 2 or W = 0) and
    cl = {label: (n_k, [v_kj - mu_j as float])}"""
    rows = [[float(v) for v in row] for row in X]
    labels = [int(t) for t in labels]
    N = len(rows)
    d = len(rows[0]) if rows else 0
    E = 0
    for row in rows:
        for v in row:
            E = max(E, v.as_integer_ratio()[1].bit_length() - 1)
    sc = 1 << E
    I = []
    for row in rows:
        ir = []
        for v in row:
            p, q = v.as_integer_ratio()
            ir.append(p * (sc // q))
        I.append(ir)
    S = [sum(r[j] for r in I) for j in range(d)]
    sums, cnt = {}, {}
    sq = 0
    for r_, l in zip(I, labels):
        s = sums.setdefault(l, [0] * d)
        for j in range(d):
            s[j] += r_[j]
            sq += r_[j] * r_[j]
        cnt[l] = cnt.get(l, 0) + 1
    k = len(cnt)
    per = sum(Fraction(sum(s[j] * s[j] for j in range(d)), cnt[l]) for l, s in sums.items())
    W = (sq - per) / (sc * sc)
    B = (per - Fraction(sum(t * t for t in S), N)) / (sc * sc) if N else Fraction(0)
    cl = {}
    for l, s in sums.items():
        cl[l] = (cnt[l], [float((Fraction(s[j], cnt[l]) - Fraction(S[j], N)) / sc) for j in range(d)])
    if k < 2 or W == 0:
        ch = Fraction(0)
    else:
        ch = B / W * Fraction(N - k, k - 1)
    return dict(N=N, k=k, B=B, W=W, ch=ch, cl=cl)


def _offset_tol(X, st, n_updates: int, n_cpdiff: int):
    """relative tolerance for criterion_value from the conditioning of the published recurrences (see above);
    None when the index is undefined or the bound is not informative"""
    if st["k"] < 2 or st["W"] == 0 or st["B"] == 0:
        return None
    A = np.abs(np.asarray(X, dtype=float))
    Xa = np.asarray(X, dtype=float)
    a = A.max(axis=0)
    D = Xa.max(axis=0) - Xa.min(axis=0)
    e = (n_updates + 1) * EPS * a
    dB = 0.0
    for (nk, dk) in st["cl"].values():
        dB += nk * float(np.sum(2.0 * np.abs(np.array(dk)) * 2.0 * e + (2.0 * e) ** 2))
    dW = max(1, n_cpdiff) * float(np.sum(6.0 * D * e + 3.0 * e ** 2))
    relB = dB / float(st["B"])
    relW = dW / float(st["W"])
    if relW >= 0.5:
        return None
    tol = (1.0 + relB) / (1.0 - relW) - 1.0 + 64 * EPS
    return tol if tol <= OFFSET_TOL_CAP else None


def _offset_close(tracked: float, st, tol: float) -> bool:
    ex = st["ch"]
    t = float(tracked)
    if t != t:
        return False
    return abs(Fraction(t) - ex) <= Fraction(tol) * abs(ex)


OFFSETS = [1.7e9, 1.7e9, 1.7e9, 1.6e9, 1.0e8, 4.0e9, -2.5e8, 1.0e10, 6.3e7]


def gen_offset_sequence(r, nops: int):
    """(d, ops, info): readings a few units apart around 2..4 centres, one column (sometimes all) riding on a
    timestamp-like offset; adds (labels mostly = the centre) interleaved with permitted switch_label operations"""
    d = r.randint(1, 3)
    big = [False] * d
    big[r.randrange(d)] = True
    if r.random() < 0.3:
        big = [True] * d
    off = [r.choice(OFFSETS) if big[j] else r.choice([0.0, 20.0, 0.5, -3.0]) for j in range(d)]
    unit = [r.choice([1.0, 1.0, 0.125, 30.0]) if big[j] else r.choice([1.0, 0.05]) for j in range(d)]
    k = r.randint(2, 4)
    centres = [[r.uniform(0.0, 12.0) for _ in range(d)] for _ in range(k)]
    sd = r.choice([0.5, 1.0, 1.0, 2.0])
    data, ops = [], []
    for t in range(nops):
        if len(data) >= 4 and r.random() < 0.3:
            i = r.randrange(len(data))
            x, lo = data[i]
            cnt = sum(1 for (_, l) in data if l == lo)
            if cnt < 2:
                continue
            ln = r.randrange(k) if r.random() < 0.85 else k + r.randint(0, 1)
            data[i] = (x, ln)
            ops.append(("s", lo, ln, x))
        else:
            c = r.randrange(k)
            x = [off[j] + unit[j] * (centres[c][j] + r.gauss(0.0, sd)) for j in range(d)]
            l = c if (t < k or r.random() < 0.85) else r.randrange(k)
            if t < k:
                l = t      # every centre is opened early
                x = [off[j] + unit[j] * (centres[t][j] + r.gauss(0.0, sd)) for j in range(d)]
            data.append((x, l))
            ops.append(("a", l, x))
    return d, ops, {"offset": off, "unit": unit}


def _ops_replay(ops):
    return [[o[0], o[1], [repr(v) for v in o[2]]] if o[0] == "a" else [o[0], o[1], o[2], [repr(v) for v in o[3]]] for o in ops]


def check_offset_sequences(ctx):
    """(f1) iCVI_CH driven directly on raw measurements with a timestamp-like column: after EVERY add_sample /
    switch_label the tracked value equals the exact batch index of the current labelled data"""
    from artlib.cvi.iCVIs.CalinkskiHarabasz import iCVI_CH
    cov = ctx.cov
    N = ctx.scale(36, 400)
    maxops = ctx.scale(30, 60)
    for i in range(N):
        r = gen.rng_for(ctx.seed, "C15-offset-seq", i)
        d, ops, info = gen_offset_sequence(r, r.randint(6, maxops))
        key = ("offset-seq", d, [(o[0], o[1], tuple(o[-1])) for o in ops])
        data = []
        judged = 0
        n_upd = n_cp = 0
        try:
            with quiet():
                ic = iCVI_CH(np.array(ops[0][2], dtype=float))
            for j, op in enumerate(ops):
                if op[0] == "a":
                    _, l, x = op
                    with quiet():
                        ic.update(ic.add_sample(np.array(x, dtype=float), l))
                    data.append([x, l])
                    n_upd += 1
                    n_cp += 1
                else:
                    _, lo, ln, x = op
                    with quiet():
                        ic.update(ic.switch_label(np.array(x, dtype=float), lo, ln))
                    for row in data:
                        if row[1] == lo and row[0] == x:
                            row[1] = ln
                            break
                    n_upd += 1
                    n_cp += 2
                X = [row[0] for row in data]
                labs = [row[1] for row in data]
                crit = float(ic.criterion_value)
                st = _exact_stats(X, labs)
                opname = "switch_label" if op[0] == "s" else "add_sample"
                rep = {"dim": d, "offset": info["offset"], "ops": _ops_replay(ops[: j + 1]), "X": X, "labels": labs}
                if st["k"] >= 2 and st["W"] == 0:
                    cov.hit("offset-seq:exact-WGSS==0")
                    if crit != 0.0:
                        cov.hit("F26")
                        ctx.issue("violation", F26_SIG % opname,
                                  f"offset data: after op {j} ({opname}) every cluster is a single point (exact WGSS = 0, index 0 "
                                  f"by convention) but criterion_value={crit!r} WGSS={float(ic.WGSS)!r}", rep)
                        break
                    continue
                if st["k"] < 2:
                    if crit != 0.0:
                        ctx.issue("violation", f"iCVI_CH.{opname}:criterion_value != 0 with fewer than 2 clusters",
                                  f"offset data: after op {j} criterion_value={crit!r} with {st['k']} cluster(s)", rep)
                        break
                    continue
                tol = _offset_tol(X, st, n_upd, n_cp)
                if tol is None:
                    cov.hit("offset-seq:ill-conditioned-for-the-published-formula(not judged)")
                    continue
                judged += 1
                cov.hit("offset-seq:judged:" + opname)
                if not _offset_close(crit, st, tol):
                    ex = float(st["ch"])
                    ctx.issue("violation", f"iCVI_CH.{opname}:criterion_value != exact batch index on data with a huge common offset",
                              f"after op {j} ({opname}) of a sequence on readings around offset {info['offset']} criterion_value="
                              f"{crit!r} but the exact (rational) Calinski-Harabasz index of the labelled data is {ex!r} "
                              f"(relative error {abs(crit - ex) / abs(ex):.3g}, rounding bound of n_k*sum((v_k-mu)^2) / "
                              f"the CP recurrences: {tol:.3g})", rep)
                    break
        except Exception as e:
            ctx.issue("violation", f"iCVI_CH:{exc_enum(e)}:offset data", f"permitted op sequence raised {e!r}",
                      {"dim": d, "ops": _ops_replay(ops)})
            cov.case(key, False)
            continue
        cov.hit("offset-seq:run")
        cov.case(key, judged > 0)
        if i < 1:
            cov.sample({"offset-seq": info, "dim": d, "nops": len(ops), "judged": judged, "crit": float(ic.criterion_value)})


def _band_rows(r, n: int, d: int):
    """rows of [0,1]^d confined to a band `scale`*~40 wide around a base point (a scaler calibrated on a far wider
    range than the data occupy): 2..3 centres 30*scale apart, jitter ~scale"""
    scale = r.choice([3e-10, 3e-10, 1e-9, 3e-9, 1e-8])
    base = [r.choice([0.5, 0.5, 0.25, 0.7, 0.4375]) for _ in range(d)]
    k = r.randint(2, 3)
    centres = [[r.choice([0.0, 30.0, -30.0, 15.0]) for _ in range(d)] for _ in range(k)]
    rows = []
    for _ in range(n):
        c = r.choice(centres)
        rows.append([base[j] + scale * (c[j] + r.gauss(0.0, 1.0)) for j in range(d)])
    return np.array(rows, dtype=float).reshape(n, d), scale


def check_offset_icvi_fuzzy(ctx):
    """(f2) iCVIFuzzyART (offline and online) on complement-coded rows confined to a very narrow band: after fit the
    tracked value equals the exact index of (X, labels_); every sample that joined an existing category made the exact
    index of the labelling strictly larger than before its step (up to the rounding bound of the two tracked values)"""
    cov = ctx.cov
    N = ctx.scale(24, 240)
    nmax = ctx.scale(24, 40)
    for i in range(N):
        r = gen.rng_for(ctx.seed, "C15-offset-icvifuzzy", i)
        d = r.randint(1, 2)
        n = r.randint(8, nmax)
        offline = (i % 2 == 1)
        P, scale = _band_rows(r, n, d)
        X = gen.cc(P)
        rho = r.choice([1.0 - 7 * scale, 1.0 - 7 * scale, 1.0 - 20 * scale, 1.0 - 60 * scale, 0.5])
        p = {"rho": rho, "alpha": r.choice([1e-7, 1e-3]), "beta": r.choice([1.0, 1.0, 0.5])}
        key = ("offset-icvifuzzy", repr(p), offline, X.tolist())
        rep = {"params": p, "offline": offline, "band": scale, "X": X}
        try:
            with quiet():
                m = iCVIFuzzyART(p["rho"], p["alpha"], p["beta"], validity=iCVIFuzzyART.CALINSKIHARABASZ, offline=offline)
                m.fit(X)
        except Exception as e:
            ctx.issue("violation", f"iCVIFuzzyART.fit:{exc_enum(e)}:{'offline' if offline else 'online'}:narrow band",
                      f"fit raised {e!r} on validated data", rep)
            cov.case(key, False)
            continue
        L = [int(t) for t in m.labels_]
        crit = float(m.iCVI.criterion_value)
        tag = "offline" if offline else "online"
        cov.hit("offset-icvifuzzy:" + tag)
        st = _exact_stats(X, L)
        n_upd = 2 * n if offline else n
        n_cp = 3 * n if offline else n
        judged = False
        if st["k"] >= 2 and st["W"] == 0:
            cov.hit("offset-icvifuzzy:exact-WGSS==0")
            if crit != 0.0:
                cov.hit("F26")
                ctx.issue("violation", F26_SIG % ("switch_label" if offline else "add_sample"),
                          f"narrow band: exact WGSS = 0 after fit but criterion_value={crit!r}", dict(rep, labels=L))
        elif st["k"] < 2:
            cov.hit("offset-icvifuzzy:one-cluster")
            if crit != 0.0:
                ctx.issue("violation", f"iCVIFuzzyART.fit:{tag}:tracked value != 0 with one cluster",
                          f"criterion_value={crit!r}, labels={L}", dict(rep, labels=L))
        else:
            tol = _offset_tol(X, st, n_upd, n_cp)
            if tol is None:
                cov.hit("offset-icvifuzzy:ill-conditioned-for-the-published-formula(not judged)")
            else:
                judged = True
                cov.hit("offset-icvifuzzy:judged:" + tag)
                if not _offset_close(crit, st, tol):
                    ex = float(st["ch"])
                    ctx.issue("violation", f"iCVIFuzzyART.fit:{tag}:tracked value != exact CH(X, labels_) on a narrow band",
                              f"rows confined to a band ~{40 * scale:.1g} wide: after fit criterion_value={crit!r} but the exact "
                              f"(rational) index of (X, labels_) is {ex!r} (relative error {abs(crit - ex) / abs(ex):.3g}, "
                              f"rounding bound {tol:.3g}); labels={L}", dict(rep, labels=L))
        # ---- gate: the labelling before step i and after it (one epoch: categories are opened in order)
        for s in range(1, n):
            nc = max(L[:s]) + 1
            c = L[s]
            if c >= nc:
                cov.hit("offset-gate:new-category")
                continue
            if offline:
                lb = L[:s] + [0] * (n - s)
                la = list(lb)
                la[s] = c
                Xb = Xa = X
                ub, ua, cb, ca = n + 2 * s, n + 2 * s + 2, n + 2 * s, n + 2 * s + 2
            else:
                Xb, lb = X[:s], L[:s]
                Xa, la = X[: s + 1], L[: s + 1]
                ub = cb = s
                ua = ca = s + 1
            sb, sa = _exact_stats(Xb, lb), _exact_stats(Xa, la)
            if sa["ch"] > sb["ch"]:
                cov.hit("offset-gate:joined-existing:strictly-better(exact)")
                continue
            tb = _offset_tol(Xb, sb, ub, cb) if sb["ch"] != 0 else 0.0
            ta = _offset_tol(Xa, sa, ua, ca) if sa["ch"] != 0 else 0.0
            if tb is None or ta is None:
                cov.hit("offset-gate:ill-conditioned-for-the-published-formula(not judged)")
                continue
            slack = Fraction(tb) * abs(sb["ch"]) + Fraction(ta) * abs(sa["ch"])
            if sb["ch"] - sa["ch"] <= slack:
                cov.hit("offset-gate:float-ambiguous")
                continue
            if (sb["k"] >= 2 and sb["W"] == 0) or (sa["k"] >= 2 and sa["W"] == 0):
                cov.hit("F26")
                ctx.issue("violation", F26_SIG % ("switch_label" if offline else "add_sample"),
                          f"narrow band: gate of sample {s} -> {c} decided while the exact WGSS is 0 "
                          f"(exact index {float(sb['ch'])!r} -> {float(sa['ch'])!r})", dict(rep, labels=L, sample=s))
                continue
            ctx.issue("violation", f"iCVIFuzzyART.fit:{tag}:joined existing category without improving the exact index on a narrow band",
                      f"sample {s} joined the existing category {c} although the exact index of the labelling went "
                      f"{float(sb['ch'])!r} -> {float(sa['ch'])!r} (rounding bounds {tb:.3g}, {ta:.3g}); labels={L}",
                      dict(rep, labels=L, sample=s))
            break
        cov.case(key, judged)
        if i < 1:
            cov.sample({"offset-icvifuzzy": p, "offline": offline, "band": scale, "n": n, "labels": L, "crit": crit})


def prepare(ctx):
    """Translator tie (see gen_tie.py): the source of this slice is re-translated to Lean on every run
    (harness/artv/itrans.py) and proved equal to the model the property theorems are about"""
    from .gen_tie import gen_prepare, extra_theorems
    from .. import itrans, gtrans
    gen_prepare(ctx, extra_theorems("itrans") + extra_theorems("gtrans"), itrans.COVERS + "; " + gtrans.COVERS)

def run(ctx):
    ctx.trusted += ["sklearn.metrics.calinski_harabasz_score / davies_bouldin_score / silhouette_score (oracle values)",
                    "float rounding is outside the theorems: exact model vs float implementation compared to 1e-9"]
    ctx.assumptions += ["exact arithmetic (any ordered field); the float-only WGSS==0 defect F26 is listed as a known finding",
                        "the Lean cvi_gate model covers one training step (any epoch); the validity index value itself is an oracle parameter of it"]
    check_sequences(ctx)
    check_batch(ctx)
    check_icvi_fuzzy(ctx)
    check_cviart(ctx)
    check_cviart_reconfigured(ctx)
    check_cviart_base_with_own_validity(ctx)
    check_cviart_hooked_subclasses(ctx)
    check_label_delegation(ctx)
    check_offset_sequences(ctx)
    check_offset_icvi_fuzzy(ctx)
