"""C12 — hierarchies are nested and navigable (DeepARTMAP supervised / unsupervised, SMART).

Oracle (the property statement executed on the implementation alone): after fit and after any
partial_fit batching, for 2..4 levels, every elementary class as level model, an increasing
(BayesianART: decreasing) vigilance ladder and all five match-tracking modes,
  * every column of labels_deep_ equals the labels of the layer / module it belongs to,
  * pairwise nestedness over ALL sample pairs and all adjacent levels,
  * distinct-label counts (and module category counts) never decrease with depth,
  * map_deep(level, column level+1) == column 0, for vectors, negative levels and scalar ints,
  * predict returns n_layers+1 vectors linked by the layer maps, nested, labels seen in training,
  * fit == partial_fit batching (labels_deep_, maps, weights).
The same oracle runs with class targets that are large identifiers (identifier_labels) and with targets handed over as an
(n, 1) column vector through >= 2 partial_fit batches of one common size (column_targets: DeepARTMAP and SimpleARTMAP), after the public `modules` list was edited (modules_list_edited), and after
a plotting call in the middle of the history -- SMART.visualize / plot_cluster_bounds on 2..4 levels, a level module or a
layer drawn on its own -- followed by a partial_fit on a second batch (plotted_hierarchies).
Tie: Lean `deep` histories end-to-end over Q (Fuzzy / ART1 / ART2-A levels, grid data): columns,
every layer's map, category counts, B-side labels and per-level predictions must agree exactly."""
from __future__ import annotations

from copy import deepcopy

import numpy as np

from .. import gen, specs
from ..common import q2s, mat_q, nats, run_driver, parse_kv, parse_nats, parse_optnats
from ..impl import quiet, exc_enum, make, MODES, DeepARTMAP, SMART, ELEMENTARY

RULE = ("cases = (kind sup/unsup/SMART, level-model class(es), per-level hyper-parameters with a vigilance ladder, "
        "per-module data, class labels, mode, epsilon, batching); one evaluation = one trained hierarchy (fit or a "
        "partial_fit batching) checked by the whole oracle; non-trivial when the finest level has >= 2 categories "
        "and more categories than the top level; distinct by hash of (kind, specs, data, labels, mode, eps, batching)")

RHOS = {
    "FuzzyART": gen.DYADIC_RHO, "ART1": gen.DYADIC_RHO, "ART2A": gen.DYADIC_RHO,
    "HypersphereART": gen.DYADIC_RHO, "EllipsoidART": gen.DYADIC_RHO,
    "GaussianART": [0.0, 0.25, 0.5, 0.75], "BayesianART": [2.0, 0.5, 0.0625, 2.0 ** -6, 2.0 ** -12],
    "QuadraticNeuronART": [0.0, 0.25, 0.5, 0.75, 0.9],
}


def ladder(r, cls, k):
    """strictly increasing (BayesianART: strictly decreasing) vigilance values"""
    pool = RHOS[cls]
    idx = sorted(r.sample(range(len(pool)), k))
    return [pool[i] for i in idx]


def base_spec(r, cls, d):
    """hyper-parameters without rho that are valid for every rho of the ladder"""
    sp = specs.elem_spec(r, cls, d)
    if sp.get("alpha") == 0.0 and cls in ("FuzzyART", "HypersphereART", "EllipsoidART"):
        sp["alpha"] = 2.0 ** -10      # standing assumption for rho = 0
    if cls == "ART1" and sp["L"] == 1.0:
        sp["L"] = 2.0
    return sp


def gen_case(r, i, nmax, exact=False, floats=False):
    kind = ["sup", "unsup", "smart"][i % 3]
    pool = specs.EXACT if exact else specs.ELEM
    cls = pool[(i // 3) % len(pool)]
    k = r.randint(1, 3) if kind == "sup" else r.randint(2, 4)       # modules; levels = columns of labels_deep_
    n = r.randint(2, nmax)
    mixed = kind != "smart" and r.random() < 0.2
    classes = [r.choice(pool) if (mixed and cls != "BayesianART") else cls for _ in range(k)]
    if "BayesianART" in classes and len(set(classes)) > 1:
        classes = [cls] * k
    if len(set(classes)) == 1:
        cls = classes[0]
    style = r.choice(["dups", "coarse", "blobs", "blobs", None])
    if kind == "smart":
        d = r.randint(1, 3)
        ds = [d] * k
        X = specs.elem_data(r, cls, n, d, style=style, floats=floats and cls != "ART1")
        Xs = [X] * k
        bs = base_spec(r, cls, d if cls == "FuzzyART" else specs.width(cls, d))
        rhos = ladder(r, cls, k)
        mods = [dict(bs, rho=rho) for rho in rhos]
        bp = {kk: v for kk, v in bs.items() if kk not in ("cls", "rho")}
        spec = {"cls": "SMART", "base": cls, "rho_values": rhos, "base_params": bp}
    else:
        same_data = r.random() < 0.5 and len(set(classes)) == 1
        ds = [r.randint(1, 3)] * k if same_data else [r.randint(1, 3) for _ in range(k)]
        if same_data:
            X = specs.elem_data(r, cls, n, ds[0], style=style)
            Xs = [X.copy() for _ in range(k)]
        else:
            Xs = [specs.elem_data(r, c, n, dd, style=r.choice(["dups", "coarse", "blobs", None]),
                                  floats=floats and c != "ART1") for c, dd in zip(classes, ds)]
        # ladder positions are shared across classes through the rank of the value in each pool
        if len(set(classes)) == 1:
            rhos = ladder(r, cls, k)
        else:
            rhos = sorted(r.sample(gen.DYADIC_RHO if all(c in ("FuzzyART", "ART1", "ART2A", "HypersphereART", "EllipsoidART")
                                                          for c in classes) else [0.0, 0.25, 0.5, 0.75], k))
        mods = []
        for c, dd, rho in zip(classes, ds, rhos):
            bs = base_spec(r, c, dd if c == "FuzzyART" else specs.width(c, dd))
            mods.append(dict(bs, rho=rho))
        spec = {"cls": "DeepARTMAP", "modules": mods}
    y = gen.labels(r, n, r.randint(1, 4)) if kind == "sup" else None
    if y is not None and r.random() < 0.3:
        y = np.array(r.sample(range(10), 4), dtype=int)[y]       # class labels need not be 0..k-1
    ydtype = None
    if y is not None and not exact and r.random() < 0.3:
        # class targets need not be an int64 array: boolean flags, narrow integer codes, float codes
        ydtype = r.choice(["bool", "int8", "uint8", "float64"])
        if ydtype == "bool":
            y = y % 2
    mode = MODES[(i // 24) % 5] if not exact else r.choice(MODES)
    eps = r.choice([0.0, 2.0 ** -20, 2.0 ** -10, 1e-10, 0.125])
    if exact:
        eps = r.choice([0.0, 2.0 ** -20, 2.0 ** -10, 0.125])
    return dict(ydtype=ydtype, kind=kind, cls=cls, classes=classes, k=k, n=n, ds=ds, Xs=Xs, y=y, mods=mods, spec=spec,
                mode=mode, eps=eps)


def build(case):
    spec = deepcopy(case["spec"])
    if spec["cls"] == "SMART":
        # array-valued base parameters (sigma_init, cov_init) must reach the class as ndarrays
        bp = {k: (np.array(v, dtype=float) if k in ("sigma_init", "cov_init") else v)
              for k, v in spec["base_params"].items()}
        with quiet():
            return SMART(ELEMENTARY[spec["base"]], spec["rho_values"], bp)
    return make(spec)


def do_fit(est, case, a, b, op):
    kw = dict(match_tracking=case["mode"], epsilon=case["eps"])
    with quiet():
        if case["kind"] == "smart":
            X = case["Xs"][0][a:b]
            return est.fit(X, **kw) if op == "fit" else est.partial_fit(X, **kw)
        Xs = [X[a:b] for X in case["Xs"]]
        y = None if case["y"] is None else case["y"][a:b]
        if y is not None and case.get("ydtype"):
            y = y.astype({"bool": bool, "int8": np.int8, "uint8": np.uint8, "float64": np.float64,
                          "int32": np.int32, "uint32": np.uint32, "int64": np.int64}[case["ydtype"]])
        if y is not None and case.get("ycol"):
            y = y.reshape(-1, 1)      # an (n, 1) column of targets (df[["label"]].values): check_X_y accepts it
        return est.fit(Xs, y, **kw) if op == "fit" else est.partial_fit(Xs, y, **kw)


def do_predict(est, case, Q, as_list=True):
    with quiet():
        if case["kind"] == "smart":
            return est.predict(Q)
        return est.predict([Q] * case["k"] if as_list else Q)


def as_int(v):
    """a label as an int; a label stored from an (n, 1) column of targets is a one-element row"""
    a = np.asarray(v)
    if a.size != 1:
        raise TypeError(f"not a single label: {v!r}")
    return int(a.reshape(-1)[0])


def snapshot(est):
    return {"cols": np.asarray(est.labels_deep_).copy(),
            "maps": [{int(p): as_int(q) for p, q in L.map.items()} for L in est.layers],
            "W": [[np.array(w, dtype=float).copy() for w in m.W] for m in est.modules]}


def same_snapshot(a, b):
    if a["cols"].shape != b["cols"].shape or not np.array_equal(a["cols"], b["cols"]) or a["maps"] != b["maps"]:
        return False
    for wa, wb in zip(a["W"], b["W"]):
        if len(wa) != len(wb):
            return False
        for u, v in zip(wa, wb):
            if u.shape != v.shape or not np.all((u == v) | (np.isnan(u) & np.isnan(v))):
                return False
    return True


def nested_pairs(fine, coarse):
    """first pair (i, j) sharing the finer label but not the coarser one, over ALL pairs"""
    fine, coarse = np.asarray(fine), np.asarray(coarse)
    bad = (fine[:, None] == fine[None, :]) & (coarse[:, None] != coarse[None, :])
    if bad.any():
        i, j = np.argwhere(bad)[0]
        return int(i), int(j)
    return None


def oracle(ctx, est, case, total, tag, rep, trained=None):
    """the statement of C12 on a trained implementation; `total` = number of samples presented; `trained` = the module
    objects the hierarchy was trained with (default: the public `modules` list -- the two differ only after that list
    was edited and before the next (re-)fit rebuilds the layers, see modules_list_edited)"""
    level_modules = list(est.modules) if trained is None else list(trained)
    kind, cls = case["kind"], case["cls"]
    name = {"sup": "DeepARTMAP-sup", "unsup": "DeepARTMAP-unsup", "smart": "SMART"}[kind]
    cov = ctx.cov
    ok = True

    def bad(sig, what):
        nonlocal ok
        ok = False
        ctx.issue("violation", f"{name}:{sig}", f"[{tag}] {what}", rep)

    try:
        L = np.asarray(est.labels_deep_)
    except Exception as e:
        bad(f"labels_deep_:{exc_enum(e)}", f"labels_deep_ raised {e!r}")
        return False
    nl = len(est.layers)
    want_layers = case["k"] if kind == "sup" else case["k"] - 1
    if nl != want_layers or L.shape != (total, nl + 1):
        bad("labels_deep_:shape", f"{nl} layers (expected {want_layers}), labels_deep_ shape {L.shape}, {total} samples")
        return False
    # --- each column equals that layer's own labels
    ycol = bool(case.get("ycol"))

    def own(v):
        # targets supplied as an (n, 1) column are stored in that shape: same labels, one per row
        a = np.asarray(v)
        return a.reshape(-1) if ycol and a.shape == (total, 1) else a

    for l in range(nl):
        if not np.array_equal(L[:, l], own(est.layers[l].labels_)):
            bad("column!=layer.labels_", f"column {l} {L[:, l].tolist()} layer labels_ {list(est.layers[l].labels_)}")
        if not np.array_equal(L[:, l + 1], np.asarray(est.layers[l].labels_a)):
            bad("column!=layer.labels_a", f"column {l + 1} {L[:, l + 1].tolist()} vs labels_a of layer {l} "
                f"{list(est.layers[l].labels_a)}")
    off = 1 if kind == "sup" else 0
    for m_i, m in enumerate(level_modules):
        if not np.array_equal(L[:, m_i + off], np.asarray(m.labels_)):
            bad("column!=module.labels_", f"column {m_i + off} {L[:, m_i + off].tolist()} module {m_i} labels_ {list(m.labels_)}")
    if kind == "sup" and not np.array_equal(L[:, 0], case["y"][:total]):
        bad("column0!=y", f"{L[:, 0].tolist()} vs {case['y'][:total].tolist()}")
    # --- nestedness over all pairs, all adjacent levels
    for l in range(nl):
        p = nested_pairs(L[:, l + 1], L[:, l])
        if p is not None:
            i, j = p
            bad("not-nested", f"samples {i},{j} share label {int(L[i, l + 1])} at level {l + 1} but have "
                f"{int(L[i, l])} != {int(L[j, l])} at level {l}")
        cov.hit("nested-pairs-checked", total * total)
    # --- counts never decrease with depth
    counts = [len(set(L[:, l].tolist())) for l in range(nl + 1)]
    if any(counts[l] > counts[l + 1] for l in range(nl)):
        bad("counts-decrease", f"distinct labels per level {counts}")
    ncl = [int(m.n_clusters) for m in level_modules]
    if ncl != counts[off:]:
        bad("n_clusters!=distinct-labels", f"module category counts {ncl}, distinct labels per level {counts}")
    if any(counts[l] < counts[l + 1] for l in range(nl)):
        cov.hit("categories-per-level-grow")
    if nl >= 2 and all(counts[l] < counts[l + 1] for l in range(nl)):
        cov.hit("categories-grow-at-every-level")
    # --- map_deep: vectors, negative levels, scalars
    for l in range(nl):
        for lev in (l, l - nl):
            try:
                got = np.asarray(est.map_deep(lev, L[:, l + 1]))
            except Exception as e:
                bad(f"map_deep:{exc_enum(e)}", f"map_deep({lev}, column {l + 1}) raised {e!r}")
                continue
            if got.shape != (total,) or not np.array_equal(got, L[:, 0]):
                bad("map_deep!=top-column", f"map_deep({lev}, column {l + 1}) = {got.tolist()} top {L[:, 0].tolist()}")
        top_of = {}
        for c, t in zip(L[:, l + 1].tolist(), L[:, 0].tolist()):
            top_of.setdefault(c, t)
        for c, t in top_of.items():
            for lev in (l, l - nl):
                try:
                    g = est.map_deep(lev, int(c))
                    gi = as_int(g) if ycol else int(g)
                except Exception as e:
                    bad(f"map_deep(int):{exc_enum(e)}", f"map_deep({lev}, {c}) raised {e!r}")
                    continue
                if (np.ndim(g) != 0 and not ycol) or gi != t:
                    bad("map_deep(int)!=top-label", f"map_deep({lev}, {c}) = {g!r}, samples with that label have top label {t}")
        cov.hit("map_deep-level-checked")
    return ok


def oracle_predict(ctx, est, case, Q, L, tag, rep):
    kind = case["kind"]
    # targets given as a column: the signature names the situation and whether layer 0 is also the finest layer
    sfx = f":column-targets:modules={'1' if case['k'] == 1 else '2+'}" if case.get("ycol") else f"({case['cls']})"
    name = {"sup": "DeepARTMAP-sup", "unsup": "DeepARTMAP-unsup", "smart": "SMART"}[kind]
    nl = len(est.layers)

    def bad(sig, what):
        ctx.issue("violation", f"{name}:{sig}", f"[{tag}] {what}", rep)

    try:
        P = do_predict(est, case, Q)
        P = [np.asarray(p) for p in P]
        P2 = P if kind == "smart" else [np.asarray(p) for p in do_predict(est, case, Q, as_list=False)]
    except Exception as e:
        bad(f"predict{sfx}:{exc_enum(e)}", f"predict raised {e!r}")
        return None
    if len(P) != nl + 1 or any(p.shape != (len(Q),) for p in P):
        bad("predict:shape", f"{len(P)} vectors of shapes {[p.shape for p in P]} for {nl} layers, {len(Q)} queries")
        return None
    if any(not np.array_equal(a, b) for a, b in zip(P, P2)):
        bad("predict(list)!=predict(array)", f"{[p.tolist() for p in P]} vs {[p.tolist() for p in P2]}")
    for l in range(nl):
        try:
            up = np.asarray(est.layers[l].map_a2b(P[l + 1]))
        except Exception as e:
            bad(f"predict:map_a2b:{exc_enum(e)}", f"level {l + 1} prediction {P[l + 1].tolist()} not in the map: {e!r}")
            continue
        if not np.array_equal(up, P[l]):
            bad("predict:levels-not-linked", f"level {l} {P[l].tolist()} != map(level {l + 1} {P[l + 1].tolist()}) = {up.tolist()}")
        p = nested_pairs(P[l + 1], P[l])
        if p is not None:
            bad("predict:not-nested", f"queries {p} share level {l + 1} label but not level {l}")
    for l in range(nl + 1):
        seen = set(L[:, l].tolist())
        if not set(P[l].tolist()) <= seen:
            bad("predict:label-never-seen", f"level {l}: predicted {sorted(set(P[l].tolist()))} training {sorted(seen)}")
    # a prediction must be nested together with the training samples: the finest label fixes the path
    for q in range(len(Q)):
        rows = np.nonzero(L[:, nl] == P[nl][q])[0]
        if len(rows) and any(int(L[rows[0], l]) != int(P[l][q]) for l in range(nl + 1)):
            bad("predict:path!=training-path", f"query {q} path {[int(p[q]) for p in P]} training row {rows[0]} {L[rows[0]].tolist()}")
    ctx.cov.hit("predict-checked")
    return P


# ------------------------------------------------------------------ protocol (exact classes)

KN = {"FuzzyART": "fuzzy", "ART1": "art1", "ART2A": "art2a"}


def level_str(cls, sp, d):
    if cls == "FuzzyART":
        return f"fuzzy:{q2s(sp['rho'])}:{q2s(sp['alpha'])}:{q2s(sp['beta'])}:{d}"
    if cls == "ART1":
        return f"art1:{q2s(sp['rho'])}:{q2s(sp['L'])}:{d}"
    return f"art2a:{q2s(sp['rho'])}:{q2s(sp['alpha'])}:{q2s(sp['beta'])}"


def header(case):
    lv = ";".join(level_str(c, sp, d) for c, sp, d in zip(case["classes"], case["mods"], case["ds"]))
    return f"deep {'sup' if case['kind'] == 'sup' else 'unsup'} {case['mode']} {q2s(case['eps'])} {lv}"


def call_str(case, op, a, b):
    if op == "pred":
        return "pred " + mat_q(case["Q"])
    xs = ";".join(mat_q(X[a:b]) for X in case["Xs"])
    return f"{op} {xs}" + ("" if case["y"] is None else " " + nats(case["y"][a:b]))


def impl_state(est, case):
    s = {"cols": [c.tolist() for c in np.asarray(est.labels_deep_).T],
         "maps": [{int(p): int(q) for p, q in L.map.items()} for L in est.layers],
         "nc": [int(m.n_clusters) for m in est.modules]}
    if case["kind"] != "sup":
        s["b"] = [int(t) for t in est.layers[0].module_b.labels_]
    return s


def model_state(g):
    kv = parse_kv(g)
    s = {"cols": [parse_nats(c) for c in kv["cols"].split(";")],
         "maps": [{j: v for j, v in enumerate(parse_optnats(m)) if v is not None} for m in kv["maps"].split(";")],
         "nc": parse_nats(kv["nc"])}
    if "b" in kv:
        s["b"] = parse_nats(kv["b"])
    return s


def plan(r, n, style):
    """list of (op, a, b) training calls over rows a:b of the stream"""
    parts = gen.compositions(r, n)
    cuts, j = [], 0
    for p in parts:
        cuts.append((j, j + p))
        j += p
    if style == "fit":
        return [("fit", 0, n)]
    if style == "pfit":
        return [("pfit", a, b) for a, b in cuts]
    if style == "fit+pfit":
        return [("fit", *cuts[0])] + [("pfit", a, b) for a, b in cuts[1:]]
    if style == "pfit+fit":
        return [("pfit", a, b) for a, b in cuts] + [("fit", 0, n)]
    return [("fit", 0, n), ("fit", 0, max(1, n // 2))]       # refit


def correspondence(ctx, N, nmax):
    cov = ctx.cov
    lines, metas = [], []
    for i in range(N):
        r = gen.rng_for(ctx.seed, "C12-e2e", i)
        case = gen_case(r, i, nmax, exact=True)
        if any(sp.get("beta", 1.0) != 1.0 for sp in case["mods"]) and case["n"] > 10:
            case["n"] = 10          # beta < 1: denominators grow; keep float sums exact
            case["Xs"] = [X[:10] for X in case["Xs"]]
            case["y"] = None if case["y"] is None else case["y"][:10]
        n = case["n"]
        style = r.choice(["fit", "pfit", "pfit", "fit+pfit", "pfit+fit", "refit"])
        calls = plan(r, n, style)
        Xl = case["Xs"][-1]
        case["Q"] = np.vstack([Xl[[r.randrange(n) for _ in range(min(n, 3))]],
                               specs.elem_data(r, case["classes"][-1], 2, case["ds"][-1])])
        if r.random() < 0.7:
            calls.insert(r.randint(1, len(calls)), ("pred", 0, 0))
        rep = {"kind": case["kind"], "spec": case["spec"], "Xs": [X.tolist() for X in case["Xs"]],
               "y": None if case["y"] is None else case["y"].tolist(), "y_dtype": case.get("ydtype"), "mode": case["mode"], "eps": case["eps"],
               "calls": calls, "Q": case["Q"].tolist()}
        try:
            est = build(case)
        except Exception as e:
            ctx.issue("violation", f"{case['spec']['cls']}({case['cls']}).__init__:{exc_enum(e)}", repr(e), rep)
            continue
        snaps, failed = [], None
        for op, a, b in calls:
            try:
                if op == "pred":
                    snaps.append(("pred", [np.asarray(p).tolist() for p in do_predict(est, case, case["Q"])]))
                else:
                    do_fit(est, case, a, b, op)
                    snaps.append(("st", impl_state(est, case)))
            except Exception as e:
                failed = (op, e)
                break
        if failed:
            ctx.issue("violation", f"{case['spec']['cls']}-{case['kind']}({case['cls']}).{failed[0]}:{exc_enum(failed[1])}",
                      f"{failed[0]} raised {failed[1]!r} on valid data", rep)
            continue
        lines.append(header(case) + " # " + " # ".join(call_str(case, op, a, b) for op, a, b in calls))
        metas.append((i, snaps, rep, case))
        cov.case(("e2e", case["kind"], case["spec"], rep["Xs"], rep["y"], case["mode"], case["eps"], calls),
                 nontrivial=n > 1)
    outs = run_driver(lines)
    for line, out, (i, snaps, rep, case) in zip(lines, outs, metas):
        rep = dict(rep, line=line, model=out)
        tagc = f"{case['kind']}:{'+'.join(sorted(set(case['classes'])))}"
        got = out.split(" # ")
        if out == "bad-op" or len(got) != len(snaps):
            ctx.issue("diff", f"deep:{tagc}:protocol", f"case {i}: model output {out[:120]}", rep)
            continue
        for k, (g, s) in enumerate(zip(got, snaps)):
            if s[0] == "pred":
                mp = None if g == "pred=!" else [parse_nats(c) for c in g[len("pred="):].split(";")]
                if mp != s[1]:
                    ctx.issue("diff", f"deep:{tagc}:predict", f"case {i} call {k}: impl {s[1]} model {mp}", rep)
                    break
                cov.hit("e2e-pred")
                continue
            if g == "fail":
                ctx.issue("diff", f"deep:{tagc}:model-asserts", f"case {i} call {k}", rep)
                break
            ms = model_state(g)
            d = [f for f in s[1] if ms.get(f) != s[1][f]]
            if d:
                ctx.issue("diff", f"deep:{tagc}:{d[0]}", f"case {i} call {k} ({rep['calls'][k]}): impl {s[1][d[0]]} model {ms.get(d[0])}", rep)
                break
            cov.hit("e2e-call-ok")
            cov.hit(f"e2e:{case['kind']}:levels={len(ms['cols'])}")
        cov.traces += 1


# ------------------------------------------------------------------ class labels are identifiers, not small indices

# (base, name): supervised targets are identifiers of any magnitude -- year-month stamps, record ids, hashes -- and two
# distinct identifiers stay distinct however small their difference is relative to their size
LABEL_BASES = [(202401, "yyyymm"), (10 ** 6, "1e6"), (10 ** 9, "1e9"), (2 ** 31 - 3, "across-2^31"),
               (10 ** 12, "1e12"), (2 ** 52, "2^52")]


def code_labels(r, case):
    """re-code the class targets of a supervised case as large, closely spaced identifiers (same partition of the samples)"""
    _, y0 = np.unique(np.asarray(case["y"]).astype(np.int64), return_inverse=True)
    base, bname = r.choice(LABEL_BASES)
    kc = int(y0.max()) + 1
    spacing = r.choice(["consecutive", "consecutive", "gaps"])
    offs = list(range(kc)) if spacing == "consecutive" else sorted(r.sample(range(12), kc))
    r.shuffle(offs)                                   # the order of the codes need not follow the order of first appearance
    y = (base + np.array(offs, dtype=np.int64))[y0]
    dts = ["int64", "int64", "float64"]
    if int(y.max()) < 2 ** 31:
        dts.append("int32")
    if int(y.max()) < 2 ** 32:
        dts.append("uint32")
    case["y"], case["ydtype"] = y, r.choice(dts)
    return bname, spacing, kc


def identifier_labels(ctx, M, nmax):
    """supervised DeepARTMAP whose targets are large, closely spaced identifiers: the whole C12 oracle after fit, after
    every partial_fit batch, fit == batching, and predict"""
    cov = ctx.cov
    for j in range(M):
        r = gen.rng_for(ctx.seed, "C12-ids", j)
        case = gen_case(r, 3 * j, nmax, floats=j % 4 == 3)          # 3j: supervised; classes and modes cycle with j
        if len(set(case["y"].tolist())) < 2 and case["n"] >= 2:
            case["y"] = gen.labels(r, case["n"], r.randint(2, 4))   # the situation needs two identifiers to tell apart
        bname, spacing, kc = code_labels(r, case)
        cls, n = case["cls"], case["n"]
        name = "DeepARTMAP-sup"
        rep = {"kind": "sup", "spec": case["spec"], "Xs": [X.tolist() for X in case["Xs"]], "y": case["y"].tolist(),
               "y_dtype": case["ydtype"], "mode": case["mode"], "eps": case["eps"], "label_coding": [bname, spacing]}
        parts = gen.compositions(r, n)
        if len(parts) == 1 and n > 1:
            c = r.randint(1, n - 1)
            parts = [c, n - c]
        rep["parts"] = parts
        key = ("ids", case["spec"], rep["Xs"], rep["y"], case["ydtype"], case["mode"], case["eps"], parts)
        try:
            e_fit, e_pf = build(case), build(case)
            do_fit(e_fit, case, 0, n, "fit")
        except Exception as e:
            ctx.issue("violation", f"{name}({cls}).fit:{exc_enum(e)}:identifier-labels",
                      f"fit raised {e!r} on valid data (labels {sorted(set(rep['y']))} as {case['ydtype']}, mode {case['mode']})", rep)
            cov.case(key, False)
            continue
        oracle(ctx, e_fit, case, n, f"fit, labels {bname}/{spacing}/{case['ydtype']}", rep)
        jj, pf_ok = 0, True
        for p in parts:
            try:
                do_fit(e_pf, case, jj, jj + p, "pfit")
            except Exception as e:
                ctx.issue("violation", f"{name}({cls}).partial_fit:{exc_enum(e)}:identifier-labels",
                          f"partial_fit rows {jj}:{jj + p} raised {e!r} on valid data (labels {sorted(set(rep['y']))} as "
                          f"{case['ydtype']}, mode {case['mode']})", rep)
                pf_ok = False
                break
            jj += p
            oracle(ctx, e_pf, case, jj, f"partial_fit {parts} after {jj}, labels {bname}/{spacing}/{case['ydtype']}", rep)
        if pf_ok:
            sa, sb = snapshot(e_fit), snapshot(e_pf)
            if not same_snapshot(sa, sb):
                ctx.issue("violation", f"{name}:fit!=partial_fit-batching",
                          f"batching {parts}: labels_deep_ fit {sa['cols'].T.tolist()} partial_fit {sb['cols'].T.tolist()}; "
                          f"maps {sa['maps']} vs {sb['maps']}", rep)
        Xl = case["Xs"][-1]
        Q = np.vstack([Xl[[r.randrange(n) for _ in range(min(n, 4))]],
                       specs.elem_data(r, case["classes"][-1], 3, case["ds"][-1])])
        L = np.asarray(e_fit.labels_deep_)
        oracle_predict(ctx, e_fit, case, Q, L, f"fit, labels {bname}/{spacing}/{case['ydtype']}", dict(rep, Q=Q.tolist()))
        cov.case(key, nontrivial=kc >= 2)                # at least two identifiers that the veto has to keep apart
        cov.hit("identifier-labels")
        cov.hit(f"identifier-labels:base={bname}")
        cov.hit(f"identifier-labels:{spacing}")
        cov.hit(f"identifier-labels:dtype={case['ydtype']}")
        cov.hit(f"identifier-labels:mode={case['mode']}")
        cov.hit(f"identifier-labels:classes={kc}")
        yv = np.unique(case["y"]).astype(float)
        if kc >= 2 and np.min(np.diff(yv)) <= 1e-5 * np.max(np.abs(yv)):
            cov.hit("identifier-labels:relative-gap<=1e-5")


# ------------------------------------------------------------------ class targets handed over as an (n, 1) column

def equal_batches(r, n):
    """(n', parts): at least two batches of ONE common size covering the first n' <= n rows"""
    b = r.randint(1, max(1, n // 2))
    m = n // b
    if m > 2 and r.random() < 0.5:
        m = r.randint(2, m)
    return b * m, [b] * m


def oracle_simple(ctx, est, case, total, tag, rep):
    """C12 on the two-level hierarchy a stand-alone SimpleARTMAP is (targets above the categories of module_a):
    stored labels = what was supplied, one per sample at both levels, nested, counts grow, map_a2b navigates upwards"""
    ok = True

    def bad(sig, what):
        nonlocal ok
        ok = False
        ctx.issue("violation", f"SimpleARTMAP:{sig}", f"[{tag}] {what}", rep)

    y = np.asarray(case["y"][:total])
    try:
        B, A = np.asarray(est.labels_), np.asarray(est.labels_a)
    except Exception as e:
        bad(f"labels_:{exc_enum(e)}", f"labels_ / labels_a raised {e!r}")
        return False
    # one stored target per sample: a 1-d vector, or (for targets handed over as an (n,1) column) one row per sample
    want_b = [(total,), (total, 1)] if case.get("ycol") else [(total,)]
    if B.shape not in want_b or A.shape != (total,):
        bad("labels_:shape", f"labels_ shape {B.shape} (expected one of {want_b}), labels_a shape {A.shape}, {total} samples presented")
        return False
    B = B.reshape(-1)
    if not np.array_equal(B, y):
        bad("labels_!=y", f"{B.tolist()} vs {y.tolist()}")
    if not np.array_equal(A, np.asarray(est.module_a.labels_)):
        bad("labels_a!=module.labels_", f"{A.tolist()} vs {list(est.module_a.labels_)}")
    p = nested_pairs(A, B)
    if p is not None:
        i, j = p
        bad("not-nested", f"samples {i},{j} share category {int(A[i])} but have targets {int(B[i])} != {int(B[j])}")
    ctx.cov.hit("nested-pairs-checked", total * total)
    ca, cb = len(set(A.tolist())), len(set(B.tolist()))
    if cb > ca:
        bad("counts-decrease", f"{cb} distinct targets, {ca} distinct categories")
    if int(est.n_clusters) != ca:
        bad("n_clusters!=distinct-labels", f"n_clusters {int(est.n_clusters)}, distinct labels_a {ca}")
    try:
        up = np.asarray(est.map_a2b(A))
        if up.shape != (total,) or not np.array_equal(up, B):
            bad("map_a2b!=labels_", f"map_a2b(labels_a) = {up.tolist()} stored targets {B.tolist()}")
    except Exception as e:
        bad(f"map_a2b:{exc_enum(e)}", f"map_a2b(labels_a) raised {e!r}")
    top_of = {}
    for c, t in zip(A.tolist(), B.tolist()):
        top_of.setdefault(c, t)
    for c, t in top_of.items():
        try:
            g = as_int(est.map_a2b(int(c)))
        except Exception as e:
            bad(f"map_a2b(int):{exc_enum(e)}", f"map_a2b({c}) raised {e!r}")
            continue
        if g != t:
            bad("map_a2b(int)!=top-label", f"map_a2b({c}) = {g}, samples of that category have target {t}")
    ctx.cov.hit("map_deep-level-checked")
    return ok


def oracle_simple_predict(ctx, est, case, Q, tag, rep):
    def bad(sig, what):
        ctx.issue("violation", f"SimpleARTMAP:{sig}", f"[{tag}] {what}", rep)

    sfx = ":column-targets" if case.get("ycol") else f"({case['cls']})"
    try:
        with quiet():
            pb = np.asarray(est.predict(Q))
            pa, pb2 = (np.asarray(v) for v in est.predict_ab(Q))
    except Exception as e:
        bad(f"predict{sfx}:{exc_enum(e)}", f"predict / predict_ab raised {e!r}")
        return
    if any(v.shape != (len(Q),) for v in (pa, pb, pb2)):
        bad("predict:shape", f"shapes {pb.shape}, {pa.shape}, {pb2.shape} for {len(Q)} queries")
        return
    if not np.array_equal(pb, pb2):
        bad("predict!=predict_ab", f"{pb.tolist()} vs {pb2.tolist()}")
    try:
        up = np.asarray(est.map_a2b(pa))
        if not np.array_equal(up, pb):
            bad("predict:levels-not-linked", f"targets {pb.tolist()} != map(categories {pa.tolist()}) = {up.tolist()}")
    except Exception as e:
        bad(f"predict:map_a2b:{exc_enum(e)}", f"predicted categories {pa.tolist()} not in the map: {e!r}")
    if nested_pairs(pa, pb) is not None:
        bad("predict:not-nested", f"queries {nested_pairs(pa, pb)} share a category but not a target")
    A, B = np.asarray(est.labels_a), np.asarray(est.labels_).reshape(-1)
    if not set(pa.tolist()) <= set(A.tolist()) or not set(pb.tolist()) <= set(B.tolist()):
        bad("predict:label-never-seen", f"predicted {sorted(set(pa.tolist()))} / {sorted(set(pb.tolist()))}")
    ctx.cov.hit("predict-checked")


def column_targets(ctx, M, nmax):
    """supervised training whose class targets arrive as an (n, 1) column vector (y.reshape(-1, 1), df[["label"]].values;
    check_X_y accepts it with a DataConversionWarning and so does the library): DeepARTMAP (1..3 modules) and a
    stand-alone SimpleARTMAP, fit and >= 2 partial_fit batches -- of one common size, or of any sizes -- with the whole
    oracle after fit and after every batch, fit == batching, predict"""
    cov = ctx.cov
    for j in range(M):
        r = gen.rng_for(ctx.seed, "C12-ycol", j)
        case = gen_case(r, 3 * j, max(nmax, 6), floats=j % 4 == 3)     # 3j: supervised; classes and modes cycle with j
        simple = j % 3 == 2
        n = case["n"]
        if len(set(case["y"].tolist())) < 2:
            case["y"] = gen.labels(r, n, r.randint(2, 4))               # two targets for the veto to keep apart
            if case["ydtype"] == "bool":
                case["y"] = case["y"] % 2
        equal = r.random() < 0.65
        if equal:
            n, parts = equal_batches(r, n)
            case["n"], case["Xs"], case["y"] = n, [X[:n] for X in case["Xs"]], case["y"][:n]
        else:
            parts = gen.compositions(r, n)
            if len(parts) == 1:
                c = r.randint(1, n - 1)
                parts = [c, n - c]
        case["ycol"] = True
        cls = case["cls"]
        if simple:
            case = dict(case, k=1, classes=case["classes"][:1], ds=case["ds"][:1], Xs=case["Xs"][:1], mods=case["mods"][:1],
                        spec={"cls": "SimpleARTMAP", "module_a": case["mods"][0]})
            cls = case["cls"] = case["classes"][0]
        name = "SimpleARTMAP" if simple else "DeepARTMAP-sup"
        rep = {"kind": "sup", "spec": case["spec"], "Xs": [X.tolist() for X in case["Xs"]], "y": case["y"].tolist(),
               "y_dtype": case["ydtype"], "y_shape": [n, 1], "mode": case["mode"], "eps": case["eps"], "parts": parts}
        key = ("ycol", case["spec"], rep["Xs"], rep["y"], case["ydtype"], case["mode"], case["eps"], parts)

        def fit_(est, a, b, op):
            if not simple:
                return do_fit(est, case, a, b, op)
            kw = dict(match_tracking=case["mode"], epsilon=case["eps"])
            y = case["y"][a:b]
            if case["ydtype"]:
                y = y.astype(case["ydtype"])
            with quiet():
                return (est.fit if op == "fit" else est.partial_fit)(case["Xs"][0][a:b], y.reshape(-1, 1), **kw)

        def check(est, total, tag):
            return oracle_simple(ctx, est, case, total, tag, rep) if simple else oracle(ctx, est, case, total, tag, rep)

        try:
            e_fit, e_pf = build(case), build(case)
            fit_(e_fit, 0, n, "fit")
        except Exception as e:
            ctx.issue("violation", f"{name}.fit:{exc_enum(e)}:column-targets",
                      f"fit raised {e!r} on valid data (targets as an ({n}, 1) column, {cls}, mode {case['mode']})", rep)
            cov.case(key, False)
            continue
        check(e_fit, n, "fit, (n,1) targets")
        jj, pf_ok = 0, True
        for p in parts:
            try:
                fit_(e_pf, jj, jj + p, "pfit")
            except Exception as e:
                ctx.issue("violation", f"{name}.partial_fit:{exc_enum(e)}:column-targets",
                          f"partial_fit rows {jj}:{jj + p} of batching {parts} raised {e!r} on valid data (targets as a "
                          f"({p}, 1) column, {cls}, mode {case['mode']})", rep)
                pf_ok = False
                break
            jj += p
            check(e_pf, jj, f"partial_fit {parts} after {jj}, (n,1) targets")
        if pf_ok:
            if simple:
                same = (np.array_equal(np.asarray(e_fit.labels_a), np.asarray(e_pf.labels_a))
                        and {int(a): as_int(b) for a, b in e_fit.map.items()} == {int(a): as_int(b) for a, b in e_pf.map.items()}
                        and same_snapshot({"cols": np.zeros(0), "maps": [], "W": [[np.array(w, dtype=float) for w in e_fit.module_a.W]]},
                                          {"cols": np.zeros(0), "maps": [], "W": [[np.array(w, dtype=float) for w in e_pf.module_a.W]]}))
                what = f"labels_a fit {list(e_fit.labels_a)} partial_fit {list(e_pf.labels_a)}"
            else:
                sa, sb = snapshot(e_fit), snapshot(e_pf)
                same = same_snapshot(sa, sb)
                what = (f"labels_deep_ fit {sa['cols'].T.tolist()} partial_fit {sb['cols'].T.tolist()}; "
                        f"maps {sa['maps']} vs {sb['maps']}")
            if not same:
                ctx.issue("violation", f"{name}:fit!=partial_fit-batching", f"(n,1) targets, batching {parts}: {what}", rep)
            cov.hit("fit-vs-batching-compared")
        Xl = case["Xs"][-1]
        Q = np.vstack([Xl[[r.randrange(n) for _ in range(min(n, 4))]],
                       specs.elem_data(r, case["classes"][-1], 3, case["ds"][-1])])
        for est, tg in ((e_fit, "fit"),) + (((e_pf, f"partial_fit {parts}"),) if pf_ok else ()):
            if simple:
                oracle_simple_predict(ctx, est, case, Q, f"{tg}, (n,1) targets", dict(rep, Q=Q.tolist()))
            else:
                try:
                    L = np.asarray(est.labels_deep_)
                except Exception:
                    continue                                          # reported by the oracle above
                if L.shape == (n, len(est.layers) + 1):
                    oracle_predict(ctx, est, case, Q, L, f"{tg}, (n,1) targets", dict(rep, Q=Q.tolist()))
        cov.case(key, nontrivial=len(set(rep["y"])) >= 2 and len(parts) >= 2)
        cov.hit("column-targets")
        cov.hit(f"column-targets:{'SimpleARTMAP' if simple else 'DeepARTMAP'}")
        cov.hit(f"column-targets:{'equal-batches' if len(set(parts)) == 1 else 'unequal-batches'}")
        cov.hit(f"column-targets:batches={min(len(parts), 4)}{'+' if len(parts) >= 4 else ''}")
        if len(set(parts)) == 1 and parts[0] >= 2:
            cov.hit("column-targets:equal-batches-of>=2-rows")
        cov.hit(f"column-targets:modules={case['k']}")
        cov.hit(f"column-targets:class={cls}")
        cov.hit(f"column-targets:mode={case['mode']}")


# ------------------------------------------------------------------ the public `modules` list edited between two fits

# 7 edits x 8 classes x 3 kinds: the quick tier meets every combination once (fall-backs go to replace-finest)
EDITS = ["replace-finest", "append", "replace-level", "append", "rebind-list", "replace-via-second-host", "remove-finest"]
CAND_DATA = ["reversed", "permuted", "other", "shorter", "same"]


def beyond(cls, rho, pool):
    """values of the pool strictly beyond rho in the direction of the class's vigilance ladder"""
    return [p for p in pool if (p < rho if cls == "BayesianART" else p > rho)]


def candidate_module(r, case, level, rho, how):
    """a module of the level's class and hyper-parameters (vigilance rho), trained stand-alone on data of that level"""
    cls, d, X = case["classes"][level], case["ds"][level], case["Xs"][level]
    n = len(X)
    if how == "reversed":
        Xc = X[::-1].copy()
    elif how == "permuted":
        Xc = X[r.sample(range(n), n)]
    elif how == "other":
        Xc = specs.elem_data(r, cls, n, d, style=r.choice(["dups", "coarse", "blobs", None]))
    elif how == "shorter":
        Xc = X[:r.randint(1, max(1, n - 1))].copy()
    else:
        Xc = X.copy()
    sp = dict(case["mods"][level], rho=rho)
    m = make(sp)
    with quiet():
        m.fit(Xc)
    return m, sp, Xc


def modules_list_edited(ctx, M, nmax):
    """`modules` is a public list: after training, a user (or a second model built from the same list) replaces a level's
    module by a separately trained one, appends a finer one, removes the finest or binds a new list -- all of which only
    take effect at the next fit, which builds the layers anew.  Until then the hierarchy is the trained one: the whole
    oracle (columns = the trained levels' own labels, nested, counts, map_deep) must hold unchanged and predict must
    answer as before the edit.  The queued re-fit then has to give a hierarchy that satisfies the oracle again and
    equals a fresh model of the new configuration (fit starts the modules anew)."""
    cov = ctx.cov
    for j in range(M):
        r = gen.rng_for(ctx.seed, "C12-modlist", j)
        case = gen_case(r, j, nmax, floats=j % 8 == 7)
        kind, cls, n, k = case["kind"], case["cls"], case["n"], case["k"]
        name = {"sup": "DeepARTMAP-sup", "unsup": "DeepARTMAP-unsup", "smart": "SMART"}[kind]
        style = r.choice(["fit", "pfit", "pfit", "fit+pfit"])
        calls = plan(r, n, style)
        edit = EDITS[(j // 3) % len(EDITS)]
        how = r.choice(CAND_DATA)
        kmin = 1 if kind == "sup" else 2
        if edit == "remove-finest" and k - 1 < kmin:
            edit = "replace-finest"
        if edit == "replace-via-second-host" and kind == "smart":
            edit = "replace-finest"              # SMART builds its own list; it cannot be handed to a second model
        pool = RHOS[case["classes"][-1]]
        if edit == "append" and (k + (kind == "sup") >= 4 or not beyond(case["classes"][-1], case["mods"][-1]["rho"], pool)):
            edit = "replace-finest"              # the property is about <= 4 levels / the ladder has no finer step left
        level = k - 1
        if edit == "replace-level":
            level = r.randrange(k)
            rho = case["mods"][level]["rho"]     # same place in the ladder, a separately trained module
        elif edit == "append":
            rho = r.choice(beyond(case["classes"][-1], case["mods"][-1]["rho"], pool))
        elif edit == "remove-finest":
            rho = None
        else:
            if len(set(case["classes"])) > 1:
                rho = case["mods"][-1]["rho"]    # mixed classes share one ladder: keep the step
            elif k == 1:
                rho = r.choice(pool)
            else:                                # any step beyond the level above (the present one is among them)
                rho = r.choice(beyond(case["classes"][-1], case["mods"][-2]["rho"], pool))
        rep = {"kind": kind, "spec": case["spec"], "Xs": [X.tolist() for X in case["Xs"]],
               "y": None if case["y"] is None else case["y"].tolist(), "y_dtype": case.get("ydtype"), "mode": case["mode"],
               "eps": case["eps"], "calls": calls, "edit": edit, "level": level}
        key = ("modlist", kind, case["spec"], rep["Xs"], rep["y"], case["mode"], case["eps"], calls, edit, level, how, rho)
        try:
            est = build(case)
            for op, a, b in calls:
                do_fit(est, case, a, b, op)
            trained = list(est.modules)
            cand = None
            if edit != "remove-finest":
                cand, csp, Xc = candidate_module(r, case, level, rho, how)
                rep["candidate"] = {"spec": csp, "trained_alone_on": Xc.tolist(), "data": how}
        except Exception as e:
            ctx.issue("violation", f"{name}({cls}).fit:{exc_enum(e)}", f"training raised {e!r} on valid data (calls {calls})", rep)
            cov.case(key, False)
            continue
        if not oracle(ctx, est, case, n, f"{style}, before the modules list is edited", rep):
            cov.case(key, False)
            continue
        L0 = np.asarray(est.labels_deep_).copy()
        maps0 = [{int(p): as_int(q) for p, q in Ly.map.items()} for Ly in est.layers]
        Xl = case["Xs"][-1]
        Q = np.vstack([Xl[[r.randrange(n) for _ in range(min(n, 4))]],
                       specs.elem_data(r, case["classes"][-1], 3, case["ds"][-1])])
        try:
            P0 = [np.asarray(p).copy() for p in do_predict(est, case, Q)]
        except Exception:
            P0 = None                                                 # reported by oracle_predict below
        # ---- the edit (public attribute `modules`; no library call)
        if edit in ("replace-finest", "replace-level"):
            est.modules[level] = cand
        elif edit == "append":
            est.modules.append(cand)
        elif edit == "rebind-list":
            est.modules = list(est.modules[:-1]) + [cand]
        elif edit == "remove-finest":
            del est.modules[-1]
        else:
            with quiet():
                other = DeepARTMAP(est.modules)                       # a second model built from the same list
            other.modules[level] = cand
        tag = f"{style}, then modules list edited ({edit}, level {level}), before the next fit"
        # ---- the trained hierarchy is still what labels_deep_ / map_deep / predict describe
        if oracle(ctx, est, case, n, tag, rep, trained=trained):
            L1 = np.asarray(est.labels_deep_)
            if L1.shape != L0.shape or not np.array_equal(L1, L0):
                ctx.issue("violation", f"{name}:labels_deep_-changed-without-training",
                          f"[{tag}] before {L0.T.tolist()} after {L1.T.tolist()}", rep)
        maps1 = [{int(p): as_int(q) for p, q in Ly.map.items()} for Ly in est.layers]
        if maps1 != maps0:
            ctx.issue("violation", f"{name}:maps-changed-without-training", f"[{tag}] before {maps0} after {maps1}", rep)
        P1 = oracle_predict(ctx, est, case, Q, L0, tag, dict(rep, Q=Q.tolist()))
        if P0 is not None and P1 is not None and any(not np.array_equal(a, b) for a, b in zip(P0, P1)):
            ctx.issue("violation", f"{name}:predict-changed-without-training",
                      f"[{tag}] before {[p.tolist() for p in P0]} after {[p.tolist() for p in P1]}", dict(rep, Q=Q.tolist()))
        observable = cand is None or len(cand.labels_) != n or not np.array_equal(
            np.asarray(cand.labels_), np.asarray(trained[min(level, k - 1)].labels_))
        cov.case(key, nontrivial=observable and len(set(L0[:, -1].tolist())) >= 2)
        cov.hit("modules-list-edited")
        cov.hit(f"modules-list-edited:{edit}")
        cov.hit(f"modules-list-edited:kind={kind}")
        cov.hit(f"modules-list-edited:trained-by={style}")
        cov.hit(f"modules-list-edited:class={cls}")
        if cand is not None:
            cov.hit(f"modules-list-edited:candidate-data={how}")
        if observable:
            cov.hit("modules-list-edited:new-module-labels-differ-from-trained-level")
        # ---- the queued re-fit: new configuration, layers built anew
        mods2, classes2, ds2, Xs2 = list(case["mods"]), list(case["classes"]), list(case["ds"]), list(case["Xs"])
        if edit == "append":
            mods2.append(csp); classes2.append(classes2[-1]); ds2.append(ds2[-1]); Xs2.append(Xs2[-1].copy())
        elif edit == "remove-finest":
            mods2.pop(); classes2.pop(); ds2.pop(); Xs2.pop()
        else:
            mods2[level] = csp
        if kind == "smart":
            spec2 = dict(case["spec"], rho_values=[m["rho"] for m in mods2])
        else:
            spec2 = {"cls": "DeepARTMAP", "modules": mods2}
        case2 = dict(case, k=len(mods2), mods=mods2, classes=classes2, ds=ds2, Xs=Xs2, spec=spec2,
                     cls=classes2[0] if len(set(classes2)) == 1 else case["cls"])
        rep2 = dict(rep, refit_spec=spec2)
        try:
            do_fit(est, case2, 0, n, "fit")
            fresh = build(case2)
            do_fit(fresh, case2, 0, n, "fit")
        except Exception as e:
            ctx.issue("violation", f"{name}({cls}).refit-after-modules-edit:{exc_enum(e)}",
                      f"[{edit}] the re-fit raised {e!r} on valid data", rep2)
            continue
        if oracle(ctx, est, case2, n, f"re-fit after modules list edited ({edit}, level {level})", rep2):
            if not same_snapshot(snapshot(est), snapshot(fresh)):
                ctx.issue("violation", f"{name}:refit-after-modules-edit!=fresh-fit",
                          f"[{edit}] re-fit {snapshot(est)['cols'].T.tolist()} fresh model of the same configuration "
                          f"{snapshot(fresh)['cols'].T.tolist()}", rep2)
        Q2 = Q
        if edit == "remove-finest":                                   # queries for the level that is the finest now
            Q2 = np.vstack([Xs2[-1][[r.randrange(n) for _ in range(min(n, 4))]],
                            specs.elem_data(r, classes2[-1], 3, ds2[-1])])
        oracle_predict(ctx, est, case2, Q2, np.asarray(est.labels_deep_), f"re-fit after {edit}", dict(rep2, Q=Q2.tolist()))
        cov.hit("modules-list-edited:re-fit")
        cov.hit(f"modules-list-edited:re-fit:levels={len(est.layers) + 1}")


# ------------------------------------------------------------------ a hierarchy is drawn in the middle of its history

# what is drawn: the whole hierarchy (SMART.visualize / SMART.plot_cluster_bounds: every level's categories in the colour of
# their top-level ancestor), one level's module, or one layer (SimpleARTMAP / ARTMAP around two adjacent levels)
HOST_PLOTS = ["visualize:own-labels", "plot_cluster_bounds:long-colors", "visualize:long-colors", "visualize-twice",
              "plot_cluster_bounds:color-dict", "visualize:short-colors"]
PART_PLOTS = ["module.visualize", "layer.visualize", "module.plot_cluster_bounds", "layer.plot_cluster_bounds"]


def _pyplot():
    try:
        import matplotlib
        matplotlib.use("Agg")
        import matplotlib.pyplot as plt
        return plt
    except Exception:   # noqa
        return None


def draw(plt, r, est, case, plot, c):
    """one plotting call on a trained hierarchy (rows 0:c were presented); public API only"""
    kind, k = case["kind"], case["k"]
    palette = [(0.1 * (t % 10), 0.5, 0.5, 1.0) for t in range(c + 12)]       # a colour for every possible category
    fig, ax = plt.subplots()
    what, _, how = plot.partition(":")
    if what in ("visualize", "visualize-twice", "plot_cluster_bounds"):        # the host itself (SMART)
        X = case["Xs"][0][:c]
        y = est.labels_ if how == "own-labels" or r.random() < 0.5 else np.array(est.labels_)
        if what == "plot_cluster_bounds":
            est.plot_cluster_bounds(ax, {t: col for t, col in enumerate(palette)} if how == "color-dict" else palette)
            return
        colors = {"long-colors": palette, "short-colors": palette[:max(1, min(2, int(est.modules[0].n_clusters) - 1))]}.get(how)
        est.visualize(X, y, ax=ax, colors=colors)
        if what == "visualize-twice":
            est.visualize(X, y, ax=ax, colors=colors)
        return
    off = 0 if kind == "sup" else 1
    if what.startswith("module"):
        lv = r.randrange(k)
        tgt, X = est.modules[lv], case["Xs"][lv][:c]
    else:
        l = r.randrange(len(est.layers))
        tgt, X = est.layers[l], case["Xs"][l + off][:c]
    if what.endswith("plot_cluster_bounds"):
        tgt.plot_cluster_bounds(ax, palette)
    else:
        tgt.visualize(X, tgt.labels_, ax=ax, colors=r.choice([None, palette]))


def plotted_hierarchies(ctx, M, nmax):
    """visualize / plot_cluster_bounds are calls of a history like any other (they are how a trained hierarchy is looked
    at before training goes on): a SMART with 2..4 levels is drawn as a whole, a DeepARTMAP / SMART level module or layer
    is drawn on its own.  The whole C12 oracle runs before the drawing, after it (labels_deep_, every layer map, map_deep
    and predict still describe the trained tree) and after a partial_fit on a second batch that follows the drawing; the
    drawn hierarchy is also compared with a twin that had the same training calls and was never drawn.  A drawing that
    raises is tolerated (ART1 / ART2-A have no cluster bounds, BayesianART cannot be drawn with this numpy, ARTMAP
    layers have no plot_cluster_bounds, a short colour list runs out): the oracle is run all the same."""
    cov = ctx.cov
    plt = _pyplot()
    if plt is None:
        cov.hit("plotted-hierarchy:matplotlib-missing")
        return
    try:
        for j in range(M):
            r = gen.rng_for(ctx.seed, "C12-plot", j)
            q, slot = divmod(j, 4)
            i = 3 * q + [2, 2, 0, 1][slot]                        # SMART twice, supervised, unsupervised; classes cycle with q
            deep3 = slot == 0 or (slot == 1 and q % 2 == 0)      # SMART with three or more levels
            case = None
            for _ in range(60):
                cand = gen_case(r, i, max(nmax, 16), floats=q % 5 == 4)
                if cand["n"] < 6 or min(cand["ds"]) < 2:
                    continue
                if cand["kind"] == "smart" and deep3 and cand["k"] < 3:
                    continue
                case = cand
                break
            if case is None:
                cov.hit("plotted-hierarchy:no-instance")
                continue
            case["mode"] = MODES[j % 5]
            kind, cls, n, k = case["kind"], case["cls"], case["n"], case["k"]
            name = {"sup": "DeepARTMAP-sup", "unsup": "DeepARTMAP-unsup", "smart": "SMART"}[kind]
            if kind == "smart" and r.random() < 0.8:
                plot = HOST_PLOTS[(q + slot) % len(HOST_PLOTS)] if r.random() < 0.8 else r.choice(HOST_PLOTS)
            else:
                plot = PART_PLOTS[(q + slot) % len(PART_PLOTS)]
            c = r.randint(max(2, n // 2), n - 1)                  # rows 0:c before the drawing, c:n after it
            style = r.choice(["fit", "fit", "pfit", "fit+pfit"])
            calls = [(op, a, b) for op, a, b in plan(r, c, style)]
            rep = {"kind": kind, "spec": case["spec"], "Xs": [X.tolist() for X in case["Xs"]],
                   "y": None if case["y"] is None else case["y"].tolist(), "y_dtype": case.get("ydtype"),
                   "mode": case["mode"], "eps": case["eps"], "calls": calls, "then_plot": plot, "then_partial_fit_rows": [c, n]}
            key = ("plot", kind, case["spec"], rep["Xs"], rep["y"], case["mode"], case["eps"], calls, plot, c)
            try:
                est, twin = build(case), build(case)
                for e in (est, twin):
                    for op, a, b in calls:
                        do_fit(e, case, a, b, op)
            except Exception as e:
                ctx.issue("violation", f"{name}({cls}).fit:{exc_enum(e)}", f"training raised {e!r} on valid data (calls {calls})", rep)
                cov.case(key, False)
                continue
            if not oracle(ctx, est, case, c, f"{style}, before it is drawn", rep):
                cov.case(key, False)
                continue
            L0 = np.asarray(est.labels_deep_).copy()
            maps0 = [{int(p): as_int(v) for p, v in Ly.map.items()} for Ly in est.layers]
            counts = [len(set(L0[:, l].tolist())) for l in range(L0.shape[1])]
            Xl = case["Xs"][-1]
            Q = np.vstack([Xl[[r.randrange(n) for _ in range(min(n, 5))]],
                           specs.elem_data(r, case["classes"][-1], 3, case["ds"][-1])])
            try:
                P0 = [np.asarray(p).copy() for p in do_predict(est, case, Q)]
            except Exception:
                P0 = None                                             # reported by oracle_predict below
            # ---- the drawing
            raised = None
            try:
                with quiet():
                    draw(plt, r, est, case, plot, c)
            except Exception as e:
                raised = exc_enum(e)
            finally:
                plt.close("all")
            rep["plot_raised"] = raised
            tag = f"{style}, then {plot}" + (f" (the drawing raised {raised})" if raised else "")
            # ---- the trained hierarchy is still what labels_deep_ / the layer maps / map_deep / predict describe
            if oracle(ctx, est, case, c, tag, rep):
                L1 = np.asarray(est.labels_deep_)
                if L1.shape != L0.shape or not np.array_equal(L1, L0):
                    ctx.issue("violation", f"{name}:labels_deep_-changed-by-a-plotting-call",
                              f"[{tag}] before {L0.T.tolist()} after {L1.T.tolist()}", rep)
            try:
                maps1 = [{int(p): as_int(v) for p, v in Ly.map.items()} for Ly in est.layers]
            except Exception as e:
                maps1 = repr(e)
            if maps1 != maps0:
                ctx.issue("violation", f"{name}:maps-changed-by-a-plotting-call", f"[{tag}] before {maps0} after {maps1}", rep)
            P1 = oracle_predict(ctx, est, case, Q, L0, tag, dict(rep, Q=Q.tolist()))
            if P0 is not None and P1 is not None and any(not np.array_equal(a, b) for a, b in zip(P0, P1)):
                ctx.issue("violation", f"{name}:predict-changed-by-a-plotting-call",
                          f"[{tag}] before {[p.tolist() for p in P0]} after {[p.tolist() for p in P1]}", dict(rep, Q=Q.tolist()))
            # ---- training goes on: a second batch, the clauses again, and the twin that was never drawn
            tag2 = tag + f", then partial_fit rows {c}:{n}"
            try:
                do_fit(est, case, c, n, "pfit")
                do_fit(twin, case, c, n, "pfit")
            except Exception as e:
                ctx.issue("violation", f"{name}({cls}).partial_fit-after-plotting:{exc_enum(e)}",
                          f"[{tag2}] raised {e!r} on valid data", rep)
                cov.case(key, False)
                continue
            if oracle(ctx, est, case, n, tag2, rep):
                try:
                    same = same_snapshot(snapshot(est), snapshot(twin))
                except Exception:
                    same = False
                if not same:
                    ctx.issue("violation", f"{name}:history-with-plotting-call!=history-without",
                              f"[{tag2}] labels_deep_ {np.asarray(est.labels_deep_).T.tolist()}; the same training calls "
                              f"without the drawing give {np.asarray(twin.labels_deep_).T.tolist()}", rep)
                oracle_predict(ctx, est, case, Q, np.asarray(est.labels_deep_), tag2, dict(rep, Q=Q.tolist()))
            grow = len(counts) >= 3 and all(counts[l] < counts[l + 1] for l in range(len(counts) - 1))
            cov.case(key, nontrivial=raised is None and counts[-1] >= 2 and counts[-1] > counts[0])
            cov.hit("plotted-hierarchy")
            cov.hit(f"plotted-hierarchy:kind={kind}")
            cov.hit(f"plotted-hierarchy:plot={plot}")
            cov.hit(f"plotted-hierarchy:class={cls}")
            cov.hit(f"plotted-hierarchy:levels={L0.shape[1]}")
            cov.hit(f"plotted-hierarchy:trained-by={style}")
            cov.hit("plotted-hierarchy:then-partial_fit")
            cov.hit("plotted-hierarchy:drawn" if raised is None else f"plotted-hierarchy:drawing-raised:{cls}:{plot}:{raised}")
            if raised is None and kind == "smart" and plot in HOST_PLOTS:
                cov.hit(f"plotted-hierarchy:SMART-drawn-whole:levels={L0.shape[1]}")
                if grow:
                    cov.hit("plotted-hierarchy:SMART-drawn-whole:>=3-levels-categories-grow-at-every-level")
    finally:
        plt.close("all")


# ------------------------------------------------------------------ main loop



def prepare(ctx):
    """Translator tie (see gen_tie.py): the source of this slice is re-translated to Lean on every run
    (harness/artv/htrans.py) and proved equal to the model the property theorems are about"""
    from .gen_tie import gen_prepare, extra_theorems
    from .. import htrans
    gen_prepare(ctx, extra_theorems("htrans"), htrans.COVERS)

def run(ctx):
    cov = ctx.cov
    N = ctx.scale(720, 9600)
    nmax = ctx.scale(14, 40)
    for i in range(N):
        r = gen.rng_for(ctx.seed, "C12", i)
        case = gen_case(r, i, nmax, floats=(i // 120) % 4 == 3)
        kind, cls, n = case["kind"], case["cls"], case["n"]
        name = {"sup": "DeepARTMAP-sup", "unsup": "DeepARTMAP-unsup", "smart": "SMART"}[kind]
        rep = {"kind": kind, "spec": case["spec"], "Xs": [X.tolist() for X in case["Xs"]],
               "y": None if case["y"] is None else case["y"].tolist(), "y_dtype": case.get("ydtype"), "mode": case["mode"], "eps": case["eps"]}
        parts = gen.compositions(r, n)
        if len(parts) == 1 and n > 1 and r.random() < 0.7:
            c = r.randint(1, n - 1)
            parts = [c, n - c]
        rep["parts"] = parts
        key = (kind, case["spec"], rep["Xs"], rep["y"], case["mode"], case["eps"], parts)
        try:
            e_fit, e_pf = build(case), build(case)
        except Exception as e:
            ctx.issue("violation", f"{name}({cls}).__init__:{exc_enum(e)}", repr(e), rep)
            cov.case(key, False)
            continue
        # ---- fit
        try:
            do_fit(e_fit, case, 0, n, "fit")
        except Exception as e:
            ctx.issue("violation", f"{name}({cls}).fit:{exc_enum(e)}", f"fit raised {e!r} on valid data (mode {case['mode']})", rep)
            cov.case(key, False)
            continue
        ok = oracle(ctx, e_fit, case, n, "fit", rep)
        # ---- partial_fit batching, oracle after every batch
        j, pf_ok = 0, True
        for p in parts:
            try:
                do_fit(e_pf, case, j, j + p, "pfit")
            except Exception as e:
                ctx.issue("violation", f"{name}({cls}).partial_fit:{exc_enum(e)}",
                          f"partial_fit rows {j}:{j + p} raised {e!r} on valid data (mode {case['mode']})", rep)
                pf_ok = False
                break
            j += p
            oracle(ctx, e_pf, case, j, f"partial_fit {parts} after {j}", rep)
        if len(parts) > 1:
            cov.hit("multi-batch")
        if pf_ok:
            sa, sb = snapshot(e_fit), snapshot(e_pf)
            if not same_snapshot(sa, sb):
                ctx.issue("violation", f"{name}:fit!=partial_fit-batching",
                          f"batching {parts}: labels_deep_ fit {sa['cols'].T.tolist()} partial_fit {sb['cols'].T.tolist()}; "
                          f"maps {sa['maps']} vs {sb['maps']}", rep)
            cov.hit("fit-vs-batching-compared")
        # ---- fit on a prefix, partial_fit on the rest
        if n >= 2 and r.random() < 0.35:
            c = r.randint(1, n - 1)
            try:
                e_mix = build(case)
                do_fit(e_mix, case, 0, c, "fit")
                oracle(ctx, e_mix, case, c, f"fit {c}", rep)
                do_fit(e_mix, case, c, n, "pfit")
                oracle(ctx, e_mix, case, n, f"fit {c} + partial_fit {n - c}", rep)
                if not same_snapshot(snapshot(e_fit), snapshot(e_mix)):
                    ctx.issue("violation", f"{name}:fit+partial_fit!=fit", f"fit on rows 0:{c} then partial_fit on {c}:{n} "
                              f"differs from fit on all rows", rep)
                cov.hit("fit+partial_fit")
            except Exception as e:
                ctx.issue("violation", f"{name}({cls}).fit+partial_fit:{exc_enum(e)}", f"raised {e!r}", rep)
        # ---- re-fit on the used estimator (fresh layers around the same modules)
        if r.random() < 0.25 and pf_ok:
            try:
                do_fit(e_pf, case, 0, n, "fit")
                if not same_snapshot(snapshot(e_fit), snapshot(e_pf)):
                    ctx.issue("violation", f"{name}:refit!=fit", "fit after partial_fit differs from a fresh fit", rep)
                oracle(ctx, e_pf, case, n, "refit", rep)
                cov.hit("refit")
            except Exception as e:
                ctx.issue("violation", f"{name}({cls}).refit:{exc_enum(e)}", f"re-fit raised {e!r}", rep)
        # ---- predict
        Xl = case["Xs"][-1]
        Q = np.vstack([Xl[[r.randrange(n) for _ in range(min(n, 4))]],
                       specs.elem_data(r, case["classes"][-1], 3, case["ds"][-1])])
        L = np.asarray(e_fit.labels_deep_)
        P = oracle_predict(ctx, e_fit, case, Q, L, "fit", dict(rep, Q=Q.tolist()))
        counts = [len(set(L[:, l].tolist())) for l in range(L.shape[1])]
        cov.case(key, nontrivial=counts[-1] >= 2 and counts[-1] > counts[0])
        cov.hit(f"levels={L.shape[1]}")
        cov.hit(f"kind={kind}")
        cov.hit(f"class={cls}")
        cov.hit(f"mode={case['mode']}")
        if len(set(case["classes"])) > 1:
            cov.hit("mixed-classes")
        if (i // 120) % 4 == 3:
            cov.hit("float-data")
        if i < 3:
            cov.sample({"kind": kind, "classes": case["classes"], "rhos": [m["rho"] for m in case["mods"]],
                        "mode": case["mode"], "n": n, "parts": parts, "labels_deep_": L.T.tolist(),
                        "maps": [{int(p): int(q) for p, q in Ly.map.items()} for Ly in e_fit.layers],
                        "predict": None if P is None else [p.tolist() for p in P], "oracle_ok": ok})
    identifier_labels(ctx, ctx.scale(120, 1600), nmax)
    column_targets(ctx, ctx.scale(144, 1800), nmax)
    modules_list_edited(ctx, ctx.scale(168, 2100), nmax)
    plotted_hierarchies(ctx, ctx.scale(64, 640), nmax)
    correspondence(ctx, ctx.scale(480, 6000), ctx.scale(12, 30))
    ctx.trusted.append("C12: rounding inside the level kernels is outside the theorems (the nesting argument is order-only "
                       "and kernel-independent; the tie runs exact kernels on grid data)")
    ctx.assumptions.append("every batch is non-empty and all data matrices of a call have the same number of rows "
                           "(validate_data asserts it); one training pass (max_iter = 1)")
