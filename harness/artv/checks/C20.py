"""C20 — VAT.  Tie: the real `artlib.VAT` against the Lean `vat` on the very same
dissimilarity matrix (integer/rational entries as `vat R`, doubles as bit
patterns `vat F`); indices and re-ordered matrix must agree exactly (bitwise on
floats).  Oracle: the property statement executed on the implementation alone."""
from __future__ import annotations

from fractions import Fraction

import numpy as np
from scipy.spatial.distance import pdist, squareform

from .. import gen
from ..common import f2hex, mat_f, mat_q, parse_kv, parse_nats, q2s, run_driver
from ..impl import quiet, exc_enum

from artlib.common.VAT import VAT  # noqa: E402  (impl has pinned sys.path to $VERIF_REPO)

RULE = ("cases = (generator kind, input matrix or point set, distance callable, call mode precomputed/default/custom); "
        "one evaluation = one VAT call on the implementation compared with the Lean model and checked by the oracle; "
        "a case is non-trivial when n >= 3 and the run met at least one tie (in the seed arg-max or in some step's "
        "arg-min) or a duplicate sample, or the matrix is not symmetric, or the distance callable is not a monotone "
        "function of the straight-line distance between the samples (circular, feature-map, non-monotone, look-up "
        "callables on 1..3 columns), or (integer matrices with entries above 2**53) the seed arg-max or some step's "
        "arg-min is decided by a difference smaller than the float64 spacing at that magnitude; "
        "distinct by hash of (mode, matrix bit patterns / exact integer entries).  Plus call SEQUENCES (2..4 VAT calls "
        "of one caller on the same / an equal fresh / an in-place re-labelled input with the same metric object, the "
        "caller editing the arrays an earlier call returned in place in between): one evaluation = one call of the "
        "sequence checked by the oracle against ITS input; non-trivial when n >= 3 and a result was edited before a "
        "call on the same or an equal input; distinct by (mode, matrix, sequence)")

KINDS = ["int-ties", "int-ties", "float-sym", "points-grid", "points-dups", "points-float", "nonsym-int",
         "nonsym-float", "custom-metric", "constant", "two-level", "special-values", "custom-callable",
         "custom-callable"]

METRICS = {
    "cityblock": lambda X: pdist(X, "cityblock"),
    "chebyshev": lambda X: pdist(X, "chebyshev"),
    "sqeuclidean": lambda X: pdist(X, "sqeuclidean"),
    "hamming": lambda X: pdist(X, "hamming"),
    "euclidean-explicit": lambda X: pdist(X, "euclidean"),
}


# ---- user-style distance callables (anything that maps the data to a condensed vector): VAT must Prim-order
# ---- whatever dissimilarities the callable returns, whether or not they agree with the geometry of the columns.
# ---- Every callable is addressed by a name "family:parameter" so that a replay can rebuild it.

def _rows_pairs(X):
    X = np.asarray(X, dtype=float)
    i, j = np.triu_indices(X.shape[0], k=1)
    return X, i, j


def _circular(period):
    """arc length on a circle of circumference `period`, per column, summed (angles, hours, headings ...)"""
    def f(X):
        X, i, j = _rows_pairs(X)
        d = np.abs(X[i] - X[j]) % period
        return np.minimum(d, period - d).sum(axis=1)
    return f


FMAPS = {
    "sin": np.sin, "square": np.square, "abs": np.abs, "neg": np.negative,
    "mod3": lambda x: np.mod(x, 3.0), "tent": lambda x: np.abs(np.mod(x, 2.0) - 1.0),
}


def _fmap(fname):
    """cityblock distance after a (non-injective, non-monotone) feature map of every coordinate"""
    g = FMAPS[fname]

    def f(X):
        X, i, j = _rows_pairs(X)
        Y = g(X)
        return np.abs(Y[i] - Y[j]).sum(axis=1)
    return f


GDIST = {
    "bump": lambda e: e * np.exp(-e),          # rises, then falls: far pairs look close
    "mod": lambda e: np.mod(e, 2.5),
    "inverse": lambda e: 1.0 / (1.0 + e),      # a similarity handed in as "distance"
    "negated": lambda e: -e,                   # negative entries, maximum on the diagonal
    "steps": lambda e: np.floor(e),            # coarse: many ties
}


def _gdist(gname):
    """a non-monotone function of the euclidean distance"""
    g = GDIST[gname]
    return lambda X: g(pdist(np.asarray(X, dtype=float), "euclidean"))


def _discrete(_):
    def f(X):
        X, i, j = _rows_pairs(X)
        return np.any(X[i] != X[j], axis=1).astype(float)
    return f


def _column(which):
    """only one column counts (a pseudo-metric: distinct samples at distance 0)"""
    c = {"first": 0, "last": -1}[which]

    def f(X):
        X, i, j = _rows_pairs(X)
        return np.abs(X[i, c] - X[j, c])
    return f


def _table(seed):
    """dissimilarities looked up per pair of sample numbers (expert judgement), unrelated to the columns"""
    import random as _random

    def f(X):
        n = np.asarray(X).shape[0]
        q = _random.Random(int(seed))
        pool = [1.0, 2.0, 3.0, 0.5, 7.25] if q.random() < 0.5 else None
        return np.array([q.choice(pool) if pool else q.random() for _ in range(n * (n - 1) // 2)], dtype=float)
    return f


def _intcityblock(_):
    """Manhattan distance of INTEGER rows computed in the rows' own integer dtype (no detour through float64: exact
    for int64 / uint64 coordinates above 2**53, e.g. nanosecond time stamps); returns an integer condensed vector"""
    def f(X):
        X = np.asarray(X)
        i, j = np.triu_indices(X.shape[0], k=1)
        a, b = X[i], X[j]
        return (np.maximum(a, b) - np.minimum(a, b)).sum(axis=1, dtype=X.dtype)   # |a-b| without unsigned wrap-around
    return f


FAMILIES = {"circular": lambda p: _circular(float.fromhex(p)), "fmap": _fmap, "gdist": _gdist,
            "discrete": _discrete, "column": _column, "table": _table, "intcityblock": _intcityblock}
PERIODS = [2.0 * np.pi, 4.0, 1.0, 360.0, 3.0]


def metric_by_name(name):
    if name in METRICS:
        return METRICS[name]
    fam, _, par = name.partition(":")
    return FAMILIES[fam](par)


def callable_rows(r, n, d, period):
    """low-dimensional data for the custom callables: angles on the circle, lattice points (ties), plain floats"""
    style = r.choice(["angles", "angles", "coarse-angles", "lattice", "floats"])
    if style == "angles":
        rows = [[r.random() * period for _ in range(d)] for _ in range(n)]
    elif style == "coarse-angles":
        m = r.choice([4, 6, 8, 12])
        rows = [[r.randrange(m) * (period / m) for _ in range(d)] for _ in range(n)]
    elif style == "lattice":
        rows = [[float(r.randint(-3, 5)) for _ in range(d)] for _ in range(n)]
    else:
        rows = [[(r.random() - 0.5) * 8.0 for _ in range(d)] for _ in range(n)]
    X = np.array(rows, dtype=float).reshape(n, d)
    if n >= 3 and r.random() < 0.3:
        X[r.randrange(n)] = X[r.randrange(n)]
    return X, style


def agrees_with_geometry(X, D) -> bool:
    """is D a monotone (non-decreasing) function of the euclidean distance between the rows of X?"""
    n = X.shape[0]
    if n < 3:
        return True
    e = pdist(X, "euclidean")
    i, j = np.triu_indices(n, k=1)
    c = np.asarray(D, dtype=float)[i, j]
    o = np.lexsort((c, e))
    e, c = e[o], c[o]
    if np.any(np.diff(c) < 0):
        return False
    same = np.diff(e) == 0             # the same distance must give the same dissimilarity
    return not np.any(same & (np.diff(c) != 0))


# ------------------------------------------------------------------ generators

def sym_from_upper(r, n, draw):
    D = np.zeros((n, n), dtype=float)
    for i in range(n):
        for j in range(i + 1, n):
            D[i, j] = D[j, i] = draw()
    return D


def make_case(r, kind, n):
    """returns dict(kind, D (float or int ndarray handed to the model), calls=[(mode, args, kwargs)], rational=bool)"""
    if kind == "int-ties":
        k = r.choice([1, 2, 3, 5, 9])
        D = sym_from_upper(r, n, lambda: float(r.randint(1, k)))
        if r.random() < 0.4:
            D = D.astype(np.int64)
        return dict(kind=kind, D=D, X=None, metric=None, rational=True)
    if kind == "float-sym":
        D = sym_from_upper(r, n, r.random)
        return dict(kind=kind, D=D, X=None, metric=None, rational=False)
    if kind in ("points-grid", "points-dups", "points-float"):
        d = r.randint(1, 3)
        if kind == "points-grid":        # lattice points: many equidistant pairs
            X = np.array([[float(r.randint(0, 3)) for _ in range(d)] for _ in range(n)], dtype=float).reshape(n, d)
        elif kind == "points-dups":
            X = gen.grid_rows(r, n, d, m=r.choice([1, 2, 4]), style=r.choice(["dups", "corners", "coarse"]))
        else:
            X = gen.float_rows(r, n, d)
            if n >= 3 and r.random() < 0.5:   # plant exact duplicates among random floats
                X[r.randrange(n)] = X[r.randrange(n)]
        D = squareform(pdist(X, "euclidean"))
        return dict(kind=kind, D=D, X=X, metric="default", rational=False)
    if kind == "custom-metric":
        d = r.randint(1, 3)
        X = np.array([[float(r.randint(0, 4)) for _ in range(d)] for _ in range(n)], dtype=float).reshape(n, d)
        name = r.choice(sorted(METRICS))
        D = squareform(METRICS[name](X))
        return dict(kind=kind, D=D, X=X, metric=name, rational=False)
    if kind == "custom-callable":
        d = 1 if r.random() < 0.6 else r.randint(2, 3)
        fam = r.choice(["circular", "circular", "fmap", "gdist", "discrete", "column", "table"])
        period = r.choice(PERIODS)
        if fam == "circular":
            name = "circular:" + float(period).hex()
        elif fam == "fmap":
            name = "fmap:" + r.choice(sorted(FMAPS))
        elif fam == "gdist":
            name = "gdist:" + r.choice(sorted(GDIST))
        elif fam == "discrete":
            name = "discrete:"
        elif fam == "column":
            name = "column:" + r.choice(["first", "last"])
        else:
            name = "table:" + str(r.randrange(10 ** 6))
        X, style = callable_rows(r, n, d, period)
        D = squareform(metric_by_name(name)(X))
        return dict(kind=kind, D=D, X=X, metric=name, rational=False, style=style)
    if kind == "nonsym-int":
        k = r.choice([1, 2, 4, 9])
        D = np.array([[float(r.randint(0, k)) for _ in range(n)] for _ in range(n)], dtype=float).reshape(n, n)
        if r.random() < 0.5:
            np.fill_diagonal(D, 0.0)
        return dict(kind=kind, D=D, X=None, metric=None, rational=True)
    if kind == "nonsym-float":
        D = np.array([[r.random() - 0.3 for _ in range(n)] for _ in range(n)], dtype=float).reshape(n, n)
        return dict(kind=kind, D=D, X=None, metric=None, rational=False)
    if kind == "constant":
        c = r.choice([0.0, 1.0, 2.5])
        D = np.full((n, n), c, dtype=float)
        if r.random() < 0.7:
            np.fill_diagonal(D, 0.0)
        return dict(kind=kind, D=D, X=None, metric=None, rational=True)
    if kind == "two-level":               # clusters: small within, large between, all tied
        g = [r.randrange(r.randint(1, 3)) for _ in range(n)]
        D = np.array([[0.0 if i == j else (1.0 if g[i] == g[j] else 4.0) for j in range(n)] for i in range(n)],
                     dtype=float).reshape(n, n)
        return dict(kind=kind, D=D, X=None, metric=None, rational=True)
    if kind == "special-values":          # -0.0, +inf, tiny/huge magnitudes, negative entries
        pool = [0.0, -0.0, 1.0, -1.0, float("inf"), 5e-324, 1e308, 2.0 ** -30, 0.1 + 0.2, 0.3]
        D = sym_from_upper(r, n, lambda: r.choice(pool))
        if r.random() < 0.5:
            for i in range(n):
                D[i, i] = r.choice([0.0, -0.0])
        if r.random() < 0.3:
            D = D + np.triu(np.array([[r.choice([0.0, 1.0]) for _ in range(n)] for _ in range(n)]).reshape(n, n), 1)
        return dict(kind=kind, D=D, X=None, metric=None, rational=False)
    if kind == "int-huge":
        return make_int_huge(r, n)
    raise ValueError(kind)


# ---- INTEGER dissimilarities beyond the float64 mantissa (int64 / uint64 nanosecond durations, tick counts, hashes):
# ---- every entry is exact in its own dtype, two candidates may differ by 1 although they round to the same double.
# ---- Built from Python ints (exact), handed to VAT as an integer ndarray; checked by `oracle_exact` in Python ints.

INT_BASES = {
    "int64": [2 ** 53, 2 ** 53 + 2 ** 20 + 1, 2 ** 56, 2 ** 60 + 7, 2 ** 62, 2 ** 63 - 8],
    "uint64": [2 ** 53, 2 ** 54 + 1, 2 ** 60 + 7, 2 ** 63, 2 ** 63 + 2 ** 40, 2 ** 64 - 8],
}
INT_HUGE_STYLES = ["near-base-sym", "near-base-sym", "near-base-nonsym", "two-level", "mixed-small-huge",
                   "manhattan-points", "manhattan-points"]


def make_int_huge(r, n):
    dtype = r.choice(["int64", "int64", "uint64"])
    top = 2 ** 63 - 1 if dtype == "int64" else 2 ** 64 - 1
    style = r.choice(INT_HUGE_STYLES)
    base = r.choice(INT_BASES[dtype])
    k = min(r.choice([1, 1, 2, 3, 5]), top - base)      # candidates differ by 1..k
    X, metric = None, None
    if style == "near-base-sym":
        Dx = [[0] * n for _ in range(n)]
        for i in range(n):
            for j in range(i + 1, n):
                Dx[i][j] = Dx[j][i] = base + r.randint(0, k)
    elif style == "near-base-nonsym":
        neg = dtype == "int64" and r.random() < 0.3       # negative entries: the order is what counts
        Dx = [[(-1 if neg and r.random() < 0.5 else 1) * (base + r.randint(0, k)) for _ in range(n)] for _ in range(n)]
        if r.random() < 0.5:
            for i in range(n):
                Dx[i][i] = 0
    elif style == "two-level":                            # clusters, within / between levels both beyond 2**53
        far = 2 * base if 2 * base + k <= top else base + 2 ** 30
        far = min(far, top - k)
        g = [r.randrange(r.randint(1, 3)) for _ in range(n)]
        Dx = [[0] * n for _ in range(n)]
        for i in range(n):
            for j in range(i + 1, n):
                Dx[i][j] = Dx[j][i] = (base if g[i] == g[j] else far) + r.randint(0, k)
    elif style == "mixed-small-huge":                     # some pairs small (exact doubles), some beyond 2**53
        Dx = [[0] * n for _ in range(n)]
        for i in range(n):
            for j in range(i + 1, n):
                Dx[i][j] = Dx[j][i] = r.randint(1, 9) if r.random() < 0.3 else base + r.randint(0, k)
    else:                                                 # "manhattan-points": time stamps on 1..2 clocks
        d = r.randint(1, 2)
        B = r.choice([2 ** 53, 2 ** 54, 2 ** 58] + ([2 ** 61] if dtype == "uint64" and d == 1 else []))
        pts = [[r.randint(0, 3) * B + r.randint(0, 3) for _ in range(d)] for _ in range(n)]
        if n >= 3 and r.random() < 0.3:
            pts[r.randrange(n)] = list(pts[r.randrange(n)])
        Dx = [[sum(abs(a - b) for a, b in zip(p, q)) for q in pts] for p in pts]
        X = np.array(pts, dtype=dtype).reshape(n, d)
        metric = "intcityblock:"
    D = np.array(Dx, dtype=dtype).reshape(n, n)
    assert [[int(v) for v in row] for row in D] == Dx     # the ndarray holds the Python ints exactly
    return dict(kind="int-huge", D=D, X=X, metric=metric, rational=True, style=style, dtype=dtype)


# ------------------------------------------------------------------ oracle (implementation only)

def exact_val(v):
    """the exact value of one array entry: a Python int for integer dtypes, a Fraction for a finite float of any
    width, otherwise its repr (never equal to a number)"""
    if isinstance(v, (int, np.integer)):
        return int(v)
    if isinstance(v, (float, np.floating)):
        if not np.isfinite(v):
            return repr(v)
        q = Fraction(*v.as_integer_ratio())
        return int(q) if q.denominator == 1 else q
    return repr(v)


def exact_rows(M):
    M = np.asarray(M)
    return [[exact_val(v) for v in row] for row in M]


def oracle_exact(ctx, D, out, idx, mode, rep):
    """C20 on an INTEGER dissimilarity matrix, in exact (Python int) arithmetic against the input: no comparison and
    no equality goes through float64, so entries above 2**53 that differ by 1 stay different.  Returns coverage tags."""
    tags = set()
    Dx = exact_rows(D)
    n = len(Dx)
    cls = f"VAT[{mode}]:exact-int"
    if np.asarray(idx).shape != (n,):
        return tags                                         # reported by `oracle`
    P = [int(t) for t in np.asarray(idx).ravel()]
    if sorted(P) != list(range(n)):
        return tags                                         # reported by `oracle`
    flat = [v for row in Dx for v in row]
    if any(abs(v) > 2 ** 53 for v in flat):
        tags.add("exact-int:entries-above-2**53")
    if any(int(float(v)) != v for v in flat):
        tags.add("exact-int:entry-not-float64-representable")
    # seed: an endpoint of a largest dissimilarity
    gmax = max(flat)
    if max(Dx[P[0]]) != gmax:
        ctx.issue("violation", f"{cls}:seed-not-max-endpoint",
                  f"row {P[0]} has max {max(Dx[P[0]])}, the largest dissimilarity is {gmax} "
                  f"(difference {gmax - max(Dx[P[0]])})", rep)
    if any(v != gmax and float(v) == float(gmax) for v in flat):
        tags.add("exact-int:seed-decided-below-float64-spacing")
        first = next(t for t, v in enumerate(flat) if float(v) == float(gmax))
        if max(Dx[first // n]) != gmax:
            tags.add("exact-int:seed-float64-would-pick-another-row")
    # every step: appended sample is unvisited and closest to the visited set
    for k_ in range(1, n):
        vis = P[:k_]
        seen = set(vis)
        unv = [j for j in range(n) if j not in seen]
        cand = [(Dx[i][j], j) for i in vis for j in unv]    # row-major over (visited, unvisited), as np.ix_ lays it out
        best = min(c for c, _ in cand)
        got = min(Dx[i][P[k_]] for i in vis)
        if got != best:
            closer = sorted({j for c, j in cand if c == best})
            ctx.issue("violation", f"{cls}:step-not-nearest-unvisited",
                      f"step {k_}: appended sample {P[k_]} at distance {got} from the visited set {vis}, but sample(s) "
                      f"{closer} are closer ({best}; difference {got - best})", rep)
            break
        fb = float(best)
        near = [(c, j) for c, j in cand if float(c) == fb]
        if any(c != best for c, _ in near):
            tags.add("exact-int:step-decided-below-float64-spacing")
            if near[0][0] != best:                          # first candidate that rounds to the same double is farther
                tags.add("exact-int:step-float64-would-pick-another-sample")
    # matrix: the input's entries, exactly, re-ordered by the permutation
    want = [[Dx[i][j] for j in P] for i in P]
    o = np.asarray(out)
    if o.shape != (n, n):
        ctx.issue("violation", f"{cls}:matrix-not-reordered-input", f"returned matrix has shape {o.shape}", rep)
        return tags
    got_m = exact_rows(o)
    if got_m != want:
        bad = [(a, b) for a in range(n) for b in range(n) if got_m[a][b] != want[a][b]]
        a, b = bad[0]
        ctx.issue("violation", f"{cls}:matrix-not-reordered-input",
                  f"returned matrix (dtype {o.dtype}) does not hold the input's entries: {len(bad)} of {n * n} differ, "
                  f"e.g. out[{a},{b}] = {got_m[a][b]} but D[idx[{a}], idx[{b}]] = {want[a][b]}", rep)
    if o.dtype != np.asarray(D).dtype:
        tags.add("exact-int:output-dtype-differs-from-input")
    return tags



def bits_equal(A, B) -> bool:
    A, B = np.asarray(A), np.asarray(B)
    if A.shape != B.shape:
        return False
    if A.dtype.kind == "f" or B.dtype.kind == "f":
        return [f2hex(v) for v in A.astype(float).ravel()] == [f2hex(v) for v in B.astype(float).ravel()]
    return bool(np.array_equal(A, B))


def oracle(ctx, D, out, idx, mode, rep):
    """C20 on (D, VAT's result).  Returns the set of coverage tags met."""
    tags = set()
    n = D.shape[0]
    cls = f"VAT[{mode}]"
    idx_l = [int(t) for t in np.asarray(idx).ravel()]
    if np.asarray(idx).shape != (n,) or sorted(idx_l) != list(range(n)):
        ctx.issue("violation", f"{cls}:not-a-permutation", f"indices {idx_l} are not a permutation of 0..{n - 1}", rep)
        return tags
    # seed: an endpoint of a largest dissimilarity
    gmax = D.max()
    if not D[idx_l[0]].max() == gmax:
        ctx.issue("violation", f"{cls}:seed-not-max-endpoint",
                  f"row {idx_l[0]} has max {D[idx_l[0]].max()} < global max {gmax}", rep)
    n_max = int((D == gmax).sum())
    symmetric = bool(np.array_equal(D, D.T))
    if n_max > (2 if symmetric and n > 1 else 1):
        tags.add("tie-in-seed")
    if len(set(np.argwhere(D == gmax)[:, 0].tolist())) > (2 if symmetric else 1):
        tags.add("tie-in-seed:several-candidate-rows")
    if idx_l[0] != 0:
        tags.add("seed-not-row0")
    # every step: appended sample is unvisited and closest to the visited set
    visited = np.zeros(n, dtype=bool)
    visited[idx_l[0]] = True
    for k in range(1, n):
        vis = idx_l[:k]
        unv = [j for j in range(n) if not visited[j]]
        nxt = idx_l[k]
        sub = D[np.ix_(vis, unv)]
        m = sub.min()
        if visited[nxt] or not (D[vis, nxt].min() == m):
            ctx.issue("violation", f"{cls}:step-not-nearest-unvisited",
                      f"step {k}: appended {nxt}, its distance to the visited set {D[vis, nxt].min()} vs minimum {m}", rep)
            break
        hits = np.argwhere(sub == m)
        if len(hits) > 1:
            tags.add("tie-in-step")
            if len(set(hits[:, 1].tolist())) > 1:
                tags.add("tie-in-step:several-candidate-samples")
                # row-major first vs column-major first pick different samples
                if hits[0, 1] != min(hits[:, 1]):
                    tags.add("tie-in-step:row-major-rule-decides")
        visited[nxt] = True
    # matrix: the input re-ordered by the permutation, exactly
    want = D[np.ix_(idx_l, idx_l)]
    if not bits_equal(out, want):
        ctx.issue("violation", f"{cls}:matrix-not-reordered-input", "returned matrix != D[ix_(idx, idx)]", rep)
    zero_diag = bool(np.all(np.diag(D) == 0))
    if symmetric and zero_diag:
        o = np.asarray(out)
        if o.shape != (n, n) or not np.array_equal(o, o.T) or not np.all(np.diag(o) == 0):
            ctx.issue("violation", f"{cls}:output-not-symmetric-zero-diagonal",
                      "symmetric zero-diagonal input, output is not", rep)
        tags.add("symmetric-zero-diagonal")
        if n > 1 and int((D == 0).sum()) > n:
            tags.add("duplicates")
    if not symmetric:
        tags.add("nonsymmetric")
    return tags


# ------------------------------------------------------------------ sequences of calls by one caller
# The property is about EVERY call: a caller that asks again (same array, an equal fresh array, or its array re-labelled
# in place) after it has post-processed what an earlier call returned (scaled the image for display, sorted / reversed
# the index vector, cleared the matrix ...) must get a Prim-ordered permutation and the re-ordered dissimilarities of
# the input of THAT call; what VAT returned earlier must stay what it was (no array shared between two results, none
# shared with the caller's input: an in-place edit of one would silently change the other).

EDITS = ["R.scale", "R.scale", "R.zero", "R.shift", "R.negate", "R.transpose", "R.flip", "P.sort", "P.sort",
         "P.reverse", "P.roll", "P.zero", "none"]
SEQ_INPUTS = ["same", "same", "same", "copy", "copy", "swap"]


def apply_edit(name, R, P) -> bool:
    """one in-place edit of a returned (matrix, indices) pair, as a caller would do it; False if numpy refused"""
    try:
        with np.errstate(all="ignore"):
            if name == "R.scale":                   # image scaled to [0, 1] for display
                if R.dtype.kind == "f":
                    R /= R.max()
                else:
                    R //= 2
            elif name == "R.zero":
                R[...] = 0
            elif name == "R.shift":
                R += 1
            elif name == "R.negate":
                np.negative(R, out=R)
            elif name == "R.transpose":
                R[:] = R.T.copy()
            elif name == "R.flip":
                R[:] = R[::-1, ::-1].copy()
            elif name == "P.sort":
                P.sort()
            elif name == "P.reverse":
                P[:] = P[::-1].copy()
            elif name == "P.roll":
                P[:] = np.roll(P, 1)
            elif name == "P.zero":
                P[:] = 0
            elif name != "none":
                raise KeyError(name)
        return True
    except (TypeError, ValueError):
        return False


def make_sequence(r, n):
    """steps[k] = {input: first|same|copy|swap (+ swap: [a, b]), edits: [{on: j < k, edit: name}]}"""
    steps = [{"input": "first", "edits": []}]
    for k in range(1, r.randint(2, 4)):
        inp = r.choice(SEQ_INPUTS)
        st = {"input": inp, "edits": []}
        if inp == "swap":
            if n < 2:
                st["input"] = "same"
            else:
                a = r.randrange(n)
                st["swap"] = [a, r.choice([t for t in range(n) if t != a])]
        for _ in range(r.choice([1, 1, 2])):
            st["edits"].append({"on": k - 1 if r.random() < 0.7 else r.randrange(k), "edit": r.choice(EDITS)})
        steps.append(st)
    return steps


def dissim_of(X, metric):
    """the matrix VAT is to re-order for the rows X (the way make_case builds it)"""
    if metric == "default":
        return squareform(pdist(X, "euclidean"))
    return squareform(metric_by_name(metric)(X))


def run_sequence(ctx, D0, X0, mode, metric, steps, positional, base):
    """drives one caller's sequence of VAT calls; every call is checked by `oracle` (+ `oracle_exact`) against the
    input of that call.  Returns (coverage tags, number of calls made)."""
    tags = set()
    label = f"{mode}:repeated-call"
    cls = f"VAT[{label}]"
    fn = None if mode != "custom" else metric_by_name(metric)      # ONE metric object for the whole sequence
    D = np.array(D0, copy=True)                                    # the caller's own arrays (edited in place by "swap")
    arg = D if mode == "precomputed" else np.array(X0, copy=True)
    results = []                                                   # per call: dict(R, P, R0, P0, edited)
    for k, st in enumerate(steps):
        rep = dict(base, mode=mode, sequence=steps[:k + 1], positional=positional, call=k)
        for e in st["edits"]:                                      # the caller post-processes an earlier result
            tgt = results[e["on"]]
            if apply_edit(e["edit"], tgt["R"], tgt["P"]):
                tgt["edited"] = tgt["edited"] or e["edit"] != "none"
                tags.add("repeat:edit:" + e["edit"])
            else:
                tags.add("repeat:edit-refused-by-numpy:" + e["edit"])
        if st["input"] == "copy":                                  # an equal array in fresh memory
            D = np.array(D, copy=True)
            arg = D if mode == "precomputed" else np.array(arg, copy=True)
        elif st["input"] == "swap":                                # the caller re-labels two samples in place
            a, b = st["swap"]
            if mode == "precomputed":
                D[[a, b]] = D[[b, a]]
                D[:, [a, b]] = D[:, [b, a]]
            else:
                arg[[a, b]] = arg[[b, a]]
                if is_int(D) or metric.startswith("table:"):
                    if not metric.startswith("table:"):            # exact integers: the same entries, re-labelled
                        D = np.array(D, copy=True)
                        D[[a, b]] = D[[b, a]]
                        D[:, [a, b]] = D[:, [b, a]]
                else:
                    D = dissim_of(arg, metric)
        tags.add("repeat:input:" + st["input"])
        before = np.array(arg, copy=True)
        try:
            with quiet():
                if mode == "precomputed":
                    out, idx = VAT(arg, None) if positional else VAT(arg, distance_metric=None)
                elif mode == "default":
                    out, idx = VAT(arg)
                else:
                    out, idx = VAT(arg, fn) if positional else VAT(arg, distance_metric=fn)
        except Exception as e:  # noqa: BLE001
            ctx.issue("violation", f"{cls}:raised:{exc_enum(e)}", f"call {k} of the sequence: VAT raised {e!r}", rep)
            return tags, k
        if not bits_equal(before, arg):
            ctx.issue("violation", f"{cls}:mutates-input", f"call {k} of the sequence modified the caller's array", rep)
        # the property, on this call's input
        tags |= {"repeat:" + t for t in oracle(ctx, np.asarray(D), out, idx, label, rep)}
        if is_int(D):
            oracle_exact(ctx, D, out, idx, label, rep)
        # what VAT hands out belongs to this call alone
        o_arr, i_arr = np.asarray(out), np.asarray(idx)
        for nm, a_ in (("matrix", o_arr), ("index vector", i_arr)):
            if np.shares_memory(a_, arg):
                ctx.issue("violation", f"{cls}:result-aliases-input",
                          f"call {k}: the returned {nm} shares memory with the caller's input array (an in-place edit of "
                          f"the result would change the caller's data)", rep)
            for j, res in enumerate(results):
                if any(a_ is b_ or np.shares_memory(a_, b_) for b_ in (res["R"], res["P"])):
                    ctx.issue("violation", f"{cls}:result-aliases-earlier-result",
                              f"call {k}: the returned {nm} shares memory with an array returned by call {j} of the "
                              f"same sequence (edits made to one result show up in the other)", rep)
                    break
        tags.add("repeat:no-alias-checked")
        results.append(dict(R=out, P=idx, R0=np.array(out, copy=True), P0=np.array(idx, copy=True), edited=False))
    # results the caller never touched are still what VAT returned
    for j, res in enumerate(results):
        if not res["edited"] and not (bits_equal(res["R"], res["R0"]) and bits_equal(res["P"], res["P0"])):
            ctx.issue("violation", f"{cls}:untouched-result-changed",
                      f"the arrays returned by call {j} were never edited by the caller, yet they differ from what the "
                      f"call returned (changed by a later call or by an edit of another call's result)",
                      dict(base, mode=mode, sequence=steps, positional=positional, call=j))
    tags.add(f"repeat:calls={len(steps)}")
    return tags, len(steps)


# ------------------------------------------------------------------ run

def mat_qx(M) -> str:
    """exact rational text of every entry (common.mat_q goes through float(): lossy for integers above 2**53)"""
    rows = exact_rows(M)
    return "|".join(",".join(q2s(v) for v in row) for row in rows) if rows else "-"


def is_int(D) -> bool:
    return np.asarray(D).dtype.kind in "iu"


def model_line(D, rational: bool) -> str:
    if is_int(D):
        return "vat R " + mat_qx(D)
    return ("vat R " + mat_q(D.tolist())) if rational else ("vat F " + mat_f(D.astype(float)))


def call_impl(ctx, mode, arg, metric, rep):
    """one VAT call; returns (out, idx) or None"""
    before = np.array(arg, copy=True)
    try:
        with quiet():
            if mode == "precomputed":
                out, idx = VAT(arg, distance_metric=None)
            elif mode == "default":
                out, idx = VAT(arg)
            else:
                out, idx = VAT(arg, distance_metric=metric_by_name(metric))
    except Exception as e:  # noqa: BLE001
        ctx.issue("violation", f"VAT[{mode}]:raised:{exc_enum(e)}", f"VAT raised {e!r}", rep)
        return None
    if not bits_equal(before, arg):
        ctx.issue("violation", f"VAT[{mode}]:mutates-input", "the caller's array was modified", rep)
    return out, idx


def compare(ctx, D, rational, out, idx, model_out, mode, rep):
    cov = ctx.cov
    if not model_out.startswith("idx="):
        ctx.issue("diff", f"vat:{mode}:model-refused", f"model answered {model_out!r}", rep)
        return
    kv = parse_kv(model_out)
    m_idx = parse_nats(kv["idx"])
    i_idx = [int(t) for t in np.asarray(idx).ravel()]
    if m_idx != i_idx:
        ctx.issue("diff", f"vat:{mode}:indices", f"impl indices {i_idx}, model {m_idx}", rep)
        return
    if is_int(D):
        try:
            i_out = mat_qx(out)
        except (TypeError, ValueError):          # an entry that is not a number (inf / nan after a cast)
            i_out = repr(np.asarray(out).tolist())
    else:
        i_out = mat_q(np.asarray(out).tolist()) if rational else mat_f(np.asarray(out, dtype=float))
    if kv["out"] != i_out:
        ctx.issue("diff", f"vat:{mode}:matrix", f"impl matrix {i_out[:200]}, model {kv['out'][:200]}", rep)
        return
    cov.traces += 1



def prepare(ctx):
    """Translator tie (see gen_tie.py): the source of this slice is re-translated to Lean on every run
    (harness/artv/vtrans.py) and proved equal to the model the property theorems are about"""
    from .gen_tie import gen_prepare, extra_theorems
    from .. import vtrans
    gen_prepare(ctx, extra_theorems("vtrans") + [], vtrans.COVERS)

def run(ctx):
    cov = ctx.cov
    N = ctx.scale(2000, 12000)
    nmax = ctx.scale(12, 60)
    ctx.assumptions += [
        "dissimilarities are NaN-free (NaN is not a value of the order-only model; np.argmax/argmin would pick the first NaN)",
        "a distance callable returns a condensed distance vector (what scipy.spatial.distance.pdist returns); "
        "squareform(pdist(.)) itself is trusted, the model starts from the resulting matrix",
    ]
    ctx.trusted += ["numpy argmax/argmin/unravel_index/ix_ tie and ordering rules (modelled, exercised by the tie)",
                    "scipy squareform/pdist (the matrix they produce is handed unchanged to the model)"]
    lines, pend = [], []
    # the int-huge cases are appended with their own generator tag, the cases 0..N-1 are what they were before
    N_huge = ctx.scale(160, 900)
    plan = [(i, "C20", KINDS[i % len(KINDS)]) for i in range(N)] + \
           [(N + j, "C20-int-huge", "int-huge") for j in range(N_huge)]
    for i, gtag, kind in plan:
        r = gen.rng_for(ctx.seed, gtag, i)
        # sizes: every small n often (exhaustive-ish on 2..5), the rest up to nmax
        t = r.random()
        n = 1 if (t < 0.01) else (r.randint(2, 5) if t < 0.4 else r.randint(2, nmax))
        if ctx.thorough and t > 0.9:
            n = r.randint(nmax // 2, nmax)
        c = make_case(r, kind, n)
        D, X = c["D"], c["X"]
        base = {"case": i, "kind": kind, "n": n, "D_hex": mat_f(np.asarray(D, dtype=float)),
                "X": None if X is None else X, "metric": c["metric"]}
        if kind == "int-huge":                 # D_hex / X are rounded to doubles: the exact integers travel beside them
            base.update(D_int=exact_rows(D), dtype=c["dtype"], style=c["style"],
                        X_int=None if X is None else exact_rows(X),
                        D_hex="(lossy, see D_int) " + base["D_hex"], X=None)
        ckey = mat_qx(D) if kind == "int-huge" else base["D_hex"]
        line = model_line(D, c["rational"])
        calls = [("precomputed", D, None)]
        if c["metric"] == "default":
            calls.append(("default", X, None))
        elif c["metric"] is not None:
            calls.append(("custom", X, c["metric"]))
        tags_all = set()
        for mode, arg, metric in calls:
            rep = dict(base, mode=mode, line=line)
            res = call_impl(ctx, mode, arg, metric, rep)
            if res is None:
                cov.case((mode, ckey), False)
                continue
            out, idx = res
            tags = oracle(ctx, np.asarray(D), out, idx, mode, rep)
            if is_int(D):
                tags |= oracle_exact(ctx, D, out, idx, mode, rep)
            if mode == "custom" and kind == "int-huge":
                cov.hit("callable:intcityblock")
                cov.hit("custom:integer-dtype-rows")
            elif mode == "custom":
                dcols = "d=1" if X.shape[1] == 1 else "d>=2"
                cov.hit(f"custom:{dcols}")
                cov.hit("callable:" + metric.partition(":")[0])
                if kind == "custom-callable":
                    cov.hit("callable-data:" + c["style"])
                if not agrees_with_geometry(X, np.asarray(D)):
                    tags.add("callable-not-monotone-in-distance")
                    cov.hit(f"callable-not-monotone-in-distance:{dcols}")
            tags_all |= tags
            nontrivial = n >= 3 and bool(tags & {"tie-in-seed", "tie-in-step", "duplicates", "nonsymmetric",
                                                 "callable-not-monotone-in-distance",
                                                 "exact-int:seed-decided-below-float64-spacing",
                                                 "exact-int:step-decided-below-float64-spacing"})
            cov.case((mode, ckey), nontrivial)
            cov.hit(f"mode:{mode}")
            lines.append(line)
            pend.append((D, c["rational"], out, idx, mode, rep))
        for t_ in tags_all:
            cov.hit(t_)
        cov.hit(f"kind:{kind}")
        cov.hit("n=1" if n == 1 else "n=2" if n == 2 else "n>=3")
        if D.dtype.kind in "iu":
            cov.hit("int-dtype-input")
            cov.hit(f"int-dtype:{D.dtype.name}")
        if kind == "int-huge":
            cov.hit("int-huge:" + c["style"])
        if D.dtype.kind == "f" and np.any(np.signbit(D) & (D == 0)):
            cov.hit("negative-zero-entry")
        if D.dtype.kind == "f" and np.any(np.isinf(D)):
            cov.hit("inf-entry")
        if i < 4:
            cov.sample({"kind": kind, "n": n, "D": np.asarray(D).tolist() if n <= 6 else "…",
                        "modes": [m for m, _, _ in calls]})
    # ---- sequences of calls (own generator tag: the cases above are what they were before)
    N_seq = ctx.scale(420, 2400)
    seq_kinds = KINDS + ["int-huge", "int-huge"]
    for j in range(N_seq):
        i = N + N_huge + j
        r = gen.rng_for(ctx.seed, "C20-sequence", i)
        kind = seq_kinds[j % len(seq_kinds)]
        t = r.random()
        n = 1 if t < 0.02 else (r.randint(2, 5) if t < 0.5 else r.randint(2, nmax))
        c = make_case(r, kind, n)
        D, X = c["D"], c["X"]
        modes = ["precomputed"] + (["default"] if c["metric"] == "default" else ["custom"] if c["metric"] else [])
        mode = modes[-1] if r.random() < 0.6 else modes[0]
        steps = make_sequence(r, n)
        positional = r.random() < 0.5
        base = {"case": i, "kind": kind, "n": n, "D_hex": mat_f(np.asarray(D, dtype=float)),
                "X": None if X is None else X, "metric": c["metric"]}
        if kind == "int-huge":
            base.update(D_int=exact_rows(D), dtype=c["dtype"], style=c["style"],
                        X_int=None if X is None else exact_rows(X),
                        D_hex="(lossy, see D_int) " + base["D_hex"], X=None)
        tags, made = run_sequence(ctx, D, X, mode, c["metric"], steps, positional, base)
        for t_ in tags:
            cov.hit(t_)
        cov.hit(f"repeat:mode:{mode}")
        cov.hit("repeat:call-style:" + ("positional" if positional else "keyword"))
        if D.dtype.kind in "iu":
            cov.hit("repeat:int-dtype-input")
        edited_then_same = any(st["input"] in ("same", "copy") and any(e["edit"] != "none" for e in st["edits"])
                               for st in steps[1:])
        if edited_then_same:
            cov.hit("repeat:edited-result-then-equal-input")
        cov.case((mode + ":sequence", mat_qx(D) if kind == "int-huge" else base["D_hex"], repr(steps), positional),
                 n >= 3 and edited_then_same)
        cov.evaluations += max(0, made - 1)          # one evaluation per call of the sequence
        if j < 2:
            cov.sample({"kind": kind, "n": n, "mode": mode, "sequence": steps})
    outs = run_driver(lines)
    for (D, rational, out, idx, mode, rep), mo in zip(pend, outs):
        compare(ctx, D, rational, out, idx, mo, mode, dict(rep, model=mo))
    # the branches the theorems talk about must have been met
    for must in ("tie-in-seed", "tie-in-step", "tie-in-step:row-major-rule-decides", "duplicates",
                 "nonsymmetric", "seed-not-row0", "symmetric-zero-diagonal", "callable-not-monotone-in-distance",
                 "callable-not-monotone-in-distance:d=1", "callable:circular", "custom:d=1",
                 "int-dtype:int64", "int-dtype:uint64", "exact-int:entries-above-2**53",
                 "exact-int:entry-not-float64-representable", "exact-int:seed-float64-would-pick-another-row",
                 "exact-int:step-decided-below-float64-spacing", "exact-int:step-float64-would-pick-another-sample",
                 "custom:integer-dtype-rows",
                 "repeat:input:same", "repeat:input:copy", "repeat:input:swap", "repeat:edit:R.scale",
                 "repeat:edit:R.zero", "repeat:edit:P.sort", "repeat:edit:P.reverse", "repeat:mode:precomputed",
                 "repeat:mode:default", "repeat:mode:custom", "repeat:edited-result-then-equal-input",
                 "repeat:no-alias-checked", "repeat:int-dtype-input", "repeat:tie-in-step"):
        if cov.branches.get(must, 0) == 0:
            cov.hit("unreached:" + must)
            ctx.log.append(f"coverage: branch {must!r} not reached in this run")


def replay(ctx, payload) -> int:
    """re-run one stored case: payload['replay'] holds D_hex (+ X, metric, mode)"""
    from ..common import parse_mat_f
    rep = payload.get("replay") or {}
    mode = rep.get("mode", "precomputed")
    if rep.get("D_int") is not None:          # integer dissimilarities: rebuilt exactly, in their own dtype
        n = len(rep["D_int"])
        D = np.array(rep["D_int"], dtype=rep["dtype"]).reshape(n, n)
        arg = D if mode == "precomputed" else np.array(rep["X_int"], dtype=rep["dtype"]).reshape(n, -1)
    else:
        D = np.array(parse_mat_f(rep["D_hex"]), dtype=float)
        arg = D if mode == "precomputed" else np.array(rep["X"], dtype=float)
    if rep.get("sequence"):                   # a caller's sequence of calls with in-place edits in between
        base = {k_: v for k_, v in rep.items() if k_ not in ("sequence", "call", "mode", "positional")}
        _, made = run_sequence(ctx, D, None if mode == "precomputed" else arg, mode, rep.get("metric"),
                               rep["sequence"], bool(rep.get("positional")), base)
        print(f"[C20] replay: sequence of {len(rep['sequence'])} call(s), {made} made")
        return 0
    res = call_impl(ctx, mode, arg, rep.get("metric"), rep)
    if res is None:
        return 1
    out, idx = res
    oracle(ctx, D, out, idx, mode, rep)
    if is_int(D):
        oracle_exact(ctx, D, out, idx, mode, rep)
    line = model_line(D, is_int(D))
    compare(ctx, D, is_int(D), out, idx, run_driver([line])[0], mode, dict(rep, line=line))
    print(f"[C20] replay: indices {list(map(int, idx))}")
    return 0
